/-
C11 — Server serves only negotiated connections and survives hostile peers.

 * `handlers_only_if_negotiated`: for every protocol line, every first frame and every frame
   sequence, a handler runs only if the line was the protocol line, the first frame was a connect
   request and it offered version 10 (`Mpx/Handshake.lean`, the repaired handshake: a refusal ends
   the connection — tied to the source by the regenerated event sequence of handshakeAsServer,
   whose refusal branch must return an error, `refusal_returns_error`).
 * `dispatch_total`: every parsed message is answered with OK or a connection error (no third
   outcome exists; nested batches, duplicate ids and unknown codes are connection errors, frames for
   unknown channels are dropped with OK); parsing itself never panics on any bytes (C02).
 * confinement: the dispatch state is per connection (`Conn`), no step of one connection reads or
   writes another one's state; shared pools are C18.
`unrepaired_refusal_served`: on the pinned code the refusal path returned the OK status of the
write, `run()` started the loops and an open frame got a handler.
-/
import SpecVerif.Mpx.Handshake
import SpecVerif.PinnedMpx
namespace SpecVerif.C11
open SpecVerif.Mpx.Handshake

theorem serve_iff (line : String) (first : First) (lz4 : Bool) :
    serverHandshake line first = .serve lz4 →
      line = SpecVerif.Pinned.protocolLine ∧ ∃ vs cs, first = .request vs cs ∧ version10 ∈ vs := by
  unfold serverHandshake
  split
  · intro h; cases h
  · rename_i hl
    cases first with
    | request vs cs =>
      simp only
      split
      · rename_i hv
        intro _
        exact ⟨by simpa using hl, vs, cs, rfl, hv⟩
      · intro h; cases h
    | otherMessage => intro h; cases h
    | garbage => intro h; cases h

/-- a handler runs only on a connection whose handshake completed with the protocol line and a
mutually supported version -/
theorem handlers_only_if_negotiated (line : String) (first : First) (frames : List Msg)
    (h : (connection line first frames).handlers > 0) :
    line = SpecVerif.Pinned.protocolLine ∧ ∃ vs cs, first = .request vs cs ∧ version10 ∈ vs := by
  unfold connection at h
  cases hs : serverHandshake line first with
  | serve lz4 => exact serve_iff line first lz4 hs
  | refuse => rw [hs] at h; simp at h
  | fail => rw [hs] at h; simp at h

/-- a refused connection (no supported version) is closed without any handler, whatever the peer
sends afterwards -/
theorem refused_never_served (vs cs : List Nat) (hv : version10 ∉ vs) (frames : List Msg) :
    (connection SpecVerif.Pinned.protocolLine (.request vs cs) frames).handlers = 0 := by
  unfold connection serverHandshake
  simp [hv]

/-- anything else first (garbage, another message, wrong line) → no handler -/
theorem unnegotiated_never_served (line : String) (first : First) (frames : List Msg)
    (h : line ≠ SpecVerif.Pinned.protocolLine ∨ first = .otherMessage ∨ first = .garbage) :
    (connection line first frames).handlers = 0 := by
  unfold connection serverHandshake
  rcases h with h | h | h
  · simp [h]
  · subst h; by_cases hl : line = SpecVerif.Pinned.protocolLine <;> simp [hl]
  · subst h; by_cases hl : line = SpecVerif.Pinned.protocolLine <;> simp [hl]

set_option maxRecDepth 100000 in
/-- the source's refusal branch ends with an error return (regenerated event sequence): the write
status is returned only when the write failed, then `mpxErrorf(...)` -/
theorem refusal_returns_error :
    ["if !ok", "call pmpx.BuildConnectError(\"unsupported protocol versions\")", "if err != nil",
     "return mpxError(err)", "if !st.OK()",
     "call c.writer.writeAndFlush(resp)", "return st",
     "return mpxErrorf(\"client requested unsupported protocol versions\")"] <:+:
      SpecVerif.PinnedMpx.ev_conn_handshakeAsServer ∧
    SpecVerif.PinnedMpx.ev_conn_handshakeAsServer.getLast? = some "return status.OK" ∧
    "call c.handshaked.Set()" ∈ SpecVerif.PinnedMpx.ev_conn_handshakeAsServer := by
  refine ⟨?_, by decide, by decide⟩
  decide

/-- dispatch is total: OK or connection error, for every message (nested batches included) -/
theorem dispatch_total (c : Conn) (b : Bool) (m : Msg) :
    (dispatch c b m).2 = .ok ∨ (dispatch c b m).2 = .connError := by
  cases h : (dispatch c b m).2 <;> simp

/-- frames for unknown channels are dropped silently -/
theorem unknown_channel_dropped (c : Conn) (id : Nat) (h : id ∉ c.channels) :
    (dispatch c false (.data id)).2 = .ok ∧ (dispatch c false (.window id)).2 = .ok ∧
    (dispatch c false (.close id)).2 = .ok ∧ (dispatch c false (.data id)).1.handlers = c.handlers := by
  simp [dispatch, h]

/-- a duplicate channel id, a nested batch and an unexpected code are connection errors and start no
handler -/
theorem hostile_frames_confined (c : Conn) (id : Nat) (h : id ∈ c.channels) (ms : List Msg) :
    (dispatch c false (.open_ id)) = (c, .connError) ∧ (dispatch c true (.batch ms)) = (c, .connError) ∧
    (dispatch c false .unknown) = (c, .connError) := by
  simp [dispatch, h]

/-- the pinned handshake: the refusal path returned the OK status of the write and was served -/
def unrepairedHandshake (line : String) (first : First) : Outcome :=
  if line ≠ SpecVerif.Pinned.protocolLine then .fail else
  match first with
  | .request vs cs => .serve (decide (compLz4 ∈ cs))   -- also when no version matched
  | _ => .fail

theorem unrepaired_refusal_served :
    unrepairedHandshake SpecVerif.Pinned.protocolLine (.request [] []) = .serve false ∧
    (serveFrames ⟨[], 0, 0⟩ [.open_ 7]).handlers = 1 := by decide

end SpecVerif.C11
