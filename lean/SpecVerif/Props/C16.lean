/-
C16 — Messages stay readable across schema evolution.

A reader of another schema version reads by tag. The theorems are corollaries of C01's field
theorems, which hold for ARBITRARY surrounding fields `l`, `r` (any other tags, any order):
fields common to both versions read back unchanged, unknown fields disturb nothing, absent fields
read as zero with presence false.
`copy_preserves`: a writer that writes ANY fields of its own (any value trees, any tags) and then
Copies/Merges from a well-formed source message — the writer model's `copyMsg` loop over the source
table: TagAt, HasField on the destination, FieldAt, raw field write — answers `ok` to every call and
builds a message in which every source field with a tag the writer did not write (known to the
writer's schema or not) reads back with exactly its source value, and every field the writer wrote
reads back as written (Lemmas/WriterCopy.lean). The stream `merge-preserves-unknown` runs the same
programs on the Go writer.
-/
import SpecVerif.Props.C01
import SpecVerif.Lemmas.WriterCopy
namespace SpecVerif.C16
open SpecVerif Pinned

/-- A field written with tag `tag` reads back as exactly the written value in EVERY message that
contains it, whatever other fields (known or unknown to the reader) surround it, in whatever order
they were written: adding, removing, renaming (same tag) or reordering other fields changes nothing. -/
theorem common_field_unchanged (p p' : Bytes) (tag : Nat) (v : Bytes) (hv : Delim v)
    (l r l' r' : List (Nat × Bytes))
    (wf : MsgWF (l ++ (tag, v) :: r)) (wf' : MsgWF (l' ++ (tag, v) :: r')) :
    ∃ M M', openMessageErr (p ++ encMsg (l ++ (tag, v) :: r)) = .ok M ∧
      openMessageErr (p' ++ encMsg (l' ++ (tag, v) :: r')) = .ok M' ∧
      M.field tag = .ok v ∧ M'.field tag = .ok v ∧ M.hasField tag = .ok true ∧ M'.hasField tag = .ok true := by
  obtain ⟨M, h1, _, h2, h3⟩ := C01.msg_field_found p l tag v r wf hv
  obtain ⟨M', h1', _, h2', h3'⟩ := C01.msg_field_found p' l' tag v r' wf' hv
  exact ⟨M, M', h1, h1', h3, h3', h2, h2'⟩

/-- a field the data does not have reads as absent: presence false, nil bytes, hence the zero value
with size 0 through every typed accessor (`C01.absent_reads_zero`) -/
theorem absent_field_zero (p : Bytes) (fs : List (Nat × Bytes)) (wf : MsgWF fs) (tag : Nat)
    (habs : tag ∉ fs.map (·.1)) :
    ∃ M, openMessageErr (p ++ encMsg fs) = .ok M ∧ M.hasField tag = .ok false ∧ M.field tag = .ok [] :=
  C01.msg_field_absent p fs wf tag habs

/-- reordering declarations = another write order: same lookups for every tag -/
theorem order_irrelevant (p : Bytes) (fs fs' : List (Nat × Bytes)) (wf : MsgWF fs) (wf' : MsgWF fs')
    (tag : Nat) (v : Bytes) (hv : Delim v) (h : (tag, v) ∈ fs) (h' : (tag, v) ∈ fs') :
    ∃ M M', openMessageErr (p ++ encMsg fs) = .ok M ∧ openMessageErr (p ++ encMsg fs') = .ok M' ∧
      M.field tag = M'.field tag := by
  obtain ⟨l, r, rfl⟩ := List.append_of_mem h
  obtain ⟨l', r', rfl⟩ := List.append_of_mem h'
  obtain ⟨M, M', h1, h2, h3, h4, _, _⟩ := common_field_unchanged p p tag v hv l r l' r' wf wf'
  exact ⟨M, M', h1, h2, by rw [h3, h4]⟩

/-- Copy/Merge through a writer that knows only some of the fields preserves the others -/
theorem copy_preserves (ws : Writer.Flds) (p : Bytes) (fs : List (Nat × Bytes)) (wf : MsgWF fs)
    (hd : ∀ f ∈ fs, Delim f.2) (wfw : MsgWF ws.encs) (hdw : ∀ f ∈ ws.encs, Delim f.2)
    (hsz : (((ws.encs ++ Writer.copiedOf (ws.encs.map (·.1)) fs).map (·.2)).flatten).length +
      6 * (ws.encs ++ Writer.copiedOf (ws.encs.map (·.1)) fs).length < 2 ^ 32)
    (buf q : Bytes) :
    ∃ b, Writer.BuiltLast (Writer.run (Writer.copyProg ws (p ++ encMsg fs)) buf) b ∧
      (∀ tag v, (tag, v) ∈ fs → tag ∉ ws.encs.map (·.1) →
        ∃ M, openMessageErr (q ++ b) = .ok M ∧ M.hasField tag = .ok true ∧ M.field tag = .ok v) ∧
      (∀ tag v, (tag, v) ∈ ws.encs →
        ∃ M, openMessageErr (q ++ b) = .ok M ∧ M.hasField tag = .ok true ∧ M.field tag = .ok v) := by
  have hwf := Writer.copy_result_wf ws.encs fs wfw wf hsz
  refine ⟨_, Writer.run_copyProg ws p fs wf hd buf, ?_, ?_⟩
  · intro tag v hmem habs
    have hc : (tag, v) ∈ Writer.copiedOf (ws.encs.map (·.1)) fs :=
      (Writer.copiedOf_mem _ fs wf (tag, v)).mpr ⟨hmem, habs⟩
    have : (tag, v) ∈ ws.encs ++ Writer.copiedOf (ws.encs.map (·.1)) fs := List.mem_append_right _ hc
    obtain ⟨l, r, hsplit⟩ := List.append_of_mem this
    rw [hsplit] at hwf ⊢
    obtain ⟨M, h1, _, h2, h3⟩ := C01.msg_field_found q l tag v r hwf (hd (tag, v) hmem)
    exact ⟨M, h1, h2, h3⟩
  · intro tag v hmem
    have : (tag, v) ∈ ws.encs ++ Writer.copiedOf (ws.encs.map (·.1)) fs := List.mem_append_left _ hmem
    obtain ⟨l, r, hsplit⟩ := List.append_of_mem this
    rw [hsplit] at hwf ⊢
    obtain ⟨M, h1, _, h2, h3⟩ := C01.msg_field_found q l tag v r hwf (hdw (tag, v) hmem)
    exact ⟨M, h1, h2, h3⟩

/-- the same at any nesting depth: in every live session whose innermost open container is a message
(whatever was written before, however deep), Copy/Merge from a well-formed source is answered `ok`
and leaves the writer exactly as `Field(tag).Any(value)` calls for the source fields with tags the
message does not have yet would; `C01.writer_refines_layout` then gives the bytes of the whole tree -/
theorem copy_any_depth (s : Writer.Sess) (idx idx' h : Nat) (st : Writer.WState) (base : List Writer.Entry)
    (m : Writer.Entry) (p : Bytes) (fs : List (Nat × Bytes)) (wf : MsgWF fs) (hd : ∀ f ∈ fs, Delim f.2)
    (he : s.w.err = none) (hs : s.w.st = some st) (hst : st.stack = base ++ [m]) (hm : m.type_ = .message)
    (hts : m.tableStart ≤ st.fields.length) (hh : s.handles[h]? = some ⟨.M, false⟩) :
    Writer.step s idx (.copy h (p ++ encMsg fs)) =
        ((Writer.runFrom s idx' (Writer.rawFields h (Writer.copiedIn st m fs))).1, .ok) ∧
      Writer.AllOk (Writer.runFrom s idx' (Writer.rawFields h (Writer.copiedIn st m fs))).2 :=
  Writer.copy_eq_rawFields s idx idx' h st base m p fs wf hd he hs hst hm hts hh

/-- non-vacuity: the writer knows tag 1 only, the source has tags 1 and 300 — tag 300 is copied,
tag 1 is not -/
example : Writer.copiedOf [1] [(300, encByte 7), (1, encBool true)] = [(300, encByte 7)] := by decide

example : MsgWF [(1, encBool true), (300, encByte 7)] :=
  ⟨by decide, by intro f hf; simp at hf; rcases hf with h | h <;> subst h <;> decide, by decide⟩

end SpecVerif.C16
