/-
C16 — Messages stay readable across schema evolution.

A reader of another schema version reads by tag. The theorems are corollaries of C01's field
theorems, which hold for ARBITRARY surrounding fields `l`, `r` (any other tags, any order):
fields common to both versions read back unchanged, unknown fields disturb nothing, absent fields
read as zero with presence false.
PARTIAL: `copy_preserves` (Copy/Merge through a writer that wrote a subset of the fields keeps the
other fields' values) is checked by the differential stream `merge-preserves-unknown` and the Go
round-trip oracle, not yet by a theorem.
-/
import SpecVerif.Props.C01
namespace SpecVerif.C16
open SpecVerif Pinned

/-- A field written with tag `tag` reads back as exactly the written value in EVERY message that
contains it, whatever other fields (known or unknown to the reader) surround it, in whatever order
they were written: adding, removing, renaming (same tag) or reordering other fields changes nothing. -/
theorem common_field_unchanged (p p' : Bytes) (tag : Nat) (v : Bytes) (hv : Delim v)
    (l r l' r' : List (Nat × Bytes))
    (wf : MsgWF (l ++ (tag, v) :: r)) (wf' : MsgWF (l' ++ (tag, v) :: r')) :
    ∃ M M', openMessageErr (p ++ encMsg (l ++ (tag, v) :: r)) = .ok M ∧
      openMessageErr (p' ++ encMsg (l' ++ (tag, v) :: r')) = .ok M' ∧
      M.field tag = .ok v ∧ M'.field tag = .ok v ∧ M.hasField tag = .ok true ∧ M'.hasField tag = .ok true := by
  obtain ⟨M, h1, _, h2, h3⟩ := C01.msg_field_found p l tag v r wf hv
  obtain ⟨M', h1', _, h2', h3'⟩ := C01.msg_field_found p' l' tag v r' wf' hv
  exact ⟨M, M', h1, h1', h3, h3', h2, h2'⟩

/-- a field the data does not have reads as absent: presence false, nil bytes, hence the zero value
with size 0 through every typed accessor (`C01.absent_reads_zero`) -/
theorem absent_field_zero (p : Bytes) (fs : List (Nat × Bytes)) (wf : MsgWF fs) (tag : Nat)
    (habs : tag ∉ fs.map (·.1)) :
    ∃ M, openMessageErr (p ++ encMsg fs) = .ok M ∧ M.hasField tag = .ok false ∧ M.field tag = .ok [] :=
  C01.msg_field_absent p fs wf tag habs

/-- reordering declarations = another write order: same lookups for every tag -/
theorem order_irrelevant (p : Bytes) (fs fs' : List (Nat × Bytes)) (wf : MsgWF fs) (wf' : MsgWF fs')
    (tag : Nat) (v : Bytes) (hv : Delim v) (h : (tag, v) ∈ fs) (h' : (tag, v) ∈ fs') :
    ∃ M M', openMessageErr (p ++ encMsg fs) = .ok M ∧ openMessageErr (p ++ encMsg fs') = .ok M' ∧
      M.field tag = M'.field tag := by
  obtain ⟨l, r, rfl⟩ := List.append_of_mem h
  obtain ⟨l', r', rfl⟩ := List.append_of_mem h'
  obtain ⟨M, M', h1, h2, h3, h4, _, _⟩ := common_field_unchanged p p tag v hv l r l' r' wf wf'
  exact ⟨M, M', h1, h2, by rw [h3, h4]⟩

example : MsgWF [(1, encBool true), (300, encByte 7)] :=
  ⟨by decide, by intro f hf; simp at hf; rcases hf with h | h <;> subst h <;> decide, by decide⟩

end SpecVerif.C16
