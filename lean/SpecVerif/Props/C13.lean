/-
C13 — Parse, open and size probe agree; decoding is local to the value.

Proved here (model of the repaired tree):
 * locality of every typed decoder and of the table decoders (`LocalDec`);
 * locality of the recursive parser at the fuel the drivers use, for every input, prefix and
   nesting: accepted behind one prefix ⇒ accepted with the same size behind every prefix;
 * re-parsing the returned value gives the same size; the parser's answers do not depend on fuel.
 * agreement (`parse_probe_agree`, `parse_open_agree`, `parse_openMessage_agree`,
   `parse_openList_agree`): whenever the recursive parser accepts a byte string with size `n`, the
   size probe reports exactly `n`, the non-recursive open returns exactly the last `n` bytes and the
   typed opens (OpenMessage/OpenList, with and without an error result) return the message / list
   over exactly those bytes, for every input and fuel.
The converse direction (the probe accepts more than the parser, which checks recursively) is by
design; the Go-side oracle of the `c13` stream checks the same agreement on the implementation.
-/
import SpecVerif.Lemmas.Probe
import SpecVerif.Lemmas.Agree
import SpecVerif.Wire.IEEE
namespace SpecVerif.C13
open SpecVerif Pinned

/-- the fuel the drivers use: sufficient for every input (C02.parseValue_safe) -/
def fuelFor (b : Bytes) : Nat := 2 * b.length + 2

/-- every typed decoder is local: the result for a value depends only on the value's own bytes -/
theorem decoders_local (F : FloatOps) :
    LocalDec decodeBool ∧ LocalDec decodeByte ∧
    LocalDec decodeInt16 ∧ LocalDec decodeInt32 ∧ LocalDec decodeInt64 ∧
    LocalDec decodeUint16 ∧ LocalDec decodeUint32 ∧ LocalDec decodeUint64 ∧
    LocalDec (decodeFloat32 F) ∧ LocalDec (decodeFloat64 F) ∧
    LocalDec decodeBin64 ∧ LocalDec decodeBin128 ∧ LocalDec decodeBin256 ∧
    LocalDec decodeBytes ∧ LocalDec decodeString ∧ LocalDec decodeStruct ∧
    LocalDec decodeListTable ∧ LocalDec decodeMessageTable :=
  ⟨decodeBool_local, decodeByte_local, decodeInt16_local, decodeInt32_local, decodeInt64_local,
   decodeUint16_local, decodeUint32_local, decodeUint64_local, decodeFloat32_local F,
   decodeFloat64_local F, decodeBin_local _ _, decodeBin_local _ _, decodeBin_local _ _,
   decodeBytes_local, decodeString_local, decodeStruct_local, decodeTable_local _ _ _ _,
   decodeTable_local _ _ _ _⟩

/-- Decoding is local (parser): if the recursive parser accepts `q ++ s` with size `|s|`, it accepts
`p ++ s` with size `|s|` for EVERY prefix `p` — adversarial varint-looking prefixes included. -/
theorem parse_local (F : FloatOps) (q p s : Bytes) (hs : s ≠ [])
    (h : parseValue F (fuelFor (q ++ s)) (q ++ s) = .ok s.length) :
    parseValue F (fuelFor (p ++ s)) (p ++ s) = .ok s.length := by
  -- move both sides to a common fuel
  let g := max (fuelFor (q ++ s)) (fuelFor (p ++ s))
  have h1 : parseValue F g (q ++ s) = .ok s.length :=
    parseValue_fuel_mono F _ g (Nat.le_max_left _ _) _ _ h (by simp)
  have h2 : parseValue F g (p ++ s) = .ok s.length := parseValue_local F g q p s hs h1
  -- and back: at its own fuel the parser does not panic (C02), so its answer is the stable one
  have hsafe := SpecVerif.parseValue_safe F (fuelFor (p ++ s)) (p ++ s) (by unfold fuelFor; omega)
  cases hr : parseValue F (fuelFor (p ++ s)) (p ++ s) with
  | panic => rw [hr] at hsafe; simp at hsafe
  | ok n =>
    have := parseValue_fuel_mono F _ g (Nat.le_max_right _ _) _ _ hr (by simp)
    rw [h2] at this; exact this.symm
  | err e n =>
    have := parseValue_fuel_mono F _ g (Nat.le_max_right _ _) _ _ hr (by simp)
    rw [h2] at this; simp at this

/-- … in the form of the property statement: the accepted value is the last `n` bytes, and any
buffer ending in those bytes parses to the same size. -/
theorem parse_depends_only_on_value (F : FloatOps) (b : Bytes) (n : Nat)
    (h : parseValue F (fuelFor b) b = .ok n) (hn : 0 < n) :
    ∀ p, parseValue F (fuelFor (p ++ lastN n b)) (p ++ lastN n b) = .ok n := by
  have hsafe := SpecVerif.parseValue_safe F (fuelFor b) b (by unfold fuelFor; omega)
  rw [h] at hsafe; simp at hsafe
  have hb : b = dropLastN n b ++ lastN n b := (dropLastN_lastN n b).symm
  have hl : (lastN n b).length = n := by simp; omega
  have hne : lastN n b ≠ [] := by intro h0; rw [h0] at hl; simp at hl; omega
  intro p
  have := parse_local F (dropLastN n b) p (lastN n b) hne (by rw [← hb, hl]; exact h)
  rw [hl] at this; exact this

/-- re-parsing the returned value gives the same result -/
theorem reparse (F : FloatOps) (b : Bytes) (n : Nat)
    (h : parseValue F (fuelFor b) b = .ok n) (hn : 0 < n) :
    parseValue F (fuelFor (lastN n b)) (lastN n b) = .ok n := by
  simpa using parse_depends_only_on_value F b n h hn []

/-- The answers of the parser do not depend on the fuel (termination is not an artefact of the
bound): any two sufficient fuels give the same answer. -/
theorem fuel_irrelevant (F : FloatOps) (b : Bytes) (f : Nat) (hf : fuelFor b ≤ f) :
    parseValue F f b = parseValue F (fuelFor b) b := by
  have hsafe := SpecVerif.parseValue_safe F (fuelFor b) b (by unfold fuelFor; omega)
  have hne : parseValue F (fuelFor b) b ≠ .panic := by
    intro h0; rw [h0] at hsafe; simp at hsafe
  exact parseValue_fuel_mono F _ f hf b _ rfl hne

/-! non-vacuity: the input that the unrepaired code accepted position-dependently is now rejected,
and a concrete accepted value satisfies the hypotheses -/
example : decodeInt32 [0xfd, 11] = .err .data 0 := by decide
example : decodeInt32 ([1, 2, 0xfd] ++ [7, 11]) = .ok (-4, 2) := by decide

/-- parser and probe agree: for every input and every fuel, an accepted value has exactly the
size the type-and-size probe reports -/
theorem parse_probe_agree (F : FloatOps) (fuel : Nat) (b : Bytes) (n : Nat)
    (h : parseValue F fuel b = .ok n) : ∃ t, decodeTypeSize b = .ok (t, n) :=
  (SpecVerif.parse_probe_agree F fuel b n h).2

/-- parser and open agree: OpenValue returns exactly the bytes the parser delimited -/
theorem parse_open_agree (F : FloatOps) (fuel : Nat) (b : Bytes) (n : Nat)
    (h : parseValue F fuel b = .ok n) (hn : n ≤ b.length) : openValue b = .ok (lastN n b) := by
  obtain ⟨t, ht⟩ := parse_probe_agree F fuel b n h
  unfold openValue
  rw [ht]
  have : ¬ b.length < n := by omega
  simp only [this, ↓reduceIte, suffix]

/-- parser and typed open agree (messages): when the recursive message parser accepts `b` with size
`n`, `OpenMessageErr` and `OpenMessage` return the message whose bytes are exactly the last `n`
bytes, with the table the parser decoded — never an empty or shorter view -/
theorem parse_openMessage_agree (F : FloatOps) (fuel : Nat) (b : Bytes) (n : Nat)
    (h : parseMessage F fuel b = .ok n) :
    ∃ t, decodeMessageTable b = .ok (t, n) ∧ n ≤ b.length ∧
      openMessageErr b = .ok ⟨t, lastN n b⟩ ∧ openMessage b = .ok ⟨t, lastN n b⟩ := by
  obtain ⟨t, ht⟩ := parseMessage_size F fuel b n h
  have hn : n ≤ b.length := by
    cases fuel with
    | zero => simp [parseMessage] at h
    | succ fuel =>
      simp only [parseMessage, ht] at h
      by_cases hlt : n > b.length
      · simp [suffix, hlt] at h
      · omega
  have hs : suffix b n = .ok (lastN n b) := by
    have : ¬ n > b.length := by omega
    simp only [suffix, this, ↓reduceIte]
  have he : openMessageErr b = .ok ⟨t, lastN n b⟩ := by
    simp only [openMessageErr, ht, hs]; rfl
  exact ⟨t, ht, hn, he, by simp only [openMessage, he]⟩

/-- parser and typed open agree (lists) -/
theorem parse_openList_agree (F : FloatOps) (fuel : Nat) (b : Bytes) (n : Nat)
    (h : parseList F fuel b = .ok n) :
    ∃ t, decodeListTable b = .ok (t, n) ∧ n ≤ b.length ∧
      openListErr b = .ok ⟨t, lastN n b⟩ ∧ openList b = .ok ⟨t, lastN n b⟩ := by
  obtain ⟨t, ht⟩ := parseList_size F fuel b n h
  have hn : n ≤ b.length := by
    cases fuel with
    | zero => simp [parseList] at h
    | succ fuel =>
      simp only [parseList, ht] at h
      by_cases hlt : n > b.length
      · simp [suffix, hlt] at h
      · omega
  have hs : suffix b n = .ok (lastN n b) := by
    have : ¬ n > b.length := by omega
    simp only [suffix, this, ↓reduceIte]
  have he : openListErr b = .ok ⟨t, lastN n b⟩ := by
    simp only [openListErr, ht, hs]; rfl
  exact ⟨t, ht, hn, he, by simp only [openList, he]⟩

/-- non-vacuity: the empty message `00 00 50` is accepted with size 3 and opens with all 3 bytes -/
example : parseMessage IEEE.ieee 4 [0, 0, 0x50] = .ok 3 := by
  have h1 : decodeMessageTable [0, 0, 0x50] = .ok (⟨[], 0, false⟩, 3) := by decide
  have h2 : suffix [0, 0, 0x50] 3 = .ok [0, 0, 0x50] := by decide
  simp only [parseMessage, h1, h2]
  have h3 : MsgV.fields ⟨⟨[], 0, false⟩, [0, 0, 0x50]⟩ = 0 := by decide
  rw [h3]; simp only [parseMsgFields]

example : (openMessage [0, 0, 0x50]).bind (fun m => .ok m.bytes) = .ok [0, 0, 0x50] := by decide

end SpecVerif.C13
