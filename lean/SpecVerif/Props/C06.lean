/-
C06 — Ending one channel never disturbs the connection or other channels.

The library can only disturb the connection by panicking in one of its loops (a panic inside the
receive or send loop ends the connection and with it every other channel) or by returning an error
from the dispatch of a frame.  The theorems are about the reference-counting protocol of a channel
(`Mpx/Chan.lean`, the repaired code) under ALL interleavings of: the user's calls and its single
Free (or handler exit), any number of connection-side frees (send loop after a close frame,
receiveClose, closeChannels) and any number of receive-loop dispatches with a stale map pointer:
 * no reachable state is a panic state (`no_panic`), for schedules of any length;
 * the counter always equals the number of holders and the pooled state is released exactly once,
   by the last holder, never while somebody holds it (`inv_reachable`);
 * a frame that arrives after the channel was freed is dropped (`late_frame_dropped`).
`unrepaired_counterexample` replays the 7-step schedule that crashed the pinned code.
-/
import SpecVerif.Mpx.Chan
namespace SpecVerif.C06
open SpecVerif.Mpx.Chan

theorem conn_bounds (c : CPC) : 0 ≤ connBase c + connExtra c ∧ connBase c + connExtra c ≤ 1 := by
  cases c <;> simp [connBase, connExtra]

theorem user_bounds (u : UPC) : 0 ≤ userBase u + userExtra u ∧ userBase u + userExtra u ≤ 2 := by
  cases u <;> simp [userBase, userExtra]

theorem inv_init : Mpx.Chan.Inv init := by
  refine ⟨by decide, by decide, by decide, by decide, by decide⟩

/-- closes one field of the invariant for an explicitly updated state -/
macro "fin" : tactic => `(tactic| (
  first
  | omega
  | (split <;> omega)
  | assumption
  | (simp [*]; done)
  | (simp [*]; omega)))

/-- every enabled atomic step preserves the invariant (in particular: never panics) -/
theorem inv_step (s : State) (a : Action) (s' : State) (h : Mpx.Chan.Inv s) (hs : step s a = some s') : Mpx.Chan.Inv s' := by
  obtain ⟨hc, hle, hz, hst, hp⟩ := h
  have cb := conn_bounds s.conn
  have ub := user_bounds s.user
  have hpres : s.refs > 0 → s.hasState = true := fun h => hst.mpr (Or.inl h)
  have hst' : (s.hasState = true) = (s.refs > 0 ∨ s.swapPending = 1) := propext hst
  have hsw : s.refs > 0 → s.swapPending = 0 := by
    intro h; by_cases c : s.swapPending = 1
    · have := hz c; omega
    · omega
  cases a <;> simp only [step] at hs
  case userCall =>
    split at hs
    · rename_i hu; cases hs
      simp only [hu, userBase, userExtra] at hc
      exact ⟨by simp only [userBase, userExtra]; omega, hle, hz, hst, hp⟩
    · cases hs
  case userFree =>
    split at hs
    · rename_i hu; cases hs
      simp only [hu, userBase, userExtra] at hc
      exact ⟨by simp only [userBase, userExtra]; omega, hle, hz, hst, hp⟩
    · cases hs
  case userStep =>
    cases hu : s.user <;> simp only [hu] at hs hc <;> simp only [userBase, userExtra] at hc
    case idle => cases hs
    case done => cases hs
    all_goals (
      cases hs
      have hpos : s.refs > 0 := by omega
      have hh := hpres hpos
      have hs0 := hsw hpos
      refine ⟨?_, ?_, ?_, ?_, ?_⟩ <;>
        (try simp only [release, acquireAdd, loadState, userBase, userExtra]) <;> (try dsimp only) <;>
        (try rw [hst']) <;> fin)
  case connFree =>
    cases hcn : s.conn <;> simp only [hcn] at hs hc <;> cases hs
    · simp only [connBase, connExtra] at hc
      exact ⟨by simp only [connBase, connExtra]; omega, hle, hz, hst, hp⟩
    all_goals exact ⟨by simp only [hcn]; exact hc, hle, hz, hst, hp⟩
  case connStep =>
    cases hcn : s.conn <;> simp only [hcn] at hs hc <;> simp only [connBase, connExtra] at hc
    case none => cases hs
    case released => cases hs
    all_goals (
      cases hs
      have hpos : s.refs > 0 := by omega
      have hh := hpres hpos
      have hs0 := hsw hpos
      refine ⟨?_, ?_, ?_, ?_, ?_⟩ <;>
        (try simp only [release, loadState, connBase, connExtra]) <;> (try dsimp only) <;>
        (try rw [hst']) <;> fin)
  case recvAcquire =>
    split at hs
    · rename_i hpos; cases hs
      have hs0 := hsw hpos
      refine ⟨?_, ?_, ?_, ?_, ?_⟩ <;> (try dsimp only) <;> (try rw [hst']) <;> fin
    · cases hs
      exact ⟨hc, hle, hz, hst, hp⟩
  case recvLoad =>
    split at hs
    · rename_i hpre; cases hs
      have hpos : s.refs > 0 := by omega
      have hh := hpres hpos
      refine ⟨?_, ?_, ?_, ?_, ?_⟩ <;> (try simp only [loadState]) <;> (try dsimp only) <;> (try rw [hst']) <;> fin
    · cases hs
  case recvRelease =>
    split at hs
    · rename_i hh0; cases hs
      have hpos : s.refs > 0 := by omega
      have hs0 := hsw hpos
      refine ⟨?_, ?_, ?_, ?_, ?_⟩ <;> (try simp only [release]) <;> (try dsimp only) <;> (try rw [hst']) <;> fin
    · cases hs
  case swap =>
    split at hs
    · rename_i hsw1; cases hs
      have h1 : s.swapPending = 1 := by omega
      have hr := hz h1
      have hh : s.hasState = true := hst.mpr (Or.inr h1)
      refine ⟨?_, ?_, ?_, ?_, ?_⟩ <;> (try dsimp only) <;> fin
    · cases hs

/-- the invariant holds after every schedule, of any length, from the initial state -/
theorem inv_reachable (as : List Action) : Mpx.Chan.Inv (run init as) := by
  suffices h : ∀ s, Mpx.Chan.Inv s → Mpx.Chan.Inv (run s as) from h init inv_init
  induction as with
  | nil => intro s h; exact h
  | cons a as ih =>
    intro s h
    simp only [run]
    cases hs : step s a with
    | none => exact ih s h
    | some s' => exact ih s' (inv_step s a s' h hs)

/-- The library never panics, whatever the interleaving of Free / handler exit / close frames /
closeChannels with frames still arriving for the channel. -/
theorem no_panic (as : List Action) : (run init as).panic = false := (inv_reachable as).no_panic

/-- the pooled state is never released while somebody still holds a reference -/
theorem state_while_held (as : List Action) (h : (run init as).refs > 0) :
    (run init as).hasState = true := (inv_reachable as).state_iff.mpr (Or.inl h)

/-- a frame that arrives after the channel has been freed by both sides is dropped silently -/
theorem late_frame_dropped (s : State) (h : Mpx.Chan.Inv s) (hr : s.refs = 0) :
    step s .recvAcquire = some { s with dropped := s.dropped + 1 } := by
  simp only [step]
  have : ¬ s.refs > 0 := by omega
  simp [this]

/-! ### the unrepaired protocol: `receive` used `acquire` (Add, then test for 1) on a pointer taken
from the map before the send loop deleted and freed the channel.  Replaying that schedule on the
model with the old receive step reaches the panic. -/

/-- the old receive dispatch: acquire() instead of tryAcquire() -/
def oldRecvAcquire (s : State) : State := acquireAdd s

/-- user frees (4 steps), the send loop frees the connection reference (3 steps), the state is
swapped out, then the receive loop acquires through its stale pointer -/
def crashSchedule : List Action :=
  [.userFree, .userStep, .userStep, .userStep, .userStep, .connFree, .connStep, .connStep, .swap]

theorem unrepaired_counterexample :
    (oldRecvAcquire (run init crashSchedule)).panic = true ∧ (run init crashSchedule).hasState = false := by
  decide

/-- the same schedule followed by the repaired dispatch drops the frame -/
example : (run init (crashSchedule ++ [.recvAcquire])).panic = false ∧
    (run init (crashSchedule ++ [.recvAcquire])).dropped = 1 := by decide

end SpecVerif.C06
