/-
C12 — Writer rejects misuse with sticky errors, never panics or emits garbage.

Theorems about the writer state machine (`Writer/Model.lean`, `Writer/Api.lean`), for every state:
 * the first error is sticky: every write/end operation on a failed writer returns that same error
   and leaves the writer unchanged (`sticky_*`), `fail` keeps the first error;
 * `Free` is safe in every state, also after an error and after `Free` (`free_safe`);
 * `Reset` returns the writer to the clean state (`reset_clean`);
 * a handle whose message ended reports the closed error for every operation (`closed_handle`).
 * `sticky_program` / `err_persists`: for EVERY program without Reset, once the writer has failed the
   error is still in place after any further calls (live and dead handles, Copy, Free, failing write
   functions, begins, queries): with `sticky_*` every later write and the final Build report it.
 * `no_panic`: for EVERY program over the call alphabet (values, fields, elements, nested begins, ends
   and builds through live and dead handles, Len/HasField, Err, Reset, Free, ill-typed calls; every
   order, every length) no call reaches a panic outcome of the model (nil state, slice bounds, table
   index): the stack/table well-formedness invariant of Lemmas/WriterInv.lean is kept by every
   operation. The alphabet includes `Copy`/`Merge` from ARBITRARY source bytes: the opened source's
   index accessors are total by C02.message_accessors_safe (Lemmas/WriterCopySafe.lean).
PARTIAL: `build_ok_parses` (a successful Build parses) is a theorem for the programs of value trees
(`C01.written_tree_reads_back`) and of Copy/Merge (`C16.copy_preserves`); for arbitrary misuse
programs it is decided by the differential stream and the Go-side oracle (GARBAGE flag).
-/
import SpecVerif.Writer.Api
import SpecVerif.Lemmas.WriterInv
import SpecVerif.Lemmas.WriterCopySafe
namespace SpecVerif.C12
open SpecVerif SpecVerif.Writer

/-- on a failed writer every value write returns the stored error and changes nothing -/
theorem sticky_write (w : W) (e : WErr) (h : w.err = some e) (idx : Nat) (enc : Bytes) :
    writeValue w idx enc = (w, .err e) := by
  unfold writeValue; rw [h]

theorem sticky_element (w : W) (e : WErr) (h : w.err = some e) (idx : Nat) :
    element w idx = (w, .err e) := by
  unfold element; rw [h]

theorem sticky_field (w : W) (e : WErr) (h : w.err = some e) (idx tag : Nat) :
    field w idx tag = (w, .err e) := by
  unfold field; rw [h]

theorem sticky_end (w : W) (e : WErr) (h : w.err = some e) (idx : Nat) :
    end_ w idx = (w, .err e) := by
  unfold end_; rw [h]

theorem sticky_fieldAny (w : W) (e : WErr) (h : w.err = some e) (idx tag : Nat) (b : Bytes) :
    fieldAny w idx tag b = (w, .err e) := by
  unfold fieldAny; rw [h]

/-- container begins are no-ops on a failed writer (the handles they return stay usable and report
the stored error) -/
theorem sticky_begin (w : W) (e : WErr) (h : w.err = some e) (idx tag : Nat) :
    beginList w = w ∧ beginMessage w = w ∧ beginElement w idx = w ∧ beginField w idx tag = w := by
  unfold beginList beginMessage beginElement beginField
  rw [h]; simp

/-- queries on a failed writer: HasField is false, Len is 0 — never a panic -/
theorem sticky_queries (w : W) (e : WErr) (h : w.err = some e) (tag : Nat) :
    hasField w tag = .bool false ∧ listLen w = .nat 0 := by
  unfold hasField listLen; rw [h]; simp

/-- `fail` keeps the first error -/
theorem fail_keeps_first (w : W) (e e' : WErr) (h : w.err = some e) : fail w e' = (w, e) := by
  unfold fail; rw [h]

/-- a new failure is recorded and releases the state -/
theorem fail_records (w : W) (e : WErr) (h : w.err = none) :
    (fail w e).1.err = some e ∧ (fail w e).1.st = none ∧ (fail w e).2 = e := by
  unfold fail; rw [h]; simp

/-- an error returned by a caller-supplied write function (WriteField / WriteElement /
ValueListWriter.Add) becomes the writer's sticky error: the call reports it, and so do every later
write and the final End/Build -/
theorem write_func_error_sticky (w : W) (s : WState) (idx idx' tag : Nat) (enc : Bytes)
    (he : w.err = none) (hs : w.st = some s) :
    (writeFail w idx).2 = .err (.at idx) ∧
    (writeValue (writeFail w idx).1 idx' enc).2 = .err (.at idx) ∧
    (field (writeFail w idx).1 idx' tag).2 = .err (.at idx) ∧
    (element (writeFail w idx).1 idx').2 = .err (.at idx) ∧
    (end_ (writeFail w idx).1 idx').2 = .err (.at idx) := by
  have h1 : writeFail w idx = ({ w with st := none, err := some (.at idx) }, .err (.at idx)) := by
    unfold writeFail failOut fail; simp [he, hs]
  rw [h1]
  refine ⟨rfl, ?_, ?_, ?_, ?_⟩
  · rw [sticky_write _ (.at idx) rfl]
  · rw [sticky_field _ (.at idx) rfl]
  · rw [sticky_element _ (.at idx) rfl]
  · rw [sticky_end _ (.at idx) rfl]

/-- Free is safe in every state: it returns normally, leaves no state behind, and a second Free is
again safe -/
theorem free_safe (w : W) :
    (free w).2 = .ok ∧ (free w).1.st = none ∧ (free (free w).1).2 = .ok ∧ (free w).1.err ≠ none := by
  unfold free close
  cases he : w.err <;> cases hs : w.st <;> cases hr : w.release <;> simp [he, hs, hr]

/-- after Free every operation reports an error (never a panic, never success) -/
theorem after_free_sticky (w : W) (idx : Nat) (enc : Bytes) :
    ∃ e, writeValue (free w).1 idx enc = ((free w).1, .err e) ∧ end_ (free w).1 idx = ((free w).1, .err e) := by
  have h := (free_safe w).2.2.2
  cases he : (free w).1.err with
  | none => exact absurd he h
  | some e => exact ⟨e, sticky_write _ e he idx enc, sticky_end _ e he idx⟩

/-- Reset returns the writer to the clean state, whatever happened before -/
theorem reset_clean (w : W) : (reset w).1 = fresh [] w.release ∧ (reset w).2 = .ok := by
  unfold reset fresh; simp

/-- an ended message handle points at the closed writer: every operation reports `closed` -/
theorem closed_handle (idx tag : Nat) (enc : Bytes) :
    (writeValue closedW idx enc).2 = .err .closed ∧ (end_ closedW idx).2 = .err .closed ∧
    (field closedW idx tag).2 = .err .closed ∧ hasField closedW tag = .bool false ∧
    listLen closedW = .nat 0 := by
  refine ⟨by rw [sticky_write closedW .closed rfl], by rw [sticky_end closedW .closed rfl],
    by rw [sticky_field closedW .closed rfl], (sticky_queries closedW .closed rfl tag).1,
    (sticky_queries closedW .closed rfl tag).2⟩

/-- End/Build twice on the same message variable: the second call reports `closed`, no panic -/
theorem double_end (s : Sess) (h idx1 idx2 : Nat) (hd : Handle) (hh : s.handles[h]? = some hd) (hk : hd.kind = .M) :
    ∃ s2, (step (step s idx1 (.end_ h)).1 idx2 (.end_ h)) = (s2, .err .closed) := by
  unfold step
  simp only [hh, hk, ↓reduceIte]
  generalize hs1 : (onHandle s hd.dead fun w => end_ w idx1) = r
  obtain ⟨s1, o⟩ := r
  simp only
  have hlen : h < s1.handles.length := by
    have : s1.handles = s.handles := by
      unfold onHandle at hs1
      split at hs1
      · simp at hs1; rw [← hs1.1]
      · simp at hs1; rw [← hs1.1]
    rw [this]
    exact (List.getElem?_eq_some_iff.mp hh).1
  unfold killHandle
  simp only [List.getElem?_set_self hlen, onHandle, ↓reduceIte]
  rw [sticky_end closedW .closed rfl]
  exact ⟨_, rfl⟩

/-! non-vacuity: a concrete misuse sequence (write after a nesting violation, then Free twice) -/
example : (run [.msg, .e 0 (encBool true), .f 0 1 (encBool true), .free, .free]).2 =
    [.ok, .badop, .ok, .ok, .ok] := by decide

/-- no call of any program panics (the whole call alphabet, Copy/Merge from arbitrary bytes included;
any initial buffer) -/
theorem no_panic (cs : List Call) (buf : Bytes) : ∀ o ∈ (run cs buf).2, o ≠ .panic :=
  runFrom_no_panic_all (Sess.init buf) 0 cs (WInv_fresh buf false)

/-- the same from any state a program can reach: after any prefix, any continuation is panic-free -/
theorem no_panic_from (s : Sess) (idx : Nat) (cs : List Call) (hs : WInv s.w) :
    ∀ o ∈ (runFrom s idx cs).2, o ≠ .panic :=
  runFrom_no_panic_all s idx cs hs

/-- non-vacuity: Copy from garbage bytes (treated as an empty message) and, through an ended handle,
from a real message (reports `closed`) -/
example : (run [.msg, .copy 0 [255, 3, 1], .end_ 0, .copy 0 (encMsg [(1, encBool true)])]).2 =
    [.ok, .ok, .ok, .err .closed] := by
  decide

/-! ### the first error stays, for whole programs -/

/-- a call other than Reset -/
def _root_.SpecVerif.Writer.Call.notReset : Call → Bool
  | .reset => false
  | _ => true

theorem onHandle_err (s : Sess) (dead : Bool) (op : W → W × Out) (e : WErr) (h : s.w.err = some e)
    (hop : ∀ w, w.err = some e → (op w).1.err = some e) : (onHandle s dead op).1.w.err = some e := by
  unfold onHandle
  cases dead
  · simp only [Bool.false_eq_true, ↓reduceIte]; exact hop s.w h
  · simp only [↓reduceIte]; exact h

/-- once the writer has failed with `e`, every call except Reset leaves that error in place -/
theorem err_persists (s : Sess) (idx : Nat) (c : Call) (e : WErr) (h : s.w.err = some e)
    (hc : c.notReset = true) : (step s idx c).1.w.err = some e := by
  have hwv : ∀ w idx enc, w.err = some e → (writeValue w idx enc).1.err = some e := by
    intro w idx enc hw; rw [sticky_write w e hw]; exact hw
  have hend : ∀ w idx, w.err = some e → (end_ w idx).1.err = some e := by
    intro w idx hw; rw [sticky_end w e hw]; exact hw
  cases c with
  | msg => simp only [step, addHandle, (sticky_begin s.w e h idx 0).2.1]; exact h
  | list => simp only [step, addHandle, (sticky_begin s.w e h idx 0).1]; exact h
  | v enc => simp only [step]; exact hwv _ _ _ h
  | vbuild =>
    simp only [step]
    rw [sticky_end s.w e h]
    simp [recordBuilt, h]
  | f hh tag enc =>
    simp only [step]
    split
    · exact h
    · apply onHandle_err s _ _ e h
      intro w hw; rw [sticky_write w e hw]; exact hw
  | fmsg hh tag =>
    simp only [step]
    split
    · exact h
    · split
      · exact h
      · simp only [addHandle, (sticky_begin s.w e h idx tag).2.2.2, (sticky_begin s.w e h idx tag).2.1]; exact h
  | flist hh tag =>
    simp only [step]
    split
    · exact h
    · split
      · exact h
      · simp only [addHandle, (sticky_begin s.w e h idx tag).2.2.2, (sticky_begin s.w e h idx tag).1]; exact h
  | has hh tag => simp only [step]; split <;> exact h
  | copy hh src =>
    simp only [step]
    split
    · exact h
    · apply onHandle_err s _ _ e h
      intro w hw
      -- every operation of the copy loop returns the stored error without touching the writer
      unfold copyMsg
      split
      · rename_i src _
        have : ∀ k i, (copyLoop src idx k i w).1.err = some e := by
          intro k
          induction k with
          | zero => intro i; unfold copyLoop; exact hw
          | succ k ih =>
            intro i
            unfold copyLoop
            split
            · exact hw
            · exact hw
            · exact ih (i + 1)
            · rw [(sticky_queries w e hw _).1]
              simp only
              split
              · rw [sticky_fieldAny w e hw]; exact hw
              · exact hw
        exact this _ _
      · exact hw
  | e hh enc =>
    simp only [step]
    split
    · exact h
    · apply onHandle_err s _ _ e h
      intro w hw; rw [sticky_write w e hw]; exact hw
  | emsg hh =>
    simp only [step]
    split
    · exact h
    · split
      · exact h
      · simp only [addHandle, (sticky_begin s.w e h idx 0).2.2.1, (sticky_begin s.w e h idx 0).2.1]; exact h
  | elist hh =>
    simp only [step]
    split
    · exact h
    · split
      · exact h
      · simp only [addHandle, (sticky_begin s.w e h idx 0).2.2.1, (sticky_begin s.w e h idx 0).1]; exact h
  | len hh => simp only [step]; split <;> exact h
  | end_ hh =>
    simp only [step]
    split
    · exact h
    · rename_i hd _
      have := onHandle_err s hd.dead (fun w => end_ w idx) e h (fun w hw => hend w idx hw)
      split <;> simpa [killHandle] using this
  | build hh =>
    simp only [step]
    split
    · exact h
    · rename_i hd _
      have := onHandle_err s hd.dead (fun w => end_ w idx) e h (fun w hw => hend w idx hw)
      rw [recordBuilt_w]
      split <;> simpa [killHandle] using this
  | fwfail hh =>
    simp only [step]
    split
    · exact h
    · apply onHandle_err s _ _ e h
      intro w hw; unfold writeFail; simp only [hw]
  | ewfail hh =>
    simp only [step]
    split
    · exact h
    · apply onHandle_err s _ _ e h
      intro w hw; unfold writeFail; simp only [hw]
  | err => simp only [step]; exact h
  | reset => simp [Call.notReset] at hc
  | free =>
    simp only [step, free, close, h]
    split <;> simp [h]
  | bad => exact h

/-- whole programs: after the first failure no sequence of calls without Reset clears the error,
so the final Build (and every write in between) reports it (`sticky_*`) -/
theorem sticky_program (s : Sess) (idx : Nat) (cs : List Call) (e : WErr) (h : s.w.err = some e)
    (hc : ∀ c ∈ cs, c.notReset = true) : (runFrom s idx cs).1.w.err = some e := by
  induction cs generalizing s idx with
  | nil => simpa [runFrom] using h
  | cons c cs ih =>
    simp only [runFrom]
    exact ih _ _ (err_persists s idx c e h (hc c (by simp))) (fun x hx => hc x (by simp [hx]))

end SpecVerif.C12
