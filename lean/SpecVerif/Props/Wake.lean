/-
No lost wake-up between a byte queue and its reader loop (supports C03 "the receiver drains every
pending message", C07 "never deadlocks", C09 liveness of the send loop).

For EVERY interleaving of writes (to the last block or to a new overflow block) with the reader
loop of the repaired code (`wait := ReadWait()` BEFORE reading until empty, then blocking on
`wait`): whenever the reader is blocked while a message is queued, its wake-up is enabled
(`parked_nonempty_wakes`), so a reader never sleeps on a non-empty queue (`reader_never_stuck`).
The order used before the repair (read until empty, THEN `ReadWait()`) does lose the wake-up:
`unrepaired_lost_wakeup` is the five-step schedule (it is the replay of finding F19).
-/
import SpecVerif.Mpx.Wake
import SpecVerif.PinnedMpx
namespace SpecVerif.WakeProps
open SpecVerif.Mpx.Wake

structure Inv (s : State) : Prop where
  parked : s.pc = .park → queueEmpty s = true ∨ s.written = true
  posted : (s.pc = .drain ∨ s.pc = .park) → s.waitClosed = false → s.written = true → s.token = true
  closedSeen : (s.pc = .drain ∨ s.pc = .park) → s.closed = true → s.waitClosed = true ∨ s.written = true

theorem inv_init : Inv init := ⟨by simp [init], by simp [init], by simp [init]⟩

theorem inv_step (s s' : State) (a : Action) (hi : Inv s) (h : step s a = some s') : Inv s' := by
  obtain ⟨hp, hq, hc⟩ := hi
  cases a <;> simp only [step] at h
  · -- writeLast
    cases h
    split <;> exact ⟨fun _ => Or.inr rfl, fun _ _ _ => rfl, fun _ _ => Or.inr rfl⟩
  · cases h; exact ⟨fun _ => Or.inr rfl, fun _ _ _ => rfl, fun _ _ => Or.inr rfl⟩
  · cases h; exact ⟨fun _ => Or.inr rfl, fun _ _ _ => rfl, fun _ _ => Or.inr rfl⟩
  · -- readWait
    split at h
    · split at h
      · cases h; exact ⟨fun c => by simp at c, fun _ _ c => by simp at c, fun _ _ => Or.inl rfl⟩
      · rename_i hn
        cases h
        refine ⟨fun c => by simp at c, fun _ _ c => by simp at c, fun _ c => ?_⟩
        simp only at c
        simp [c] at hn
    · cases h
  · -- read
    split at h
    · rename_i hd
      split at h
      · cases h
        exact ⟨fun c => by simp [hd] at c, fun _ w t => hq (Or.inl hd) w t, fun _ c => hc (Or.inl hd) c⟩
      · split at h
        · cases h
          exact ⟨fun c => by simp [hd] at c, fun _ w t => hq (Or.inl hd) w t, fun _ c => hc (Or.inl hd) c⟩
        · cases h
          rename_i hh hm
          refine ⟨fun _ => Or.inl ?_, fun _ w t => hq (Or.inl hd) w t, fun _ c => hc (Or.inl hd) c⟩
          have : s.head = 0 := by omega
          simp [queueEmpty, this, hm]
    · cases h
  · -- restart
    split at h
    · cases h; exact ⟨fun c => by simp at c, fun c => by simp at c, fun c => by simp at c⟩
    · cases h
  · -- wake
    split at h
    · split at h
      · cases h; exact ⟨fun c => by simp at c, fun c => by simp at c, fun c => by simp at c⟩
      · split at h
        · cases h; exact ⟨fun c => by simp at c, fun c => by simp at c, fun c => by simp at c⟩
        · cases h
    · cases h

theorem inv_run (s : State) (hi : Inv s) (as : List Action) : Inv (run s as) := by
  induction as generalizing s with
  | nil => exact hi
  | cons a as ih =>
    simp only [run]
    cases h : step s a with
    | none => exact ih s hi
    | some s' => exact ih s' (inv_step s s' a hi h)

theorem inv_reachable (as : List Action) : Inv (run init as) := inv_run _ inv_init as

/-- a reader blocked in its select while a message is queued is always woken:
the notification it waits for is pending (or its wait channel is the closed one) -/
theorem parked_nonempty_wakes (as : List Action) (hp : (run init as).pc = .park)
    (hq : queueEmpty (run init as) = false) : (step (run init as) .wake).isSome = true := by
  have hi := inv_reachable as
  have hw : (run init as).written = true := by
    cases hi.parked hp with
    | inl h => rw [h] at hq; cases hq
    | inr h => exact h
  simp only [step, hp, ↓reduceIte]
  cases hc : (run init as).waitClosed
  · have := hi.posted (Or.inr hp) hc hw
    simp [this]
  · simp

/-- a reader blocked in its select when the queue is (or gets) closed is always woken -/
theorem parked_closed_wakes (as : List Action) (hp : (run init as).pc = .park)
    (hc : (run init as).closed = true) : (step (run init as) .wake).isSome = true := by
  have hi := inv_reachable as
  simp only [step, hp, ↓reduceIte]
  cases hw : (run init as).waitClosed
  · have h1 : (run init as).written = true := by
      cases hi.closedSeen (Or.inr hp) hc with
      | inl h => rw [hw] at h; cases h
      | inr h => exact h
    have := hi.posted (Or.inr hp) hw h1
    simp [this]
  · simp

/-- whatever the schedule, the reader can take a step whenever the queue holds a message -/
theorem reader_never_stuck (as : List Action) (hq : queueEmpty (run init as) = false) :
    (step (run init as) .readWait).isSome = true ∨ (step (run init as) .read).isSome = true ∨
    (step (run init as) .wake).isSome = true := by
  cases hpc : (run init as).pc
  · left; simp only [step, hpc, ↓reduceIte]; split <;> rfl
  · right; left
    simp only [step, hpc, ↓reduceIte]
    split
    · rfl
    · split <;> rfl
  · right; right; exact parked_nonempty_wakes as hpc hq

/-- non-vacuity: a reachable state with the reader parked on a non-empty queue -/
example : (run init [.readWait, .read, .writeNew]).pc = .park ∧
    queueEmpty (run init [.readWait, .read, .writeNew]) = false := by decide

/-- the unrepaired order loses the wake-up: one message written to the head block and read, the
reader finds the queue empty, a second message lands in an overflow block and posts the
notification, `ReadWait()` sees an empty head block, consumes the notification and the reader
blocks for ever with the message queued -/
theorem unrepaired_lost_wakeup :
    let s := oldRun oldInit [.writeLast, .read, .read, .writeNew, .readWait]
    s.pc = .park ∧ s.more = [1] ∧ s.token = false ∧ s.waitClosed = false ∧ oldStep s .wake = none := by
  decide

/-! ### the four reader loops of the code take `wait` before they read (pinned event sequences,
tied to /repo by `TiesMpx`) -/

/-- in the loop body the first event is the ReadWait/ReceiveWait call, the read comes after it, and
the select blocks on that very `wait` value, never on a fresh call -/
def waitsBeforeReading (ev : List String) (waitCall readCall : String) : Bool :=
  ev.idxOf waitCall < ev.idxOf readCall && ev.idxOf readCall < ev.length &&
  ev.contains "select-case <-wait" && (ev.filter (· == waitCall)).length == 1

theorem sendLoop_order :
    waitsBeforeReading PinnedMpx.ev_conn_sendLoop "call c.writeq.ReadWait()" "call c.writeq.Read()" = true := by
  decide
theorem channel_Receive_order :
    waitsBeforeReading PinnedMpx.ev_channel_Receive "call ch.ReceiveWait()" "call ch.ReceiveAsync(ctx)" = true := by
  decide
theorem rpc_client_Receive_order :
    waitsBeforeReading PinnedMpx.ev_rpc_client_Receive "call ch.ReceiveWait()" "call ch.ReceiveAsync(ctx)" = true := by
  decide
theorem rpc_server_Receive_order :
    waitsBeforeReading PinnedMpx.ev_rpc_server_Receive "call ch.ReceiveWait()" "call ch.ReceiveAsync(ctx)" = true := by
  decide

end SpecVerif.WakeProps
