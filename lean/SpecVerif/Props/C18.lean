/-
C18 — Pooled objects never leak state between uses or goroutines (model level).

 * Pool protocol (Pool/Model.lean), every interleaving of acquire / use / release by any number of
   goroutines: a recycled object is clean when it is handed out (`acquired_is_clean`), an object
   that is held is not in the pool and every pooled object is unowned (`inv_reachable`), so an object
   in use by one goroutine is never handed to another (`never_shared`).
 * What "release resets" means in the code: the fields of each pooled type that its `reset()` does
   (and the pool's release function) do NOT assign are regenerated from the source on every run (`Generated.unreset_*`) and must be the
   pinned lists, all of whose members are stateless (mutexes released before the object is returned,
   the empty `builder` struct, backing arrays whose slices are cut to length 0; the release flags of a
   writer state were in this list by mistake until the pool scenario found them carried over: F41): `unreset_fields_are_stateless`.
 * The writer's own reset is C12.reset_clean; the ties of every reset/release function are in TiesMpx.
The race-freedom clause is decided by the race detector in the thorough tier (no memory-model theorem).
-/
import SpecVerif.Pool.Model
import SpecVerif.Generated.Facts
namespace SpecVerif.C18
open SpecVerif.Pool

structure Inv (s : State) : Prop where
  free_unowned : ∀ o ∈ s.free, s.owner o = none ∧ s.dirty o = false
  free_nodup : s.free.Nodup
  bound : (∀ o ∈ s.free, o < s.next) ∧ ∀ o, s.next ≤ o → s.owner o = none ∧ s.dirty o = false

theorem inv_init : Inv init := ⟨by simp [init], by simp [init], by simp [init]⟩

theorem inv_step (s s' : State) (a : Action) (hi : Inv s) (h : step s a = some s') : Inv s' := by
  obtain ⟨hf, hn, hb1, hb2⟩ := hi
  cases a with
  | acquire g =>
    simp only [step] at h
    cases hfr : s.free with
    | nil =>
      rw [hfr] at h; cases h
      refine ⟨by simp, by simp, by simp, ?_⟩
      intro o ho
      dsimp only at ho ⊢
      have : o ≠ s.next := by omega
      simp only [upd, this, ↓reduceIte]
      exact hb2 o (by omega)
    | cons o rest =>
      rw [hfr] at h; cases h
      rw [hfr] at hf hn hb1
      have hnd := List.nodup_cons.mp hn
      refine ⟨?_, hnd.2, fun x hx => hb1 x (by simp [hx]), ?_⟩
      · intro x hx
        have hne : x ≠ o := fun e => hnd.1 (e ▸ hx)
        simp only [upd, hne, ↓reduceIte]
        exact hf x (by simp [hx])
      · intro x hx
        dsimp only at hx ⊢
        have : o < s.next := hb1 o (by simp)
        have hne : x ≠ o := by omega
        simp only [upd, hne, ↓reduceIte]
        exact hb2 x hx
  | use g o =>
    simp only [step] at h
    split at h
    · rename_i ho
      cases h
      refine ⟨?_, hn, hb1, ?_⟩
      · intro x hx
        have hne : x ≠ o := by
          intro e; subst e
          have := (hf x hx).1; rw [this] at ho; cases ho
        simp only [upd, hne, ↓reduceIte]
        exact hf x hx
      · intro x hx
        have hne : x ≠ o := by
          intro e; subst e
          have := (hb2 x hx).1; rw [this] at ho; cases ho
        simp only [upd, hne, ↓reduceIte]
        exact hb2 x hx
    · cases h
  | release g o =>
    simp only [step] at h
    split at h
    · rename_i ho
      cases h
      have hnotfree : o ∉ s.free := by
        intro hm; have := (hf o hm).1; rw [this] at ho; cases ho
      have hlt : o < s.next := by
        by_cases hh : s.next ≤ o
        · have := (hb2 o hh).1; rw [this] at ho; cases ho
        · omega
      refine ⟨?_, List.nodup_cons.mpr ⟨hnotfree, hn⟩, ?_, ?_⟩
      · intro x hx
        rcases List.mem_cons.mp hx with e | e
        · subst e; simp [upd]
        · have hne : x ≠ o := fun e' => hnotfree (e' ▸ e)
          simp only [upd, hne, ↓reduceIte]
          exact hf x e
      · intro x hx
        rcases List.mem_cons.mp hx with e | e
        · subst e; exact hlt
        · exact hb1 x e
      · intro x hx
        dsimp only at hx ⊢
        have hne : x ≠ o := by omega
        simp only [upd, hne, ↓reduceIte]
        exact hb2 x hx
    · cases h

theorem inv_run (s : State) (hi : Inv s) (as : List Action) : Inv (run s as) := by
  induction as generalizing s with
  | nil => exact hi
  | cons a as ih =>
    simp only [run]
    cases h : step s a with
    | none => exact ih s hi
    | some s' => exact ih s' (inv_step s s' a hi h)

theorem inv_reachable (as : List Action) : Inv (run init as) := inv_run _ inv_init as

/-- whatever happened before, the object an acquire hands out carries no state of a previous use -/
theorem acquired_is_clean (as : List Action) (g : Nat) (s' : State)
    (h : step (run init as) (.acquire g) = some s') :
    ∃ o, s'.lastAcquired = some o ∧ s'.dirty o = false ∧ s'.owner o = some g := by
  have hi := inv_reachable as
  simp only [step] at h
  cases hfr : (run init as).free with
  | nil =>
    rw [hfr] at h; cases h
    exact ⟨_, rfl, (hi.bound.2 _ (Nat.le_refl _)).2, by simp [upd]⟩
  | cons o rest =>
    rw [hfr] at h; cases h
    exact ⟨o, rfl, (hi.free_unowned o (by simp [hfr])).2, by simp [upd]⟩

/-- an object that some goroutine holds is never handed to another one -/
theorem never_shared (as : List Action) (g g' o : Nat) (s' : State)
    (hown : (run init as).owner o = some g)
    (h : step (run init as) (.acquire g') = some s') : s'.lastAcquired ≠ some o := by
  have hi := inv_reachable as
  simp only [step] at h
  cases hfr : (run init as).free with
  | nil =>
    rw [hfr] at h; cases h
    intro e
    simp only [Option.some.injEq] at e
    have := (hi.bound.2 o (by omega)).1
    rw [this] at hown; cases hown
  | cons x rest =>
    rw [hfr] at h; cases h
    intro e
    simp only [Option.some.injEq] at e
    subst e
    have := (hi.free_unowned x (by simp [hfr])).1
    rw [this] at hown; cases hown

/-- non-vacuity: an object is recycled from goroutine 1 to goroutine 2 -/
example : (run init [.acquire 1, .use 1 0, .release 1 0, .acquire 2]).owner 0 = some 2 ∧
    (run init [.acquire 1, .use 1 0, .release 1 0, .acquire 2]).dirty 0 = false := by decide

/-- the unrepaired writer pool (F41): a writer that is still owned gets `Put` into the pool because its
recycled state carried the `releaseWriter` flag of a previous, failed, pooled writer; the next acquire
hands the object that goroutine 1 still holds to goroutine 2 -/
def strayPut (s : State) (o : Nat) : State := { s with free := o :: s.free }

theorem unrepaired_shares_object :
    let s0 := run init [.acquire 1, .use 1 0]
    let s1 := strayPut s0 0
    ∃ s2, step s1 (.acquire 2) = some s2 ∧ s2.lastAcquired = some 0 ∧ s0.owner 0 = some 1 ∧ s2.dirty 0 = true := by
  refine ⟨_, rfl, ?_, ?_, ?_⟩ <;> decide

/-- the fields the reset functions leave alone: all stateless -/
def statelessFields : List String :=
  ["_elements", "_fields", "_stack",          -- backing arrays of stacks cut to length 0
   "recvMu", "sendMu",                         -- mutexes, unlocked when the object is released
   "sendBuilder"]                              -- `type builder struct{}`: no fields

theorem unreset_fields_are_stateless :
    (∀ f ∈ Generated.unreset_writerState, f ∈ statelessFields) ∧
    (∀ f ∈ Generated.unreset_mpx_channelState, f ∈ statelessFields) ∧
    (∀ f ∈ Generated.unreset_rpc_channelState, f ∈ statelessFields) ∧
    (∀ f ∈ Generated.unreset_rpc_requestState, f ∈ statelessFields) ∧
    (∀ f ∈ Generated.unreset_rpc_serverChannelState, f ∈ statelessFields) := by
  decide

end SpecVerif.C18
