/-
C10 — Scalar codecs are exact inverses; width changes never truncate silently.
Property theorems only; helper lemmas live in `Lemmas/`.
Every statement holds behind an arbitrary prefix `p` (decoders read from the end of the buffer).
-/
import SpecVerif.Lemmas.Scalars
import SpecVerif.Lemmas.IEEE
namespace SpecVerif.C10
open SpecVerif Pinned

inductive W | w16 | w32 | w64 deriving DecidableEq, Repr

def fitsI : W → Int → Prop
  | .w16, v => -32768 ≤ v ∧ v ≤ 32767
  | .w32, v => -2147483648 ≤ v ∧ v ≤ 2147483647
  | .w64, v => -9223372036854775808 ≤ v ∧ v ≤ 9223372036854775807

def fitsU : W → Nat → Prop
  | .w16, v => v ≤ 65535
  | .w32, v => v ≤ 4294967295
  | .w64, v => v ≤ 18446744073709551615

instance (w : W) (v : Int) : Decidable (fitsI w v) := by cases w <;> unfold fitsI <;> infer_instance
instance (w : W) (v : Nat) : Decidable (fitsU w v) := by cases w <;> unfold fitsU <;> infer_instance

def encI : W → Int → Bytes
  | .w16 => encInt16 | .w32 => encInt32 | .w64 => encInt64
def decI : W → Bytes → Res (Int × Nat)
  | .w16 => decodeInt16 | .w32 => decodeInt32 | .w64 => decodeInt64
def encU : W → Nat → Bytes
  | .w16 => encUint16 | .w32 => encUint32 | .w64 => encUint64
def decU : W → Bytes → Res (Nat × Nat)
  | .w16 => decodeUint16 | .w32 => decodeUint32 | .w64 => decodeUint64

/-- Signed integers, all 9 (stored width, read width) pairs, whole domains: the same numeric value
when it is representable in the read width, the overflow error otherwise; the reported size is the
number of bytes the encoder appended. -/
theorem int_cross (s r : W) (p : Bytes) (v : Int) (hv : fitsI s v) :
    decI r (p ++ encI s v) =
      if fitsI r v then .ok (v, (encI s v).length) else .err .overflow 0 := by
  cases s <;> cases r <;> simp only [fitsI] at * <;> simp only [encI, decI, encInt16, encInt32, encInt64]
  · rw [decodeInt16_of32 p v _ (Or.inl rfl) (by omega) (by omega)]; simp
  · rw [decodeInt32_of32 p v _ (Or.inl rfl) (by omega) (by omega)]; simp; omega
  · rw [decodeInt64_of32 p v _ (Or.inl rfl) (by omega) (by omega)]; simp; omega
  · rw [decodeInt16_of32 p v _ (Or.inr rfl) (by omega) (by omega)]; simp
  · rw [decodeInt32_of32 p v _ (Or.inr rfl) (by omega) (by omega)]; simp; omega
  · rw [decodeInt64_of32 p v _ (Or.inr rfl) (by omega) (by omega)]; simp; omega
  · rw [decodeInt16_of64 p v (by omega) (by omega)]; simp
  · rw [decodeInt32_of64 p v (by omega) (by omega)]; simp
  · rw [decodeInt64_of64 p v (by omega) (by omega)]; simp; omega

/-- Unsigned integers, all 9 pairs. -/
theorem uint_cross (s r : W) (p : Bytes) (v : Nat) (hv : fitsU s v) :
    decU r (p ++ encU s v) =
      if fitsU r v then .ok (v, (encU s v).length) else .err .overflow 0 := by
  cases s <;> cases r <;> simp only [fitsU] at * <;> simp only [encU, decU, encUint16, encUint32, encUint64]
  · rw [decodeUint16_of32 p v _ (Or.inl rfl) (by omega)]; simp
  · rw [decodeUint32_of32 p v _ (Or.inl rfl) (by omega)]; simp; omega
  · rw [decodeUint64_of32 p v _ (Or.inl rfl) (by omega)]; simp; omega
  · rw [decodeUint16_of32 p v _ (Or.inr rfl) (by omega)]; simp
  · rw [decodeUint32_of32 p v _ (Or.inr rfl) (by omega)]; simp; omega
  · rw [decodeUint64_of32 p v _ (Or.inr rfl) (by omega)]; simp; omega
  · rw [decodeUint16_of64 p v (by omega)]; simp
  · rw [decodeUint32_of64 p v (by omega)]; simp
  · rw [decodeUint64_of64 p v (by omega)]; simp; omega

/-- Same-width round trip as a corollary. -/
theorem int_roundtrip (w : W) (p : Bytes) (v : Int) (hv : fitsI w v) :
    decI w (p ++ encI w v) = .ok (v, (encI w v).length) := by
  rw [int_cross w w p v hv, if_pos hv]

theorem uint_roundtrip (w : W) (p : Bytes) (v : Nat) (hv : fitsU w v) :
    decU w (p ++ encU w v) = .ok (v, (encU w v).length) := by
  rw [uint_cross w w p v hv, if_pos hv]

theorem bool_roundtrip (p : Bytes) (v : Bool) :
    decodeBool (p ++ encBool v) = .ok (v, (encBool v).length) := by
  rw [decodeBool_enc]; cases v <;> rfl

theorem byte_roundtrip (p : Bytes) (v : UInt8) :
    decodeByte (p ++ encByte v) = .ok (v, (encByte v).length) := by
  rw [decodeByte_enc]; rfl

theorem bin64_roundtrip (p v : Bytes) (h : v.length = 8) :
    decodeBin64 (p ++ encBin64 v) = .ok (v, (encBin64 v).length) := by
  unfold decodeBin64 encBin64; rw [decodeBin_enc 8 _ p v h]; simp [h]

theorem bin128_roundtrip (p v : Bytes) (h : v.length = 16) :
    decodeBin128 (p ++ encBin128 v) = .ok (v, (encBin128 v).length) := by
  unfold decodeBin128 encBin128; rw [decodeBin_enc 16 _ p v h]; simp [h]

theorem bin256_roundtrip (p v : Bytes) (h : v.length = 32) :
    decodeBin256 (p ++ encBin256 v) = .ok (v, (encBin256 v).length) := by
  unfold decodeBin256 encBin256; rw [decodeBin_enc 32 _ p v h]; simp [h]

/-- Byte strings of any content (length below 2^32; the encoder refuses more than MaxSize). -/
theorem bytes_roundtrip (p v : Bytes) (h : v.length < 2 ^ 32) :
    decodeBytes (p ++ encBytes v) = .ok (v, (encBytes v).length) := decodeBytes_enc p v h

/-- Strings of any content, embedded NUL bytes included. -/
theorem string_roundtrip (p v : Bytes) (h : v.length < 2 ^ 32) :
    decodeString (p ++ encString v) = .ok (v, (encString v).length) := decodeString_enc p v h

/-- float64 is stored and read back as its bit pattern: ±Inf, every NaN payload, −0 included. -/
theorem float64_roundtrip (F : FloatOps) (p : Bytes) (x : Nat) (h : x < 2 ^ 64) :
    decodeFloat64 F (p ++ encFloat64 x) = .ok (x, (encFloat64 x).length) := by
  rw [decodeFloat64_enc64 F p x h]; simp [encFloat64]

/-- float32 read as float64: exactly the IEEE widening of the stored bit pattern. -/
theorem float32_as_float64 (F : FloatOps) (p : Bytes) (x : Nat) (h : x < 2 ^ 32) :
    decodeFloat64 F (p ++ encFloat32 x) = .ok (F.widen x, (encFloat32 x).length) := by
  rw [decodeFloat64_enc32 F p x h]; simp [encFloat32]

/-- What the decoders need from the float conversions. It is not an assumption any more: the laws
are PROVED for the bit-level IEEE model `IEEE.ieee` (`ieee_laws`, Lemmas/IEEE.lean), and the drivers
run the decoders with exactly that model, so every float decode of the differential streams compares
it with Go's conversions on this platform. -/
structure FloatLaws (F : FloatOps) : Prop where
  /-- widening then narrowing a float32 gives the same bit pattern, except for signalling NaNs -/
  narrow_widen : ∀ x, x < 2 ^ 32 → ¬ IEEE.isSNaN32 x → F.narrow (F.widen x) = x
  /-- a signalling NaN comes back as the quiet NaN with the same payload -/
  narrow_widen_snan : ∀ x, x < 2 ^ 32 → IEEE.isSNaN32 x → F.narrow (F.widen x) = x + 2 ^ 22
  /-- a widened float32 is an infinity or lies inside the float32 range (NaN compares false) -/
  widen_in_range : ∀ x, x < 2 ^ 32 →
    F.isInf (F.widen x) = true ∨ (F.ltNegMax (F.widen x) = false ∧ F.gtMax (F.widen x) = false)

/-- the bit-level IEEE conversions satisfy the laws -/
theorem ieee_laws : FloatLaws IEEE.ieee :=
  ⟨IEEE.narrow_widen, IEEE.narrow_widen_snan, IEEE.widen_in_range⟩

/-- DecodeFloat32 on float32 data always succeeds (never an overflow error) with the widened and
re-narrowed pattern and the encoded size -/
theorem float32_decodes (F : FloatOps) (L : FloatLaws F) (p : Bytes) (x : Nat) (h : x < 2 ^ 32) :
    decodeFloat32 F (p ++ encFloat32 x) = .ok (F.narrow (F.widen x), (encFloat32 x).length) := by
  rw [decodeFloat32_enc32 F p x h]
  have e : (encFloat32 x).length = 5 := by simp [encFloat32]
  rcases L.widen_in_range x h with hi | ⟨h1, h2⟩
  · simp [hi, e]
  · simp [h1, h2, e]

/-- float32 round trip, bit-exact: every finite value, ±0, subnormals, ±Inf (which the unrepaired
decoder rejected as overflow) and every quiet NaN payload -/
theorem float32_roundtrip (F : FloatOps) (L : FloatLaws F) (p : Bytes) (x : Nat) (h : x < 2 ^ 32)
    (hn : ¬ IEEE.isSNaN32 x) :
    decodeFloat32 F (p ++ encFloat32 x) = .ok (x, (encFloat32 x).length) := by
  rw [float32_decodes F L p x h, L.narrow_widen x h hn]

/-- the one exception: a signalling NaN reads back as a NaN with the quiet bit set (the IEEE
conversion float32 -> float64 -> float32 inside DecodeFloat32 quiets it); it is still a NaN -/
theorem float32_snan_quieted (F : FloatOps) (L : FloatLaws F) (p : Bytes) (x : Nat) (h : x < 2 ^ 32)
    (hn : IEEE.isSNaN32 x) :
    decodeFloat32 F (p ++ encFloat32 x) = .ok (x + 2 ^ 22, (encFloat32 x).length) := by
  rw [float32_decodes F L p x h, L.narrow_widen_snan x h hn]

/-- the statements for the concrete conversions, without hypotheses about the platform -/
theorem float32_roundtrip_ieee (p : Bytes) (x : Nat) (h : x < 2 ^ 32) (hn : ¬ IEEE.isSNaN32 x) :
    decodeFloat32 IEEE.ieee (p ++ encFloat32 x) = .ok (x, (encFloat32 x).length) :=
  float32_roundtrip IEEE.ieee ieee_laws p x h hn

/-- float32 read through the float64 accessor and back is the identity: widening is exact -/
theorem float32_widen_exact (x : Nat) (h : x < 2 ^ 32) (hn : ¬ IEEE.isSNaN32 x) :
    IEEE.narrow (IEEE.widen x) = x := IEEE.narrow_widen x h hn

/-- float64 read as float32: narrowed when infinite or inside the float32 range, overflow error
otherwise — never another outcome. -/
theorem float64_as_float32 (F : FloatOps) (p : Bytes) (y : Nat) (h : y < 2 ^ 64) :
    decodeFloat32 F (p ++ encFloat64 y) =
      if F.isInf y then .ok (F.narrow y, 9)
      else if F.ltNegMax y ∨ F.gtMax y then .err .overflow 0
      else .ok (F.narrow y, 9) := decodeFloat32_enc64 F p y h

/-- the same for the concrete conversions, with the condition spelled out on the bit pattern: an
overflow error exactly when the stored float64 is finite with a magnitude above MaxFloat32; every
other pattern (in range - rounded to nearest even when it is not exactly a float32 -, ±Inf, NaN) is
narrowed -/
theorem float64_as_float32_ieee (p : Bytes) (y : Nat) (h : y < 2 ^ 64) :
    decodeFloat32 IEEE.ieee (p ++ encFloat64 y) =
      if IEEE.maxF32 < y % 2 ^ 63 ∧ y % 2 ^ 63 < 2047 * 2 ^ 52 then .err .overflow 0
      else .ok (IEEE.narrow y, 9) := by
  rw [float64_as_float32 IEEE.ieee p y h]
  have hn : IEEE.ieee.narrow y = IEEE.narrow y := rfl
  rw [hn]
  show (if IEEE.isInf y = true then _ else if IEEE.ltNegMax y = true ∨ IEEE.gtMax y = true then _ else _) = _
  unfold IEEE.isInf IEEE.ltNegMax IEEE.gtMax IEEE.isNaN64 IEEE.maxF32
  by_cases c1 : y % 2 ^ 63 = 2047 * 2 ^ 52
  · have c2 : ¬ (0x47EFFFFFE0000000 < y % 2 ^ 63 ∧ y % 2 ^ 63 < 2047 * 2 ^ 52) := by omega
    simp only [c1, decide_true, ↓reduceIte]
    rw [if_neg (by omega)]
  · by_cases c3 : y % 2 ^ 63 > 2047 * 2 ^ 52
    · have c2 : ¬ (0x47EFFFFFE0000000 < y % 2 ^ 63 ∧ y % 2 ^ 63 < 2047 * 2 ^ 52) := by omega
      simp [c1, c3, c2]
    · by_cases c4 : 0x47EFFFFFE0000000 < y % 2 ^ 63
      · have c2 : 0x47EFFFFFE0000000 < y % 2 ^ 63 ∧ y % 2 ^ 63 < 2047 * 2 ^ 52 := by omega
        have hs : y / 2 ^ 63 % 2 = 0 ∨ y / 2 ^ 63 % 2 = 1 := by omega
        rcases hs with hs | hs <;> simp [c1, c3, c4, c2, hs]
      · have c2 : ¬ (0x47EFFFFFE0000000 < y % 2 ^ 63 ∧ y % 2 ^ 63 < 2047 * 2 ^ 52) := by omega
        simp [c1, c3, c4, c2]

/-! ### non-vacuity: concrete instances of the hypotheses -/

example : fitsI .w64 (-9223372036854775808) ∧ ¬ fitsI .w32 (-9223372036854775808) := by decide
example : decI .w16 ([1, 2, 0xfd] ++ encI .w64 40000) = .err .overflow 0 := by
  rw [int_cross .w64 .w16 _ _ (by decide), if_neg (by decide)]
example : decU .w32 ([0xff] ++ encU .w16 65535) = .ok (65535, 4) := by
  rw [uint_cross .w16 .w32 _ _ (by decide), if_pos (by decide)]
  have : (encU .w16 65535).length = 4 := by decide
  rw [this]

end SpecVerif.C10
