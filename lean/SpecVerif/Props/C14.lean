/-
C14 — Compiler output always compiles; invalid schemas are rejected cleanly.

What is proved here is the "rules" half of the property, on the model `wfBundle` (Lang/Check.lean)
whose verdict is compared with the compiler's on every generated, mutated and damaged schema:
for EVERY bundle, package, file and definition, a schema that breaks one of the rules the property
names is rejected —
  duplicate field names / tags (`dup_field_name_rejected`, `dup_tag_rejected`), zero and out-of-range
  tags (`zero_tag_rejected`, `tag_out_of_range_rejected`), duplicate enum names / numbers, missing zero
  value, out-of-range enum values (`enum_*`), unknown and service-typed field and element types
  (`unknown_type_rejected`, `service_type_rejected`), non-value struct fields (`struct_list_rejected`,
  `struct_message_rejected`), self-containing structs (`struct_self_rejected`), non-message channel
  types (`channel_non_message_rejected`), circular and missing imports (`circular_import_rejected`,
  `missing_import_rejected`), duplicate definitions and methods (`dup_definition_rejected`,
  `dup_method_rejected`), inputs that are not messages (`input_non_message_rejected`) —
and conversely `fieldsOK_iff` / `enumOK_iff` state exactly which field lists and enums are accepted.
The other half ("accepted schemas produce code the Go compiler accepts", "never panics or hangs")
cannot be a theorem about this model: it is decided by running the compiler and `go build` on every
accepted schema of the stream (see DESIGN.md §4/C14).
-/
import SpecVerif.Lang.Check
namespace SpecVerif.C14
open SpecVerif.Lang

theorem nodup_iff {α : Type} [DecidableEq α] (xs : List α) : nodup xs = true ↔ xs.Nodup := by
  simp [nodup]

/-- the type of a field resolves to something that is not a service -/
def TypeOK (b : Bundle) (p : Pkg) (f : File) (t : Ty) : Prop :=
  ∃ k, resolveBase b p f (tyBase t) = some k ∧ ∀ s, k ≠ .service s

theorem typeOK_iff (b : Bundle) (p : Pkg) (f : File) (t : Ty) : typeOKb b p f t = true ↔ TypeOK b p f t := by
  unfold typeOKb TypeOK
  cases hr : resolveBase b p f (tyBase t) with
  | none => simp
  | some k => cases k <;> simp

/-- exactly which field lists are accepted -/
theorem fieldsOK_iff (b : Bundle) (p : Pkg) (f : File) (fs : List Field) :
    fieldsOK b p f fs = true ↔
      (fs.map (·.name)).Nodup ∧ (fs.map (·.tag)).Nodup ∧
      ∀ fd ∈ fs, 1 ≤ fd.tag ∧ fd.tag ≤ 65535 ∧ TypeOK b p f fd.ty := by
  unfold fieldsOK
  simp only [Bool.and_eq_true, nodup_iff, List.all_eq_true, decide_eq_true_eq]
  constructor
  · rintro ⟨⟨h1, h2⟩, h3⟩
    refine ⟨h1, h2, fun fd hfd => ?_⟩
    obtain ⟨⟨a, c⟩, d⟩ := h3 fd hfd
    exact ⟨a, c, (typeOK_iff b p f fd.ty).mp d⟩
  · rintro ⟨h1, h2, h3⟩
    refine ⟨⟨h1, h2⟩, fun fd hfd => ?_⟩
    obtain ⟨a, c, d⟩ := h3 fd hfd
    exact ⟨⟨a, c⟩, (typeOK_iff b p f fd.ty).mpr d⟩

theorem dup_tag_rejected (b : Bundle) (p : Pkg) (f : File) (fs : List Field)
    (h : ¬ (fs.map (·.tag)).Nodup) : fieldsOK b p f fs = false := by
  cases hh : fieldsOK b p f fs
  · rfl
  · exact absurd ((fieldsOK_iff b p f fs).mp hh).2.1 h

theorem dup_field_name_rejected (b : Bundle) (p : Pkg) (f : File) (fs : List Field)
    (h : ¬ (fs.map (·.name)).Nodup) : fieldsOK b p f fs = false := by
  cases hh : fieldsOK b p f fs
  · rfl
  · exact absurd ((fieldsOK_iff b p f fs).mp hh).1 h

theorem zero_tag_rejected (b : Bundle) (p : Pkg) (f : File) (fs : List Field) (fd : Field)
    (hm : fd ∈ fs) (h : fd.tag = 0) : fieldsOK b p f fs = false := by
  cases hh : fieldsOK b p f fs
  · rfl
  · have := (((fieldsOK_iff b p f fs).mp hh).2.2 fd hm).1; omega

theorem tag_out_of_range_rejected (b : Bundle) (p : Pkg) (f : File) (fs : List Field) (fd : Field)
    (hm : fd ∈ fs) (h : 65535 < fd.tag) : fieldsOK b p f fs = false := by
  cases hh : fieldsOK b p f fs
  · rfl
  · have := (((fieldsOK_iff b p f fs).mp hh).2.2 fd hm).2.1; omega

theorem unknown_type_rejected (b : Bundle) (p : Pkg) (f : File) (fs : List Field) (fd : Field)
    (hm : fd ∈ fs) (h : resolveBase b p f (tyBase fd.ty) = none) :
    fieldsOK b p f fs = false := by
  cases hh : fieldsOK b p f fs
  · rfl
  · obtain ⟨k, hk, _⟩ := (((fieldsOK_iff b p f fs).mp hh).2.2 fd hm).2.2
    rw [h] at hk; cases hk

/-- a field or list element of a service type is rejected -/
theorem service_type_rejected (b : Bundle) (p : Pkg) (f : File) (fs : List Field) (fd : Field) (s : Bool)
    (hm : fd ∈ fs) (h : resolveBase b p f (tyBase fd.ty) = some (.service s)) :
    fieldsOK b p f fs = false := by
  cases hh : fieldsOK b p f fs
  · rfl
  · obtain ⟨k, hk, hs⟩ := (((fieldsOK_iff b p f fs).mp hh).2.2 fd hm).2.2
    rw [h] at hk; cases hk; exact absurd rfl (hs s)

/-- exactly which enums are accepted -/
theorem enumOK_iff (vs : List EnumValue) :
    enumOK vs = true ↔ (vs.map (·.name)).Nodup ∧ (vs.map (·.value)).Nodup ∧
      (∃ v ∈ vs, v.value = 0) ∧ ∀ v ∈ vs, v.value ≤ 2147483647 := by
  unfold enumOK
  simp only [Bool.and_eq_true, nodup_iff, List.any_eq_true, List.all_eq_true, decide_eq_true_eq, beq_iff_eq]
  constructor
  · rintro ⟨⟨⟨a, c⟩, d⟩, e⟩; exact ⟨a, c, d, e⟩
  · rintro ⟨a, c, d, e⟩; exact ⟨⟨⟨a, c⟩, d⟩, e⟩

theorem enum_no_zero_rejected (vs : List EnumValue) (h : ∀ v ∈ vs, v.value ≠ 0) : enumOK vs = false := by
  cases hh : enumOK vs
  · rfl
  · obtain ⟨v, hv, h0⟩ := ((enumOK_iff vs).mp hh).2.2.1; exact absurd h0 (h v hv)

theorem enum_dup_number_rejected (vs : List EnumValue) (h : ¬ (vs.map (·.value)).Nodup) : enumOK vs = false := by
  cases hh : enumOK vs
  · rfl
  · exact absurd ((enumOK_iff vs).mp hh).2.1 h

theorem enum_dup_name_rejected (vs : List EnumValue) (h : ¬ (vs.map (·.name)).Nodup) : enumOK vs = false := by
  cases hh : enumOK vs
  · rfl
  · exact absurd ((enumOK_iff vs).mp hh).1 h

theorem enum_out_of_range_rejected (vs : List EnumValue) (v : EnumValue) (hm : v ∈ vs)
    (h : 2147483647 < v.value) : enumOK vs = false := by
  cases hh : enumOK vs
  · rfl
  · have := ((enumOK_iff vs).mp hh).2.2.2 v hm; omega

/-- struct fields: lists and messages are not value types -/
theorem struct_list_rejected (b : Bundle) (p : Pkg) (f : File) (n : String) (fs : List SField) (sf : SField) (t : BaseT)
    (hm : sf ∈ fs) (h : sf.ty = .list t) : structOK b p f n fs = false := by
  have : (fs.all fun sf => valueTypeOK b p f sf.ty) = false := by
    rw [List.all_eq_false]
    exact ⟨sf, hm, by simp [h, valueTypeOK]⟩
  simp [structOK, this]

theorem struct_message_rejected (b : Bundle) (p : Pkg) (f : File) (n : String) (fs : List SField) (sf : SField) (t : BaseT)
    (hm : sf ∈ fs) (h : sf.ty = .base t) (hr : resolveBase b p f t = some .message) :
    structOK b p f n fs = false := by
  have : (fs.all fun sf => valueTypeOK b p f sf.ty) = false := by
    rw [List.all_eq_false]
    exact ⟨sf, hm, by simp [h, valueTypeOK, hr]⟩
  simp [structOK, this]

/-- a struct with a field of its own type is rejected -/
theorem struct_self_rejected (b : Bundle) (p : Pkg) (f : File) (n : String) (fs : List SField) (sf : SField) (t : BaseT)
    (hfind : findStruct b p.id n = some (p, f, fs)) (hm : sf ∈ fs) (h : sf.ty = .base t)
    (hr : resolveBase b p f t = some (.struct p.id n)) : structOK b p f n fs = false := by
  unfold structOK
  have : structReaches b (p.id, n) (structCount b + 1) (p.id, n) = true := by
    simp only [structReaches, hfind, List.any_eq_true]
    exact ⟨sf, hm, by simp [h, hr]⟩
  simp [this]

theorem channel_non_message_rejected (b : Bundle) (p : Pkg) (f : File) (m : Method) (c : MChan) (o : Option MOutput)
    (ht : m.tail = .chan c o) (h : chanOK b p f c = false) : methodOK b p f m = false := by
  unfold methodOK
  rw [ht]
  simp only [h, Bool.false_and, Bool.and_false]

theorem input_non_message_rejected (b : Bundle) (p : Pkg) (f : File) (m : Method) (t : BaseT)
    (hi : m.input = .type t) (h : resolveBase b p f t ≠ some .message) : methodOK b p f m = false := by
  unfold methodOK
  rw [hi]
  have : (resolveBase b p f t == some RK.message) = false := by
    cases hh : (resolveBase b p f t == some RK.message)
    · rfl
    · exact absurd (beq_iff_eq.mp hh) h
  simp [this]

theorem dup_method_rejected (b : Bundle) (p : Pkg) (f : File) (sub : Bool) (n : String) (ms : List Method)
    (h : ¬ (ms.map (·.name)).Nodup) : defOK b p f (.service sub n ms) = false := by
  have : nodup (ms.map (·.name)) = false := by
    cases hh : nodup (ms.map (·.name))
    · rfl
    · exact absurd ((nodup_iff _).mp hh) h
  simp [defOK, this]

theorem dup_definition_rejected (b : Bundle) (p : Pkg) (h : ¬ (p.defs.map Def.name).Nodup) :
    pkgLocalOK b p = false := by
  have : nodup (p.defs.map Def.name ++ p.generated) = false := by
    cases hh : nodup (p.defs.map Def.name ++ p.generated)
    · rfl
    · exact absurd (List.nodup_append.mp ((nodup_iff _).mp hh)).1 h
  simp [pkgLocalOK, this]

theorem circular_import_rejected (b : Bundle) (fuel : Nat) (stack : List String) (id : String)
    (h : id ∈ stack) : pkgOK b fuel stack id = false := by
  cases fuel with
  | zero => rfl
  | succ n => simp [pkgOK, h]

theorem missing_import_rejected (b : Bundle) (fuel : Nat) (stack : List String) (id : String)
    (h : findPkg b id = none) : pkgOK b fuel stack id = false := by
  cases fuel with
  | zero => rfl
  | succ n =>
    simp only [pkgOK, h]
    split <;> rfl

/-- a package that imports a package which does not compile does not compile -/
theorem bad_import_rejected (b : Bundle) (fuel : Nat) (stack : List String) (id : String) (p : Pkg)
    (hp : findPkg b id = some p) (pf : PFile) (hpf : pf ∈ p.files) (im : Import) (him : im ∈ pf.file.imports)
    (hbad : pkgOK b fuel (id :: stack) im.id = false) : pkgOK b (fuel + 1) stack id = false := by
  simp only [pkgOK, hp]
  split
  · rfl
  · have : (p.files.all fun pf => pf.file.imports.all fun im => pkgOK b fuel (id :: stack) im.id) = false := by
      rw [List.all_eq_false]
      refine ⟨pf, hpf, ?_⟩
      simp only [Bool.not_eq_true, List.all_eq_false]
      exact ⟨im, him, by simp [hbad]⟩
    simp [this]

/-- non-vacuity: a two-package bundle with every kind of definition is accepted, and its mutants
are rejected -/
def dep : Pkg := { id := "dep", files := [⟨"f0", { imports := [], options := [], defs := [
    .enum "E" [⟨"Z", 0⟩, ⟨"A", 5⟩], .struct "S" [⟨"x", .base (.name "int32")⟩, ⟨"e", .base (.name "E")⟩],
    .message "D" [⟨"s", .base (.name "S"), 1⟩]] }⟩] }

def root : Pkg := { id := "root", files := [⟨"f0", { imports := [⟨"d", "dep"⟩], options := [⟨"go_package", "x/root"⟩], defs := [
    .message "M" [⟨"a", .base (.name "int32"), 1⟩, ⟨"b", .list (.ref "d" "D"), 65535⟩, ⟨"c", .base .any, 2⟩],
    .service true "Sub" [⟨"get", .type (.name "M"), .out (.type (.name "M"))⟩],
    .service false "Svc" [⟨"call", .type (.name "M"), .chan (.both (.base (.name "M")) (.base (.ref "d" "D"))) none⟩,
                           ⟨"sub", .fields [], .out (.type (.name "Sub"))⟩]] }⟩] }

example : wfBundle [root, dep] = true := by decide
example : wfBundle [{ root with files := root.files ++ [⟨"f1", { imports := [], options := [], defs := [.message "M" []] }⟩] }, dep] = false := by
  decide
example : wfBundle [root] = false := by decide          -- the import is missing

end SpecVerif.C14
