/-
C19 — Client connection state is consistent, bounded and recovers.

 * Back-off (`Mpx/Client.lean: reconnectTimeout`, Go's integer semantics incl. the uint16 wrap and
   shifts ≥ 64): for EVERY attempt number a ≥ 2 the wait is between 25 ms and 1 s and never
   decreases with the attempt number (`backoff_bounds`, `backoff_monotone`).
 * Bookkeeping state machine, all interleavings of Close / Conn slow path / connection-closed and
   channels-reached callbacks / dial results, schedules of any length (`inv_reachable`):
   exactly one of Connected/Disconnected; Connected ⇒ a connection is listed; connections in the
   list plus an in-flight dial never exceed max(1, MaxConns); Close is terminal (`closed_terminal`)
   and idempotent (`close_idempotent`); after Close no connection is ever registered again, a dial
   that completes later is discarded (`no_conn_after_close`) and no new dial is ever started
   (`no_dial_after_close`, repaired tree: F20); recovery: with no connection left the
   next call starts a dial (`ondemand_redials`), the auto-connect client re-arms itself after a
   failed dial and after its last connection closed (`auto_rearms`).
Residual (runtime, not in the model): real sleeps are only lower-bounded by the scenario check.
-/
import SpecVerif.Mpx.Client
namespace SpecVerif.C19
open SpecVerif.Mpx.Client

/-! ### back-off -/

theorem multi_small : ∀ a, a < 16 → 2 ≤ a → multi a = 2 ^ a - 2 := by decide

theorem pow_mod_64k (a : Nat) (h : 16 ≤ a) : 2 ^ a % 65536 = 0 := by
  obtain ⟨k, rfl⟩ : ∃ k, a = 16 + k := ⟨a - 16, by omega⟩
  rw [Nat.pow_add]
  exact Nat.mul_mod_right _ _

theorem shl1_mod (a : Nat) (h : 16 ≤ a) : shl1 a % 65536 = 0 := by
  unfold shl1
  split
  · exact pow_mod_64k a h
  · rfl

theorem shl1_lt (a : Nat) : shl1 a < 2 ^ 64 := by
  unfold shl1
  split
  · exact Nat.pow_lt_pow_right (by decide) (by assumption)
  · decide

theorem multi_large (a : Nat) (h : 16 ≤ a) : multi a = 65534 := by
  unfold multi
  have hd : (65536 : Nat) ∣ 2 ^ 64 := ⟨2 ^ 48, by decide⟩
  rw [Nat.mod_mod_of_dvd _ hd]
  have h1 := shl1_mod a h
  have h2 : (shl1 a + 2 ^ 64 - 2) % 65536 = (shl1 a % 65536 + (2 ^ 64 - 2) % 65536) % 65536 := by
    have : shl1 a + 2 ^ 64 - 2 = shl1 a + (2 ^ 64 - 2) := by
      have : 2 ≤ 2 ^ 64 := by decide
      omega
    rw [this, Nat.add_mod]
  rw [h2, h1]

/-- for every attempt number ≥ 2: 25 ms ≤ reconnectTimeout ≤ 1 s -/
theorem backoff_bounds (a : Nat) (h : 2 ≤ a) :
    minRetryNs ≤ reconnectTimeout a ∧ reconnectTimeout a ≤ maxRetryNs := by
  unfold reconnectTimeout
  refine ⟨?_, Nat.min_le_right _ _⟩
  by_cases c : a < 16
  · have hs : ∀ a, a < 16 → 2 ≤ a → minRetryNs ≤ min (minRetryNs * multi a) maxRetryNs := by decide
    exact hs a c h
  · rw [multi_large a (by omega)]; decide

/-- the back-off never decreases within a run of failures -/
theorem backoff_monotone (a : Nat) (h : 2 ≤ a) : reconnectTimeout a ≤ reconnectTimeout (a + 1) := by
  unfold reconnectTimeout
  by_cases c : a < 15
  · have hs : ∀ a, a < 15 → 2 ≤ a →
        min (minRetryNs * multi a) maxRetryNs ≤ min (minRetryNs * multi (a + 1)) maxRetryNs := by decide
    exact hs a c h
  · rw [multi_large (a + 1) (by omega)]
    have : min (minRetryNs * 65534) maxRetryNs = maxRetryNs := by decide
    rw [this]; exact Nat.min_le_right _ _

/-- the values the implementation is compared with on every run -/
example : (List.range 8).map reconnectTimeout =
    [1000000000, 0, 50000000, 150000000, 350000000, 750000000, 1000000000, 1000000000] := by decide

/-! ### bookkeeping -/

def pending (s : State) : Nat :=
  match s.dial with
  | .inNet | .failed => if s.closed then 0 else 1
  | _ => 0

structure Inv (s : State) : Prop where
  flags : s.connected = !s.disconnected
  closed_empty : s.closed = true → s.conns = 0 ∧ s.connected = false
  bound : s.conns + pending s ≤ cap s
  connected_has : s.connected = true → s.conns > 0

theorem inv_init (auto : Bool) (m : Nat) : Inv (init auto m) := by
  refine ⟨by simp [init], by simp [init], ?_, by simp [init]⟩
  cases auto <;> simp [init, pending, cap] <;> omega

theorem cap_pos (s : State) : 1 ≤ cap s := by unfold cap; omega

set_option maxRecDepth 8000 in
theorem inv_step (s s' : State) (a : Action) (hi : Inv s) (h : step s a = some s') : Inv s' := by
  obtain ⟨hf, hc, hb, hh⟩ := hi
  have hcap := cap_pos s
  unfold cap at hcap hb
  unfold pending at hb
  -- make every finite component concrete, then each field is linear arithmetic on conns/maxConns
  obtain ⟨auto, maxConns, closed, connected, disconnected, conns, dial, attempt⟩ := s
  simp only at hf hc hb hh hcap
  cases a <;> simp only [step, startDial] at h <;>
    cases closed <;> cases dial <;> cases auto <;> cases connected <;> cases disconnected <;>
    simp only [Bool.not_true, Bool.not_false, Bool.false_eq_true, Bool.true_eq_false, ↓reduceIte] at h hb hf <;>
    (repeat' split at h) <;> (try cases h) <;>
    (first
      | (exfalso; assumption)
      | (exfalso; omega)
      | (refine ⟨?_, ?_, ?_, ?_⟩ <;> (try intro hx) <;> (try simp only [pending, cap, Bool.not_true, Bool.not_false] at *) <;>
          (try simp only [true_implies, forall_const, and_true, Bool.true_eq_false, and_false, Bool.false_eq_true, false_implies, implies_true, gt_iff_lt] at hx) <;> (try simp only [true_implies, forall_const, and_true, Bool.true_eq_false, and_false, Bool.false_eq_true, false_implies, implies_true, gt_iff_lt] at hc) <;> (try simp only [true_implies, forall_const, and_true, Bool.true_eq_false, and_false, Bool.false_eq_true, false_implies, implies_true, gt_iff_lt] at hh) <;>
          (try simp only [↓reduceIte, Bool.false_eq_true, if_true, if_false]) <;>
          first | rfl | trivial | omega | decide | (exact hc) | (exact hh)
                | (constructor <;> first | omega | trivial | rfl | decide)
                | (exfalso; first | (exact hc) | omega)))

theorem inv_run (s : State) (hi : Inv s) (as : List Action) : Inv (run s as) := by
  induction as generalizing s with
  | nil => exact hi
  | cons a as ih =>
    simp only [run]
    cases h : step s a with
    | none => exact ih s hi
    | some s' => exact ih s' (inv_step s s' a hi h)

/-- for every mode, every MaxConns and every schedule: exactly one of Connected/Disconnected,
Connected ⇒ a connection is listed, and connections + in-flight dial ≤ max(1, MaxConns) -/
theorem inv_reachable (auto : Bool) (m : Nat) (as : List Action) : Inv (run (init auto m) as) :=
  inv_run _ (inv_init auto m) as

theorem exactly_one_flag (auto : Bool) (m : Nat) (as : List Action) :
    (run (init auto m) as).connected ≠ (run (init auto m) as).disconnected := by
  have := (inv_reachable auto m as).flags
  cases h : (run (init auto m) as).disconnected <;> simp_all

theorem conns_bounded (auto : Bool) (m : Nat) (as : List Action) :
    (run (init auto m) as).conns ≤ max 1 m := by
  have h := (inv_reachable auto m as).bound
  have hm : cap (run (init auto m) as) = max 1 m := by
    have : ∀ (s : State) (as : List Action), (run s as).maxConns = s.maxConns := by
      intro s as
      induction as generalizing s with
      | nil => rfl
      | cons a as ih =>
        simp only [run]
        cases hs : step s a with
        | none => exact ih s
        | some s' =>
          rw [ih s']
          cases a <;> simp only [step, startDial] at hs <;> (repeat' split at hs) <;> (try cases hs) <;> simp_all
    unfold cap; rw [this]; rfl
  omega

/-- Close is terminal: once closed, always closed -/
theorem closed_terminal (s s' : State) (a : Action) (hc : s.closed = true) (h : step s a = some s') :
    s'.closed = true := by
  cases a <;> simp only [step, startDial] at h <;> (repeat' split at h) <;> (try cases h) <;> simp_all

/-- Close is idempotent -/
theorem close_idempotent (s : State) (hc : s.closed = true) : step s .close = some s := by
  simp [step, hc]

/-- after Close no connection is registered any more, whatever completes later -/
theorem no_conn_after_close (s : State) (hi : Inv s) (hc : s.closed = true) (as : List Action) :
    (run s as).conns = 0 ∧ (run s as).connected = false := by
  have hcl : (run s as).closed = true := by
    induction as generalizing s with
    | nil => exact hc
    | cons a as ih =>
      simp only [run]
      cases hs : step s a with
      | none => exact ih s hi hc
      | some s' => exact ih s' (inv_step s s' a hi hs) (closed_terminal s s' a hc hs)
  exact (inv_run s hi as).closed_empty hcl

/-- a closed client never starts a dial: after Close the only dial that can still be running is the
one that was already in the network when Close was called (its result is discarded) -/
theorem no_dial_after_close (s s' : State) (a : Action) (hc : s.closed = true)
    (h : step s a = some s') : s'.dial = .inNet → s.dial = .inNet := by
  cases a <;> simp only [step, startDial] at h <;> (repeat' split at h) <;> (try cases h) <;> simp_all

/-- on demand: with no connection and no dial in flight the next call starts a dial -/
theorem ondemand_redials (s : State) (hc : s.closed = false) (h0 : s.conns = 0) (hd : s.dial = .none) :
    ∃ s', step s .connSlow = some s' ∧ s'.dial = .inNet := by
  simp [step, hc, h0, startDial, hd]

/-- auto-connect: when the last connection closes a dial is started, and a failed dial re-arms -/
theorem auto_rearms (s : State) (ha : s.auto = true) (hc : s.closed = false) :
    (s.conns = 1 → s.dial = .none → ∃ s', step s .connClosed = some s' ∧ s'.dial = .inNet) ∧
    (s.dial = .failed → ∃ s', step s .connectTail = some s' ∧ s'.dial = .inNet) := by
  constructor
  · intro h1 hd
    simp [step, h1, ha, hc, startDial, hd]
  · intro hd
    simp [step, hd, ha, hc]

end SpecVerif.C19
