/-
C15, character level — the token sequence is independent of white space and comments.

`lex_layout`: take ANY sequence of lexemes (identifiers/keywords, decimal literals the lexer accepts,
string literals without escapes, punctuation) and put ANY separator — a run of blanks, tabs,
newlines, carriage returns, `//` comments (any NUL-free ASCII text up to the newline) and `/* */`
comments (any NUL-free ASCII text not containing the closing sequence) — in front, behind and
between them; a separator may be empty wherever the next lexeme starts with a character that cannot
continue the previous one (e.g. between a name and '(' but not between two names). The lexer model
returns exactly the tokens of the lexemes, in order: no comment content leaks into the token
stream, nothing is merged or split.

`parse_layout`: composed with `C15.parse_print`: every such rendering of the canonical tokens of a
well-formed tree lexes and parses to exactly that tree.
-/
import SpecVerif.Lemmas.LangLex
import SpecVerif.Props.C15
namespace SpecVerif.C15
open SpecVerif.Lang

/-- separator + lexeme pairs after the first lexeme -/
def renderRest (items : List (List SepElem × Lexeme)) : List Char :=
  (items.map fun it => sepChars it.1 ++ it.2.chars).flatten

/-- between two lexemes the separator is non-empty unless the second starts with a boundary
character of the first -/
def Chain : Lexeme → List (List SepElem × Lexeme) → Prop
  | _, [] => True
  | l, (sep, l') :: rest => (sep ≠ [] ∨ ∀ c cs, l'.chars = c :: cs → boundary l c) ∧ Chain l' rest

theorem run_items (l : Lexeme) (hl : l.OK) (items : List (List SepElem × Lexeme))
    (hi : ∀ it ∈ items, it.2.OK ∧ ∀ e ∈ it.1, e.OK) (hc : Chain l items) (sepEnd : List SepElem)
    (he : ∀ e ∈ sepEnd, e.OK) (out : List Tok) :
    finish (run (pend out l) (renderRest items ++ sepChars sepEnd)) =
      some (out.reverse ++ l.tok :: items.map fun it => it.2.tok) := by
  induction items generalizing l out with
  | nil =>
    simp only [renderRest, List.map_nil, List.flatten_nil, List.nil_append]
    rw [run_pend_sep l hl sepEnd he out]
    simp
  | cons it items ih =>
    obtain ⟨sep, l'⟩ := it
    obtain ⟨hl', hsep⟩ := hi (sep, l') (by simp)
    obtain ⟨hb, hc'⟩ := hc
    simp only [renderRest, List.map_cons, List.flatten_cons, List.append_assoc]
    rw [← List.append_assoc (sepChars sep), run_append, run_pend_next l l' hl hl' sep hsep hb out]
    have := ih l' hl' (fun x hx => hi x (by simp [hx])) hc' (l.tok :: out)
    simp only [renderRest] at this
    rw [this]
    simp

/-- layout independence of the lexer -/
theorem lex_layout (sep0 : List SepElem) (l : Lexeme) (items : List (List SepElem × Lexeme)) (sepEnd : List SepElem)
    (h0 : ∀ e ∈ sep0, e.OK) (hl : l.OK) (hi : ∀ it ∈ items, it.2.OK ∧ ∀ e ∈ it.1, e.OK)
    (hc : Chain l items) (he : ∀ e ∈ sepEnd, e.OK) :
    lexChars (sepChars sep0 ++ l.chars ++ renderRest items ++ sepChars sepEnd) =
      some (l.tok :: items.map fun it => it.2.tok) := by
  unfold lexChars
  change finish (run ⟨.start, []⟩ _) = _
  rw [List.append_assoc, List.append_assoc, run_append, run_sep sep0 h0, run_append, run_lexeme l hl]
  have := run_items l hl items hi hc sepEnd he []
  simpa using this

/-- a text of separators only has no tokens -/
theorem lex_blank (sep : List SepElem) (h : ∀ e ∈ sep, e.OK) : lexChars (sepChars sep) = some [] := by
  unfold lexChars
  change finish (run ⟨.start, []⟩ _) = _
  rw [run_sep sep h]
  rfl

/-- text → tokens → tree: every layout of the canonical tokens of a well-formed tree is parsed into
exactly that tree -/
theorem parse_layout (f : File) (hf : f.WF) (sep0 : List SepElem) (l : Lexeme)
    (items : List (List SepElem × Lexeme)) (sepEnd : List SepElem)
    (h0 : ∀ e ∈ sep0, e.OK) (hl : l.OK) (hi : ∀ it ∈ items, it.2.OK ∧ ∀ e ∈ it.1, e.OK)
    (hc : Chain l items) (he : ∀ e ∈ sepEnd, e.OK)
    (htoks : (l.tok :: items.map fun it => it.2.tok) = f.toks) :
    (lexChars (sepChars sep0 ++ l.chars ++ renderRest items ++ sepChars sepEnd)).bind parseFile = some f := by
  rw [lex_layout sep0 l items sepEnd h0 hl hi hc he, htoks]
  exact parse_print f hf

/-- non-vacuity: `message A{a int32 1}` with comments, no blank before '{' -/
example :
    let sp : List SepElem := [.ws ' ']
    let l : Lexeme := .word 'm' "essage".toList
    let items : List (List SepElem × Lexeme) :=
      [([.block " * x ".toList], .word 'A' []), ([], .punct '{'), ([.line "c".toList], .word 'a' []),
       (sp, .word 'i' "nt32".toList), (sp, .num ['1'] (.int 1)), ([], .punct '}')]
    l.OK ∧ (∀ it ∈ items, it.2.OK ∧ ∀ e ∈ it.1, e.OK) ∧ Chain l items ∧
    lexChars (sepChars [] ++ l.chars ++ renderRest items ++ sepChars []) =
      some [.kw .message, .ident "A", .p '{', .ident "a", .ident "int32", .int 1, .p '}'] := by
  refine ⟨?_, ?_, ?_, by decide⟩
  · exact ⟨by decide, by decide⟩
  · intro it hit
    simp only [List.mem_cons, List.mem_nil_iff, or_false] at hit
    rcases hit with h | h | h | h | h | h <;> subst h <;> (constructor <;> simp [Lexeme.OK, SepElem.OK] <;> decide)
  · simp [Chain, boundary, Lexeme.chars] <;> decide

end SpecVerif.C15
