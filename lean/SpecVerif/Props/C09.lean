/-
C09 — Transport failures terminate cleanly and are never reported as success.

 * `no_partial_frame`: whatever prefix of the byte stream arrives before the cut, the reader
   delivers a prefix of the written messages and never a partial frame (for every message list and
   every cut offset; `Mpx/Frame.lean`).
 * `close_wakes_every_waiter`: every blocking `select` of the library (Send on the window, Send on
   the write queue, Receive, Conn.Channel) has a case that `conn.close()` fires, and `close()`
   really fires them — a theorem over the event sequences REGENERATED from the source on every run
   (`TiesMpx.lean` pins them): cancel of the connection context, closed flag, write-queue close,
   and through `closeChannels → channel.free → channelState.close` the cancel of every channel
   context and the close of every receive queue.
 * `late_open_closed`: a channel registered by the receive loop while the connection is closing
   is always closed once both sides are done, for all interleavings (`Mpx/LateOpen.lean`);
   `late_open_unrepaired` is the schedule on which the pinned code left the handler blocked forever
   (replayed on the implementation by `mpxlate`).
 * recovery of the client is C19's `ondemand_redials` / `auto_rearms`.
Residual (runtime): "within bounded time" is measured by the fault-injection scenario (2 s).
-/
import SpecVerif.Props.C03
import SpecVerif.PinnedMpx
import SpecVerif.Mpx.LateOpen
namespace SpecVerif.C09
open SpecVerif SpecVerif.Mpx

/-- no partial frame is ever delivered as a message -/
theorem no_partial_frame (ms : List Bytes) (hm : ∀ m ∈ ms, m.length < 2 ^ 32) (k : Nat) :
    ∃ j, (Frame.readAll (ms.length + 1) ((Frame.stream ms).take k)).1 = ms.take j :=
  C03.frames_cut ms hm k

/-- the select cases that a connection close makes ready -/
def firedByClose : List String :=
  ["select-case <-s.ctx.Wait()",                    -- channel context, cancelled by channelState.close
   "select-case <-c.writeq.WriteWait(len(b))",      -- write queue closed by conn.close
   "select-case <-wait",                            -- wait := ch.ReceiveWait(): the receive queue is closed by
                                                    -- channelState.close, which posts its notification
                                                    -- (WakeProps.parked_closed_wakes)
   "select-case <-c.closed.Wait()"]                 -- closed flag set by conn.close

/-- the blocking operations of the library (their pinned event sequences) -/
def blockingOps : List (String × List String) :=
  [("Send/window", PinnedMpx.ev_state_decrementSendWindow), ("Send/queue", PinnedMpx.ev_conn_send),
   ("Receive", PinnedMpx.ev_channel_Receive), ("Conn.Channel", PinnedMpx.ev_conn_Channel)]

set_option maxRecDepth 100000 in
/-- every blocked operation selects on something that close() fires; close() fires all of them -/
theorem close_wakes_every_waiter :
    (∀ op ∈ blockingOps, ∃ e ∈ op.2, e ∈ firedByClose) ∧
    "call ch.ReceiveWait()" ∈ PinnedMpx.ev_channel_Receive ∧
    "call s.recvQueue.ReadWait()" ∈ PinnedMpx.ev_channel_ReceiveWait ∧
    "call c.ctx.Cancel()" ∈ PinnedMpx.ev_conn_close ∧ "call c.closed.Set()" ∈ PinnedMpx.ev_conn_close ∧
    "call c.writeq.Close()" ∈ PinnedMpx.ev_conn_close ∧ "call c.closeChannels()" ∈ PinnedMpx.ev_conn_close ∧
    "call ch.free()" ∈ PinnedMpx.ev_conn_closeChannels ∧ "call s.close()" ∈ PinnedMpx.ev_channel_free ∧
    "call s.ctx.Cancel()" ∈ PinnedMpx.ev_state_close ∧ "call s.recvQueue.Close()" ∈ PinnedMpx.ev_state_close := by
  decide

/-- inductive invariant of the repaired protocol (decidable; the state space is finite) -/
def lateInv (s : LateOpen.State) : Bool :=
  (s.closer == .start || s.flag) &&
  (s.reg != .start || (!s.inMap && !s.chClosed)) &&
  (!(s.reg == .registered && !s.chClosed) || s.inMap) &&
  (!(s.reg == .done && !s.chClosed) || (s.inMap && s.closer != .ranged))

theorem lateInv_step (s s' : LateOpen.State) (a : LateOpen.Action) (hi : lateInv s = true)
    (hs : LateOpen.step true s a = some s') : lateInv s' = true := by
  obtain ⟨flag, inMap, chClosed, handler, reg, closer⟩ := s
  cases a <;> cases reg <;> cases closer <;> cases flag <;> cases inMap <;> cases chClosed <;> cases handler <;>
    simp only [LateOpen.step] at hs <;> (try (split at hs)) <;> (try cases hs) <;>
    first | (exact absurd hi (by decide)) | decide | (simp_all (config := { decide := true }))

theorem lateInv_run (s : LateOpen.State) (hi : lateInv s = true) (as : List LateOpen.Action) :
    lateInv (LateOpen.run true s as) = true := by
  induction as generalizing s with
  | nil => exact hi
  | cons a as ih =>
    simp only [LateOpen.run]
    cases hs : LateOpen.step true s a with
    | none => exact ih s hi
    | some s' => exact ih s' (lateInv_step s s' a hi hs)

/-- repaired receiveOpen: once the registration and the closer have both finished, the channel is
closed — for every interleaving -/
theorem late_open_closed (as : List LateOpen.Action)
    (hr : (LateOpen.run true LateOpen.init as).reg = .done)
    (hc : (LateOpen.run true LateOpen.init as).closer = .ranged) :
    (LateOpen.run true LateOpen.init as).chClosed = true := by
  have hi := lateInv_run LateOpen.init (by decide) as
  generalize LateOpen.run true LateOpen.init as = t at *
  obtain ⟨flag, inMap, chClosed, handler, reg, closer⟩ := t
  simp only at hr hc
  subst hr hc
  cases chClosed
  · revert hi; cases flag <;> cases inMap <;> cases handler <;> decide
  · rfl

/-- the pinned receiveOpen (no re-check): registration, close flag + range before the channel is in
the map … the channel is never closed although everybody is done -/
theorem late_open_unrepaired :
    let s := LateOpen.run false LateOpen.init [.closeStep, .closeStep, .regStep, .regStep]
    s.reg = .done ∧ s.closer = .ranged ∧ s.handler = true ∧ s.chClosed = false := by decide

end SpecVerif.C09
