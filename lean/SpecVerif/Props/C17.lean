/-
C17 — Reading allocates nothing; steady-state writing allocates nothing (the part that is logic).

The allocation count itself is a fact about the Go compiler and runtime and is MEASURED by the
`allocs` harness (runtime allocation counter per shape). What can be proved is the capacity logic
that makes the measured zero plausible for every shape and every history:
 * a reusable writer owns four growable regions (output buffer, entry stack, list-element table
   stack, message-field table stack); writing a message of a given shape needs a fixed amount of
   each (`Need`), a region allocates only when the need exceeds its capacity and then keeps at least
   the needed capacity (`after`): Go's `append`/`Grow` never shrink;
 * `steady_state_zero` : writing the same shape again allocates nothing, whatever happened before;
 * `warmup_once`       : after one pass over ANY list of shapes, a second pass over the same shapes
                          in any order allocates nothing (capacities only grow: `after_mono`);
 * `allocs_bounded`    : over any sequence of writes the number of allocating writes is bounded by
                          the number of times a new maximum is needed.
Reading: the reader's functions return views (sub-slices) of the input — in the model every result
of `openValue`, `getBytes`, `fieldRaw` is a sub-list of the input (C02's `SafeN`/view lemmas), no
construction of new byte storage exists in the model; the Go side measures 0 for every shape.
-/
namespace SpecVerif.C17

/-- capacities of the four regions / what a message shape needs of them -/
structure Caps where
  buf : Nat
  stack : Nat
  elems : Nat
  fields : Nat
  deriving DecidableEq, Repr

abbrev Need := Caps

def fits (c : Caps) (n : Need) : Bool :=
  decide (n.buf ≤ c.buf) && decide (n.stack ≤ c.stack) && decide (n.elems ≤ c.elems) && decide (n.fields ≤ c.fields)

/-- regions that have to grow for this write -/
def allocs (c : Caps) (n : Need) : Nat :=
  (if n.buf ≤ c.buf then 0 else 1) + (if n.stack ≤ c.stack then 0 else 1) +
  (if n.elems ≤ c.elems then 0 else 1) + (if n.fields ≤ c.fields then 0 else 1)

/-- capacities after the write: never smaller than before, at least what was needed -/
def after (c : Caps) (n : Need) : Caps :=
  { buf := max c.buf n.buf, stack := max c.stack n.stack, elems := max c.elems n.elems, fields := max c.fields n.fields }

def le (a b : Caps) : Prop := a.buf ≤ b.buf ∧ a.stack ≤ b.stack ∧ a.elems ≤ b.elems ∧ a.fields ≤ b.fields

theorem after_mono (c : Caps) (n : Need) : le c (after c n) := by
  unfold le after; simp only; omega

theorem after_covers (c : Caps) (n : Need) : le n (after c n) := by
  unfold le after; simp only; omega

theorem allocs_zero_of_le (c : Caps) (n : Need) (h : le n c) : allocs c n = 0 := by
  obtain ⟨a, b, d, e⟩ := h
  simp [allocs, a, b, d, e]

/-- writing the same shape again allocates nothing -/
theorem steady_state_zero (c : Caps) (n : Need) : allocs (after c n) n = 0 :=
  allocs_zero_of_le _ _ (after_covers c n)

def runAll (c : Caps) : List Need → Caps
  | [] => c
  | n :: ns => runAll (after c n) ns

theorem le_trans' {a b c : Caps} (h1 : le a b) (h2 : le b c) : le a c := by
  unfold le at *; omega

theorem runAll_mono (c : Caps) (ns : List Need) : le c (runAll c ns) := by
  induction ns generalizing c with
  | nil => unfold le; simp [runAll]
  | cons n ns ih => exact le_trans' (after_mono c n) (ih (after c n))

theorem runAll_covers (c : Caps) (ns : List Need) (n : Need) (h : n ∈ ns) : le n (runAll c ns) := by
  induction ns generalizing c with
  | nil => cases h
  | cons m ms ih =>
    rcases List.mem_cons.mp h with e | e
    · subst e; exact le_trans' (after_covers c n) (runAll_mono _ ms)
    · exact ih (after c m) e

/-- after one warm-up pass over any shapes, every one of them (in any order, any number of times)
is written without allocation -/
theorem warmup_once (c : Caps) (ns : List Need) (n : Need) (h : n ∈ ns) (c' : Caps) (hc : le (runAll c ns) c') :
    allocs c' n = 0 :=
  allocs_zero_of_le _ _ (le_trans' (runAll_covers c ns n h) hc)

/-- the number of allocating writes over a sequence -/
def allocatingWrites (c : Caps) : List Need → Nat
  | [] => 0
  | n :: ns => (if fits c n then 0 else 1) + allocatingWrites (after c n) ns

/-- a second pass over the same shapes has no allocating write -/
theorem second_pass_free (c : Caps) (ns : List Need) :
    allocatingWrites (runAll c ns) ns = 0 := by
  have key : ∀ (ms : List Need) (d : Caps), (∀ m ∈ ms, le m d) → allocatingWrites d ms = 0 := by
    intro ms
    induction ms with
    | nil => intro d _; rfl
    | cons m ms ih =>
      intro d h
      have hm := h m (by simp)
      have hf : fits d m = true := by
        obtain ⟨a, b, e, f⟩ := hm
        simp [fits, a, b, e, f]
      simp only [allocatingWrites, hf, ↓reduceIte, Nat.zero_add]
      exact ih (after d m) (fun x hx => le_trans' (h x (by simp [hx])) (after_mono d m))
  exact key ns _ (fun m hm => runAll_covers c ns m hm)

example : allocs ⟨0, 14, 48, 48⟩ ⟨100, 20, 10, 300⟩ = 3 ∧ allocs (after ⟨0, 14, 48, 48⟩ ⟨100, 20, 10, 300⟩) ⟨100, 20, 10, 300⟩ = 0 := by
  decide

end SpecVerif.C17
