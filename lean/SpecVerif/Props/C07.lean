/-
C07 — Flow control bounds unacknowledged data and never deadlocks.

Model: `Mpx/Flow.lean` (one direction of one channel). The theorems hold for EVERY window `W`
(including 1 and odd values), every sequence of message sizes and every interleaving of the sender,
the network and the receiver — induction over schedules of any length:
 * `conservation`: window + bytes in flight + bytes queued + bytes consumed-but-unacknowledged +
   window updates in flight = W, always (the closing payload included);
 * `admit_bound`: right after a message of size n is admitted the unacknowledged payload is at most
   max(W, W − ⌊W/2⌋ + n); `only_sender_debits`: nothing else ever increases it;
 * `ack_rule`: the receiver never sits on ⌊W/2⌋ or more consumed bytes;
 * `outstanding_bounded`: the same bound as an invariant of every reachable state before the close;
   `blocked_send_admitted`: from EVERY reachable state with a parked Send the fair schedule (deliver,
   consume, acknowledge, wake, re-read, test) admits it — liveness, not only absence of deadlock;
 * `no_deadlock`: whenever the sender is blocked, a network/receiver step is enabled or the wake-up
   token is there; `quiescent_admits`: once everything in flight has been delivered, consumed and
   acknowledged the admission test succeeds for EVERY size, so under fair delivery (finitely many
   network/receiver steps empty the queues) every blocked Send is eventually admitted.
-/
import SpecVerif.Mpx.Flow
namespace SpecVerif.C07
open SpecVerif.Mpx.Flow

theorem sum_nil : sum [] = 0 := rfl
theorem sum_cons (n : Nat) (l : List Nat) : sum (n :: l) = n + sum l := by
  unfold sum; simp [List.sum_cons]
theorem sum_snoc (l : List Nat) (n : Nat) : sum (l ++ [n]) = sum l + n := by
  unfold sum; simp [List.sum_append]
theorem sum_nonneg (l : List Nat) : 0 ≤ sum l := by unfold sum; omega

structure Inv (s : State) : Prop where
  cons : s.win + sum s.wire + sum s.rq + s.rb + sum s.acks = s.W
  ack : s.rb = 0 ∨ s.rb < s.W / 2
  loaded_le : ∀ w n, s.pc = .loaded w n → w ≤ s.win
  loaded_tok : ∀ w n, s.pc = .loaded w n → (s.slot = true ∨ s.win = w)
  waiting_tok : ∀ n, s.pc = .waiting n → (s.slot = true ∨ admissible s.W s.win n = false)

theorem inv_init (W : Nat) : Inv (init W) := by
  refine ⟨by simp [init, sum], Or.inl rfl, ?_, ?_, ?_⟩ <;> intros <;> simp [init] at *

theorem W_const (s s' : State) (a : Action) (h : step s a = some s') : s'.W = s.W := by
  cases a <;> simp only [step] at h
  all_goals (repeat' split at h) <;> (try cases h) <;> simp_all

theorem inv_step (s s' : State) (a : Action) (hi : Inv s) (h : step s a = some s') : Inv s' := by
  obtain ⟨hc, hack, hle, htok, hwait⟩ := hi
  cases a <;> simp only [step] at h
  case sendOpen n =>
    split at h
    · rename_i hcond; cases h
      simp only [Bool.and_eq_true, Bool.not_eq_eq_eq_not, Bool.not_true, decide_eq_true_eq] at hcond
      refine ⟨by simp only [sum_snoc]; omega, hack, ?_, ?_, ?_⟩ <;> intros <;> simp_all
    · cases h
  case send n =>
    split at h
    · cases h
      refine ⟨hc, hack, ?_, ?_, ?_⟩ <;> intros <;> simp_all
    · cases h
  case load =>
    split at h
    · cases h
      refine ⟨hc, hack, ?_, ?_, ?_⟩
      · intro w n hp; simp only [SPC.loaded.injEq] at hp; dsimp only; omega
      · intro w n hp; simp only [SPC.loaded.injEq] at hp; right; dsimp only; omega
      · intro n hp; simp at hp
    · cases h
  case decide =>
    split at h
    · rename_i w n hpc
      split at h
      · cases h
        refine ⟨by simp only [sum_snoc]; omega, hack, ?_, ?_, ?_⟩ <;> intros <;> simp_all
      · rename_i hna
        cases h
        refine ⟨hc, hack, ?_, ?_, ?_⟩
        · intro w' n' hp; simp at hp
        · intro w' n' hp; simp at hp
        · intro n' hp
          simp only [SPC.waiting.injEq] at hp
          subst hp
          rcases htok w n hpc with ht | ht
          · left; exact ht
          · right; rw [ht]; simpa using hna
    · cases h
  case wake =>
    split at h
    · split at h
      · cases h
        refine ⟨hc, hack, ?_, ?_, ?_⟩ <;> intros <;> simp_all
      · cases h
    · cases h
  case deliverData =>
    split at h
    · rename_i n rest hw
      cases h
      refine ⟨by simp only [sum_snoc]; rw [hw, sum_cons] at hc; omega, hack, hle, htok, hwait⟩
    · cases h
  case consume =>
    split at h
    · rename_i n rest hq
      rw [hq, sum_cons] at hc
      split at h
      · rename_i hlt
        cases h
        exact ⟨by simp only; omega, Or.inr hlt, hle, htok, hwait⟩
      · cases h
        exact ⟨by simp only [sum_snoc]; omega, Or.inl rfl, hle, htok, hwait⟩
    · cases h
  case deliverWindow =>
    split at h
    · rename_i d rest ha
      rw [ha, sum_cons] at hc
      cases h
      refine ⟨by simp only; omega, hack, ?_, ?_, ?_⟩
      · intro w n hp; have := hle w n hp; have := sum_nonneg rest; simp only; omega
      · intro w n hp; left; rfl
      · intro n hp; left; rfl
    · cases h
  case sendClose n =>
    split at h
    · rename_i hcond; cases h
      simp only [Bool.and_eq_true, Bool.not_eq_eq_eq_not, Bool.not_true, decide_eq_true_eq] at hcond
      refine ⟨by simp only [sum_snoc]; omega, hack, ?_, ?_, ?_⟩ <;> intros <;> simp_all
    · cases h

theorem inv_run (s : State) (hi : Inv s) (as : List Action) : Inv (run s as) := by
  induction as generalizing s with
  | nil => exact hi
  | cons a as ih =>
    simp only [run]
    cases h : step s a with
    | none => exact ih s hi
    | some s' => exact ih s' (inv_step s s' a hi h)

/-- conservation of the window, for every W, every schedule -/
theorem conservation (W : Nat) (as : List Action) :
    let s := run (init W) as
    s.win + sum s.wire + sum s.rq + s.rb + sum s.acks = s.W := (inv_run _ (inv_init W) as).cons

/-- the receiver never sits on half a window of consumed, unacknowledged bytes -/
theorem ack_rule (W : Nat) (as : List Action) :
    (run (init W) as).rb = 0 ∨ (run (init W) as).rb < (run (init W) as).W / 2 :=
  (inv_run _ (inv_init W) as).ack

/-- right after admitting a message of size n the unacknowledged payload (W − window) is at most
max(W, W − ⌊W/2⌋ + n) -/
theorem admit_bound (s s' : State) (w : Int) (n : Nat) (hi : Inv s) (hpc : s.pc = .loaded w n)
    (hadm : admissible s.W w n = true) (h : step s .decide = some s') :
    s.W - s'.win ≤ max (s.W : Int) (s.W - (s.W / 2 : Nat) + n) := by
  have hle := hi.loaded_le w n hpc
  simp only [step, hpc, hadm, ↓reduceIte] at h
  cases h
  simp only [admissible, Bool.or_eq_true, decide_eq_true_eq] at hadm
  simp only
  rcases hadm with h1 | h1 <;> omega

/-- only the sender's own admissions (and the exempt closing payload) increase the unacknowledged
payload: every other step leaves the window unchanged or increases it -/
theorem only_sender_debits (s s' : State) (a : Action) (h : step s a = some s')
    (ha : a = .load ∨ a = .wake ∨ a = .deliverData ∨ a = .consume ∨ a = .deliverWindow ∨ (∃ n, a = .send n)) :
    s.win ≤ s'.win := by
  rcases ha with rfl | rfl | rfl | rfl | rfl | ⟨n, rfl⟩ <;> simp only [step] at h <;>
    (repeat' split at h) <;> (try cases h) <;> simp_all <;> omega

/-- no deadlock: a blocked sender always has an enabled environment step or its wake-up token -/
theorem no_deadlock (W : Nat) (as : List Action) (n : Nat)
    (hw : (run (init W) as).pc = .waiting n) :
    let s := run (init W) as
    s.wire ≠ [] ∨ s.rq ≠ [] ∨ s.acks ≠ [] ∨ s.slot = true := by
  intro s
  have hi := inv_run _ (inv_init W) as
  by_cases h1 : s.wire = []
  · by_cases h2 : s.rq = []
    · by_cases h3 : s.acks = []
      · right; right; right
        rcases hi.waiting_tok n hw with ht | ht
        · exact ht
        · exfalso
          have hc := hi.cons
          have ha := hi.ack
          rw [show (run (init W) as).wire = [] from h1, show (run (init W) as).rq = [] from h2,
            show (run (init W) as).acks = [] from h3] at hc
          simp only [sum_nil] at hc
          simp only [admissible, Bool.or_eq_false_iff, decide_eq_false_iff_not] at ht
          omega
      · right; right; left; exact h3
    · right; left; exact h2
  · left; exact h1

/-- once everything in flight is delivered, consumed and acknowledged, the admission test succeeds
for EVERY message size: the two sides can never both wait -/
theorem quiescent_admits (s : State) (hi : Inv s) (h1 : s.wire = []) (h2 : s.rq = []) (h3 : s.acks = [])
    (n : Nat) : admissible s.W s.win n = true := by
  have hc := hi.cons
  have ha := hi.ack
  rw [h1, h2, h3] at hc
  simp only [sum_nil] at hc
  simp only [admissible, Bool.or_eq_true, decide_eq_true_eq]
  right; omega

/-! ### the bound for every reachable state (not only right after an admission) -/

/-- largest size admitted so far -/
def maxl (l : List Nat) : Nat := l.foldr max 0

theorem maxl_snoc (l : List Nat) (n : Nat) : maxl (l ++ [n]) = max (maxl l) n := by
  induction l with
  | nil => simp [maxl]
  | cons a l ih => simp only [maxl, List.cons_append, List.foldr_cons] at *; rw [ih]; omega

/-- the statement of the property as an invariant: until the closing SendAndClose the unacknowledged
payload W − window is at most max(W, W − ⌊W/2⌋ + largest admitted size) -/
def Bound (s : State) : Prop :=
  s.closed = false → (s.W : Int) - s.win ≤ max (s.W : Int) (s.W - (s.W / 2 : Nat) + maxl s.admitted)

/-- before the first message nothing was debited and no Send is in progress -/
def Fresh (s : State) : Prop := s.opened = false → (s.win = s.W ∧ s.pc = .idle)

theorem fresh_init (W : Nat) : Fresh (init W) := by intro _; exact ⟨rfl, rfl⟩

theorem fresh_step (s s' : State) (a : Action) (hi : Inv s) (hf : Fresh s) (h : step s a = some s') : Fresh s' := by
  have hc := hi.cons
  unfold Fresh at *
  cases a <;> simp only [step] at h
  case sendOpen n => split at h <;> cases h; intro ho; simp at ho
  case send n => split at h <;> cases h; intro ho; simp_all
  case load => split at h <;> cases h; intro ho; have := hf ho; simp_all
  case decide =>
    split at h
    next w n hpc =>
      split at h <;> cases h <;> intro ho <;> have := hf ho <;> simp_all
    next => cases h
  case wake =>
    split at h
    · split at h <;> cases h; intro ho; have := hf ho; simp_all
    · cases h
  case deliverData => split at h <;> cases h; intro ho; exact hf ho
  case consume =>
    split at h
    · split at h <;> cases h <;> intro ho <;> exact hf ho
    · cases h
  case deliverWindow =>
    split at h
    next d rest hacks =>
      cases h; intro ho; have hw := hf ho
      rw [hacks, sum_cons] at hc
      have := sum_nonneg s.wire; have := sum_nonneg s.rq; have := sum_nonneg rest
      refine ⟨?_, hw.2⟩
      have := hw.1
      simp only; omega
    next => cases h
  case sendClose n => split at h <;> cases h; intro ho; simp at ho

theorem bound_init (W : Nat) : Bound (init W) := by
  intro _; simp only [init]; omega

theorem bound_step (s s' : State) (a : Action) (hi : Inv s) (hf : Fresh s) (hb : Bound s) (h : step s a = some s') : Bound s' := by
  have hle := hi.loaded_le
  unfold Bound at *
  cases a <;> simp only [step] at h
  case sendOpen n =>
    split at h
    next hg =>
      cases h; intro hc
      simp only [Bool.and_eq_true, Bool.not_eq_eq_eq_not, Bool.not_true, decide_eq_true_eq] at hg
      have hw := (hf hg.1.1).1
      simp only [maxl_snoc] at *
      generalize hm : max (maxl s.admitted) n = m
      have h1 : maxl s.admitted ≤ m := by omega
      have h2 : n ≤ m := by omega
      omega
    · cases h
  case send n => split at h <;> cases h <;> simpa using hb
  case load => split at h <;> cases h <;> simpa using hb
  case decide =>
    split at h
    next w n hpc =>
      split at h
      next hadm =>
        cases h; intro hc
        have := hle w n hpc
        simp only [admissible, Bool.or_eq_true, decide_eq_true_eq] at hadm
        have hb' := hb (by simpa using hc)
        simp only [maxl_snoc]
        generalize hm : max (maxl s.admitted) n = m
        have h2 : maxl s.admitted ≤ m := by omega
        have h3 : n ≤ m := by omega
        rcases hadm with h1 | h1 <;> omega
      next => cases h; simpa using hb
    next => cases h
  case wake =>
    split at h
    · split at h <;> cases h; simpa using hb
    · cases h
  case deliverData => split at h <;> cases h <;> simpa using hb
  case consume =>
    split at h
    · split at h <;> cases h <;> simpa using hb
    · cases h
  case deliverWindow =>
    split at h
    next d rest hacks => cases h; intro hc; have := hb hc; simp only at *; omega
    next => cases h
  case sendClose n =>
    split at h
    · cases h; intro hc; simp at hc
    · cases h

theorem bound_run (s : State) (hi : Inv s) (hf : Fresh s) (hb : Bound s) (as : List Action) : Bound (run s as) := by
  induction as generalizing s with
  | nil => exact hb
  | cons a as ih =>
    simp only [run]
    cases h : step s a with
    | none => exact ih s hi hf hb
    | some s' => exact ih s' (inv_step s s' a hi h) (fresh_step s s' a hi hf h) (bound_step s s' a hi hf hb h)

/-- C07, first sentence, for EVERY window, size sequence and interleaving: in every reachable state
before the closing SendAndClose the unacknowledged payload is within max(W, W − ⌊W/2⌋ + size) for the
largest size admitted so far (the first, untested, message included) -/
theorem outstanding_bounded (W : Nat) (as : List Action) :
    let s := run (init W) as
    s.closed = false → (s.W : Int) - s.win ≤ max (s.W : Int) (s.W - (s.W / 2 : Nat) + maxl s.admitted) :=
  bound_run _ (inv_init W) (fresh_init W) (bound_init W) as

/-- and the closing payload is the only excess: after SendAndClose(n) the bound grows by exactly n -/
theorem close_exempt (s s' : State) (n : Nat) (hb : Bound s) (hc : s.closed = false)
    (h : step s (.sendClose n) = some s') :
    (s'.W : Int) - s'.win ≤ max (s.W : Int) (s.W - (s.W / 2 : Nat) + maxl s.admitted) + n := by
  have := hb hc
  simp only [step] at h
  split at h
  · cases h; simp only; omega
  · cases h

/-! ### liveness under fair delivery: a blocked Send IS admitted after finitely many steps -/

theorem drain_wire (k : Nat) (s : State) (hk : s.wire.length ≤ k) :
    (run s (List.replicate k .deliverData)).wire = [] ∧
    (run s (List.replicate k .deliverData)).pc = s.pc ∧
    (run s (List.replicate k .deliverData)).acks.length = s.acks.length ∧
    (run s (List.replicate k .deliverData)).rq.length = s.rq.length + s.wire.length ∧
    (run s (List.replicate k .deliverData)).admitted = s.admitted := by
  induction k generalizing s with
  | zero =>
    have : s.wire = [] := List.length_eq_zero_iff.mp (by omega)
    simp [run, this]
  | succ k ih =>
    simp only [List.replicate_succ, run, step]
    cases hw : s.wire with
    | nil => simp only; have := ih s (by simp [hw]); simpa [hw] using this
    | cons n rest =>
      simp only
      have := ih { s with wire := rest, rq := s.rq ++ [n] } (by simp [hw] at hk ⊢; omega)
      simp only [List.length_append, List.length_cons, List.length_nil] at this ⊢
      refine ⟨this.1, this.2.1, this.2.2.1, ?_, this.2.2.2.2⟩
      omega

theorem drain_rq (k : Nat) (s : State) (hk : s.rq.length ≤ k) :
    (run s (List.replicate k .consume)).rq = [] ∧
    (run s (List.replicate k .consume)).wire = s.wire ∧
    (run s (List.replicate k .consume)).pc = s.pc ∧
    (run s (List.replicate k .consume)).acks.length ≤ s.acks.length + s.rq.length ∧
    (run s (List.replicate k .consume)).admitted = s.admitted := by
  induction k generalizing s with
  | zero =>
    have : s.rq = [] := List.length_eq_zero_iff.mp (by omega)
    simp [run, this]
  | succ k ih =>
    simp only [List.replicate_succ, run]
    cases hw : s.rq with
    | nil =>
      have hs : step s .consume = none := by simp [step, hw]
      rw [hs]; simp only; have := ih s (by simp [hw]); simpa [hw] using this
    | cons n rest =>
      by_cases hlt : s.rb + n < s.W / 2
      · have hs : step s .consume = some { s with rq := rest, rb := s.rb + n } := by simp [step, hw, hlt]
        rw [hs]; simp only
        have := ih { s with rq := rest, rb := s.rb + n } (by simp [hw] at hk ⊢; omega)
        simp only [List.length_cons] at this ⊢
        exact ⟨this.1, this.2.1, this.2.2.1, by omega, this.2.2.2.2⟩
      · have hs : step s .consume = some { s with rq := rest, rb := 0, acks := s.acks ++ [s.rb + n] } := by
          simp [step, hw, hlt]
        rw [hs]; simp only
        have := ih { s with rq := rest, rb := 0, acks := s.acks ++ [s.rb + n] } (by simp [hw] at hk ⊢; omega)
        simp only [List.length_cons, List.length_append, List.length_nil] at this ⊢
        exact ⟨this.1, this.2.1, this.2.2.1, by omega, this.2.2.2.2⟩

theorem drain_acks (k : Nat) (s : State) (hk : s.acks.length ≤ k) :
    (run s (List.replicate k .deliverWindow)).acks = [] ∧
    (run s (List.replicate k .deliverWindow)).wire = s.wire ∧
    (run s (List.replicate k .deliverWindow)).rq = s.rq ∧
    (run s (List.replicate k .deliverWindow)).pc = s.pc ∧
    (run s (List.replicate k .deliverWindow)).admitted = s.admitted := by
  induction k generalizing s with
  | zero =>
    have : s.acks = [] := List.length_eq_zero_iff.mp (by omega)
    simp [run, this]
  | succ k ih =>
    simp only [List.replicate_succ, run, step]
    cases hw : s.acks with
    | nil => simp only; have := ih s (by simp [hw]); simpa [hw] using this
    | cons d rest =>
      simp only
      have := ih { s with acks := rest, win := s.win + d, slot := true } (by simp [hw] at hk ⊢; omega)
      simpa using this

theorem run_append (s : State) (as bs : List Action) : run s (as ++ bs) = run (run s as) bs := by
  induction as generalizing s with
  | nil => rfl
  | cons a as ih => simp only [List.cons_append, run]; split <;> exact ih _

/-- the fair environment schedule: deliver every data frame, consume every message, deliver every
window update (steps that are not enabled are skipped by `run`), then the sender's own retry -/
def fairSchedule (s : State) : List Action :=
  List.replicate s.wire.length .deliverData ++
  (List.replicate (s.rq.length + s.wire.length) .consume ++
  (List.replicate (s.acks.length + s.rq.length + s.wire.length) .deliverWindow ++
  [.wake, .load, .decide]))

/-- C07, second sentence, as a theorem about EVERY reachable state: a Send of any size n that is parked
is admitted by the fair schedule — the network delivers, the receiver consumes, the window updates
arrive, the sender wakes, re-reads the window and passes the admission test. No window size, size
sequence or earlier interleaving leaves both sides waiting. -/
theorem blocked_send_admitted (s : State) (hi : Inv s) (n : Nat) (hw : s.pc = .waiting n) :
    (run s (fairSchedule s)).pc = .idle ∧ (run s (fairSchedule s)).admitted = s.admitted ++ [n] := by
  unfold fairSchedule
  rw [run_append, run_append, run_append]
  obtain ⟨a1, a2, a3, a4, a5⟩ := drain_wire s.wire.length s (Nat.le_refl _)
  generalize hs1 : run s (List.replicate s.wire.length .deliverData) = s1 at *
  obtain ⟨b1, b2, b3, b4, b5⟩ := drain_rq (s.rq.length + s.wire.length) s1 (by omega)
  generalize hs2 : run s1 (List.replicate (s.rq.length + s.wire.length) .consume) = s2 at *
  obtain ⟨c1, c2, c3, c4, c5⟩ := drain_acks (s.acks.length + s.rq.length + s.wire.length) s2 (by omega)
  generalize hs3 : run s2 (List.replicate (s.acks.length + s.rq.length + s.wire.length) .deliverWindow) = s3 at *
  have hi3 : Inv s3 := by
    rw [← hs3, ← hs2, ← hs1]; exact inv_run _ (inv_run _ (inv_run _ hi _) _) _
  have hpc : s3.pc = .waiting n := by rw [c4, b3, a2, hw]
  have hwire : s3.wire = [] := by rw [c2, b2, a1]
  have hrq : s3.rq = [] := by rw [c3, b1]
  have hadm := quiescent_admits s3 hi3 hwire hrq c1
  have hslot : s3.slot = true := by
    rcases hi3.waiting_tok n hpc with h | h
    · exact h
    · rw [hadm n] at h; cases h
  have hadm3 : s3.admitted = s.admitted := by rw [c5, b5, a5]
  simp only [run, step, hpc, hslot, ↓reduceIte, hadm n, hadm3]
  exact ⟨trivial, trivial⟩

/-- the same for every reachable state of every window and schedule -/
theorem blocked_send_admitted_reachable (W : Nat) (as : List Action) (n : Nat)
    (hw : (run (init W) as).pc = .waiting n) :
    (run (run (init W) as) (fairSchedule (run (init W) as))).pc = .idle ∧
    (run (run (init W) as) (fairSchedule (run (init W) as))).admitted = (run (init W) as).admitted ++ [n] :=
  blocked_send_admitted _ (inv_run _ (inv_init W) as) n hw

/-- a Send that has read the window completes: it is admitted at once or parked and then admitted -/
theorem loaded_send_completes (s : State) (hi : Inv s) (w : Int) (n : Nat) (hpc : s.pc = .loaded w n) :
    ∃ as, (run s as).pc = .idle ∧ (run s as).admitted = s.admitted ++ [n] := by
  by_cases hadm : admissible s.W w n = true
  · refine ⟨[.decide], ?_⟩
    simp [run, step, hpc, hadm]
  · have hs : step s .decide = some { s with pc := .waiting n } := by simp [step, hpc, hadm]
    have hi' := inv_step s _ .decide hi hs
    obtain ⟨h1, h2⟩ := blocked_send_admitted { s with pc := .waiting n } hi' n rfl
    refine ⟨.decide :: fairSchedule { s with pc := .waiting n }, ?_⟩
    simp only [run, hs]
    exact ⟨h1, h2⟩

/-- C07, liveness for every Send in progress (entered, window read, or parked), from every state that
satisfies the invariant: some finite continuation of the schedule admits it -/
theorem send_completes (s : State) (hi : Inv s) (n : Nat)
    (h : s.pc = .start n ∨ (∃ w, s.pc = .loaded w n) ∨ s.pc = .waiting n) :
    ∃ as, (run s as).pc = .idle ∧ (run s as).admitted = s.admitted ++ [n] := by
  rcases h with h | ⟨w, h⟩ | h
  · have hs : step s .load = some { s with pc := .loaded s.win n } := by simp [step, h]
    have hi' := inv_step s _ .load hi hs
    obtain ⟨as, h1, h2⟩ := loaded_send_completes { s with pc := .loaded s.win n } hi' s.win n rfl
    refine ⟨.load :: as, ?_⟩
    simp only [run, hs]
    exact ⟨h1, h2⟩
  · exact loaded_send_completes s hi w n h
  · exact ⟨fairSchedule s, blocked_send_admitted s hi n h⟩

/-! ### non-vacuity and boundary instances -/

/-- W = 1 (⌊W/2⌋ = 0): a second 1-byte message is still admitted (window 0 ≥ 0), the third blocks
until a window update arrives, then goes out -/
example : (run (init 1) [.sendOpen 1, .send 1, .load, .decide, .send 1, .load, .decide]).pc = .waiting 1 := by
  decide
example : (run (init 1) [.sendOpen 1, .send 1, .load, .decide, .send 1, .load, .decide,
    .deliverData, .consume, .deliverWindow, .wake, .load, .decide]).pc = .idle := by decide
/-- a message larger than the whole window is admitted when at least half the window is free -/
example : (run (init 8) [.sendOpen 1, .send 100, .load, .decide]).admitted = [1, 100] := by decide
/-- the bound is attained: W = 8, first message 4, then 100 is admitted with exactly ⌊W/2⌋ = 4 free: 104 outstanding
= 8 − 4 + 100; and the premise `closed = false` holds there -/
example : let s := run (init 8) [.sendOpen 4, .send 100, .load, .decide]
    s.closed = false ∧ (s.W : Int) - s.win = 104 ∧ maxl s.admitted = 100 := by decide
/-- `blocked_send_admitted` is not vacuous: the W = 1 state above is reachable, parked, and the fair
schedule admits the third message -/
example : let s := run (init 1) [.sendOpen 1, .send 1, .load, .decide, .send 1, .load, .decide]
    s.pc = .waiting 1 ∧ (run s (fairSchedule s)).admitted = [1, 1, 1] := by decide

end SpecVerif.C07
