/-
C03 — MPX channels deliver messages exactly once, in order, uncorrupted.

Two layers, both for every schedule of any length, any number of channels multiplexed on the
connection, any payloads:
 * framing (`Mpx/Frame.lean`): the reader returns exactly the written messages in order
   (`frames_roundtrip`), and whatever prefix of the byte stream has arrived it delivers a prefix of
   the messages and never a partial frame (`frames_cut`, also the basis of C09);
 * delivery (`Mpx/Delivery.lean`): what Receive returned on a channel, followed by what is queued
   for it and what is still in the write queue or on the wire, is exactly what the sender passed to
   Send/SendAndClose on THAT channel (`conservation`); hence delivered is always a prefix of sent
   — same bytes, same order, no duplication, nothing from another channel (`delivered_prefix`);
   and once the close frame has been dispatched and the queue drained, delivered = sent
   (`complete_after_close`).
Compression is outside the model (lz4 is assumed to satisfy decompress ∘ compress = id on the
stream; the scenario check runs with lz4 on and off).
-/
import SpecVerif.Lemmas.Frames
import SpecVerif.Mpx.Delivery
namespace SpecVerif.C03
open SpecVerif SpecVerif.Mpx

theorem frames_roundtrip (ms : List Bytes) (hm : ∀ m ∈ ms, m.length < 2 ^ 32) :
    Frame.readAll (ms.length + 1) (Frame.stream ms) = (ms, []) := by
  have := Frame.readAll_stream ms hm (ms.length + 1) (by omega) [] (by simp [Frame.readOne])
  simpa using this

theorem frames_cut (ms : List Bytes) (hm : ∀ m ∈ ms, m.length < 2 ^ 32) (k : Nat) :
    ∃ j, (Frame.readAll (ms.length + 1) ((Frame.stream ms).take k)).1 = ms.take j :=
  Frame.cut_delivers_prefix ms hm k (ms.length + 1) (by omega)

open Delivery

@[simp] theorem upd_same {α} (f : Nat → α) (c : Nat) (v : α) : upd f c v c = v := by simp [upd]
theorem upd_other {α} (f : Nat → α) (c x : Nat) (v : α) (h : x ≠ c) : upd f c v x = f x := by simp [upd, h]

theorem payloads_append (c : Nat) (a b : List Fr) : payloads c (a ++ b) = payloads c a ++ payloads c b := by
  simp [payloads]

theorem payloads_cons_other (c : Nat) (f : Fr) (l : List Fr) (h : f.ch ≠ c) : payloads c (f :: l) = payloads c l := by
  simp [payloads, h]

theorem payloads_cons_empty (c : Nat) (f : Fr) (l : List Fr) (h : f.data = []) : payloads c (f :: l) = payloads c l := by
  simp [payloads, h]

theorem payloads_cons_same (c : Nat) (f : Fr) (l : List Fr) (h : f.ch = c) (hd : f.data ≠ []) :
    payloads c (f :: l) = f.data :: payloads c l := by
  simp [payloads, h, hd]

/-- invariant for one channel `c` (all other channels only contribute frames that are filtered out) -/
structure Inv (c : Nat) (s : State) : Prop where
  /-- nothing is lost or invented while the receiver has not ended the channel -/
  cons : s.ended c = false → s.closedB c = false →
    s.sent c = s.delivered c ++ s.recvq c ++ payloads c (s.wire ++ s.writeq)
  /-- after the close frame was dispatched everything sent is delivered or queued -/
  closed_all : s.ended c = false → s.closedB c = true →
    s.sent c = s.delivered c ++ s.recvq c ∧ ∀ f ∈ s.wire ++ s.writeq, f.ch ≠ c
  /-- always: delivered ++ queued is a prefix of sent -/
  pre : ∃ rest, s.sent c = s.delivered c ++ s.recvq c ++ rest
  /-- a close frame of `c` is the last frame of `c` in the queues, and exists iff the sender closed
  and the receiver has not seen it yet (or dropped it) -/
  close_last : ∀ pre f post, s.wire ++ s.writeq = pre ++ f :: post → f.ch = c → f.close = true →
    ∀ g ∈ post, g.ch ≠ c
  open_no_close : s.sclosed c = false → s.closedB c = false ∧ ∀ f ∈ s.wire ++ s.writeq, f.ch = c → f.close = false

theorem inv_init (c : Nat) : Inv c init := by
  constructor <;> simp [init, payloads]

theorem payloads_nil_of_no_ch (c : Nat) (l : List Fr) (h : ∀ f ∈ l, f.ch ≠ c) : payloads c l = [] := by
  induction l with
  | nil => rfl
  | cons f l ih =>
    rw [payloads_cons_other c f l (h f (by simp))]
    exact ih (fun g hg => h g (by simp [hg]))

theorem inv_step (c : Nat) (s s' : State) (a : Action) (hi : Inv c s) (h : step s a = some s') : Inv c s' := by
  obtain ⟨hcons, hcl, hpre, hlast, hopen⟩ := hi
  cases a with
  | send c' d cl =>
    simp only [step] at h
    split at h
    · cases h
    · rename_i hsc
      cases h
      by_cases hc : c' = c
      · subst hc
        have hsc' : s.sclosed c' = false := by simpa using hsc
        obtain ⟨hcb, hnoclose⟩ := hopen hsc'
        have hq : s.wire ++ (s.writeq ++ [⟨c', d, cl⟩]) = (s.wire ++ s.writeq) ++ [⟨c', d, cl⟩] := by simp
        refine ⟨?_, ?_, ?_, ?_, ?_⟩
        · intro he _
          simp only
          rw [hq, payloads_append]
          by_cases hd : d = []
          · simp only [hd, ↓reduceIte]
            rw [hcons he hcb]
            simp [payloads]
          · simp only [hd, ↓reduceIte, upd_same]
            rw [hcons he hcb, payloads_cons_same c' _ _ rfl hd]
            simp [payloads]
        · intro _ hb; simp only at hb; rw [hcb] at hb; cases hb
        · obtain ⟨rest, hr⟩ := hpre
          by_cases hd : d = []
          · exact ⟨rest, by simp only [hd, ↓reduceIte]; exact hr⟩
          · exact ⟨rest ++ [d], by simp only [hd, ↓reduceIte, upd_same]; rw [hr]; simp⟩
        · intro pre f post heq hf hfc g hg
          simp only at heq
          rw [hq] at heq
          -- the close frame is either the new last frame or an old one (impossible: sender was open)
          rcases List.append_eq_append_iff.mp heq with ⟨m, h1, h2⟩ | ⟨m, h1, h2⟩
          · -- pre = q ++ m ... then f :: post is inside [new]
            cases m with
            | nil =>
              simp at h2
              obtain ⟨_, h3⟩ := h2
              subst h3; cases hg
            | cons x xs =>
              simp at h2
          · -- q = pre ++ m, f :: post = m ++ [new]
            cases m with
            | nil =>
              simp at h2
              obtain ⟨_, h3⟩ := h2
              subst h3; cases hg
            | cons x xs =>
              simp at h2
              obtain ⟨hx, hxs⟩ := h2
              subst hx
              have hmem : f ∈ s.wire ++ s.writeq := by rw [h1]; simp
              have := hnoclose f hmem hf
              rw [hfc] at this; cases this
        · intro hs
          simp only at hs ⊢
          by_cases hcl' : cl = true
          · simp [hcl'] at hs
          · simp only [hcl', ↓reduceIte] at hs
            refine ⟨hcb, ?_⟩
            intro f hf hfc
            rw [hq] at hf
            rcases List.mem_append.mp hf with h1 | h1
            · exact hnoclose f h1 hfc
            · simp at h1; subst h1; simpa using hcl'
      · -- a frame of another channel
        have hq : s.wire ++ (s.writeq ++ [⟨c', d, cl⟩]) = (s.wire ++ s.writeq) ++ [⟨c', d, cl⟩] := by simp
        have hsent : (if d = [] then s.sent else upd s.sent c' (s.sent c' ++ [d])) c = s.sent c := by
          by_cases hd : d = [] <;> simp [hd, upd, Ne.symm hc]
        have hscl : (if cl = true then upd s.sclosed c' true else s.sclosed) c = s.sclosed c := by
          by_cases hcl' : cl = true <;> simp [hcl', upd, Ne.symm hc]
        have hpay : payloads c (s.wire ++ (s.writeq ++ [⟨c', d, cl⟩])) = payloads c (s.wire ++ s.writeq) := by
          rw [hq, payloads_append, payloads_cons_other c _ _ (by simpa using hc)]; simp [payloads]
        refine ⟨?_, ?_, ?_, ?_, ?_⟩
        · intro he hb; simp only at he hb ⊢; rw [hsent, hpay]; exact hcons he hb
        · intro he hb; simp only at he hb ⊢
          obtain ⟨h1, h2⟩ := hcl he hb
          refine ⟨by rw [hsent]; exact h1, ?_⟩
          intro f hf; rw [hq] at hf
          rcases List.mem_append.mp hf with h3 | h3
          · exact h2 f h3
          · simp at h3; subst h3; simpa using hc
        · simp only; rw [hsent]; exact hpre
        · intro pre f post heq hf hfc g hg
          simp only at heq; rw [hq] at heq
          rcases List.append_eq_append_iff.mp heq with ⟨m, h1, h2⟩ | ⟨m, h1, h2⟩
          · cases m with
            | nil => simp at h2; obtain ⟨h3, _⟩ := h2; subst h3; simp at hf; exact absurd hf hc
            | cons x xs => simp at h2
          · cases m with
            | nil => simp at h2; obtain ⟨h3, _⟩ := h2; subst h3; simp at hf; exact absurd hf hc
            | cons x xs =>
              simp at h2
              obtain ⟨hx, hxs⟩ := h2
              subst hx
              -- post = xs ++ [new]
              rw [hxs] at hg
              rcases List.mem_append.mp hg with h4 | h4
              · exact hlast pre f xs h1 hf hfc g h4
              · simp at h4; subst h4; simpa using hc
        · intro hs; simp only at hs ⊢; rw [hscl] at hs
          obtain ⟨h1, h2⟩ := hopen hs
          refine ⟨h1, ?_⟩
          intro f hf hfc; rw [hq] at hf
          rcases List.mem_append.mp hf with h3 | h3
          · exact h2 f h3 hfc
          · simp at h3; subst h3; simp at hfc; exact absurd hfc hc
  | transmit =>
    simp only [step] at h
    split at h
    · rename_i f rest hw
      cases h
      have hq : (s.wire ++ [f]) ++ rest = s.wire ++ s.writeq := by rw [hw]; simp
      refine ⟨?_, ?_, ?_, ?_, ?_⟩ <;> simp only [hq]
      · exact hcons
      · exact hcl
      · exact hpre
      · exact hlast
      · exact hopen
    · cases h
  | dispatch =>
    simp only [step] at h
    split at h
    · rename_i f rest hw
      have hq : s.wire ++ s.writeq = f :: (rest ++ s.writeq) := by rw [hw]; simp
      by_cases hfc : f.ch = c
      · split at h
        · -- dropped: the receiver ended the channel or has already seen its close
          rename_i hdrop
          cases h
          rw [hfc] at hdrop
          refine ⟨?_, ?_, ?_, ?_, ?_⟩
          · intro he hb; simp only at he hb; rcases hdrop with h1 | h1
            · rw [he] at h1; cases h1
            · rw [hb] at h1; cases h1
          · intro he hb; simp only at he hb
            have := (hcl he hb).2 f (by rw [hq]; simp)
            exact absurd hfc this
          · exact hpre
          · intro pre g post heq hg hgc x hx
            exact hlast (f :: pre) g post (by rw [hq]; simp only at heq; rw [heq]; simp) hg hgc x hx
          · intro hs
            obtain ⟨h1, h2⟩ := hopen hs
            exact ⟨h1, fun g hg => h2 g (by rw [hq]; simp only at hg; simp [hg])⟩
        · rename_i hnd
          cases h
          rw [hfc] at hnd
          have he : s.ended c = false := by
            cases hx : s.ended c <;> simp_all
          have hb : s.closedB c = false := by
            cases hx : s.closedB c <;> simp_all
          have hc0 := hcons he hb
          rw [hq] at hc0
          refine ⟨?_, ?_, ?_, ?_, ?_⟩
          · intro _ hb'
            simp only at hb' ⊢
            have hncl : f.close = false := by
              cases hx : f.close
              · rfl
              · simp [hx, hfc] at hb'
            by_cases hd : f.data = []
            · simp only [hd, ↓reduceIte]
              rw [payloads_cons_empty c f _ hd] at hc0; exact hc0
            · simp only [hd, ↓reduceIte, hfc, upd_same]
              rw [payloads_cons_same c f _ hfc hd] at hc0
              rw [hc0]; simp
          · intro _ hb'
            simp only at hb' ⊢
            have hcl' : f.close = true := by
              cases hx : f.close
              · simp [hx, hb] at hb'
              · rfl
            have hno : ∀ g ∈ rest ++ s.writeq, g.ch ≠ c :=
              hlast [] f (rest ++ s.writeq) (by rw [hq]; simp) hfc hcl'
            have hp0 : payloads c (rest ++ s.writeq) = [] := payloads_nil_of_no_ch c _ hno
            refine ⟨?_, hno⟩
            by_cases hd : f.data = []
            · simp only [hd, ↓reduceIte]
              rw [payloads_cons_empty c f _ hd, hp0] at hc0; simpa using hc0
            · simp only [hd, ↓reduceIte, hfc, upd_same]
              rw [payloads_cons_same c f _ hfc hd, hp0] at hc0
              rw [hc0]; simp
          · by_cases hd : f.data = []
            · simp only [hd, ↓reduceIte]; exact hpre
            · simp only [hd, ↓reduceIte, hfc, upd_same]
              rw [payloads_cons_same c f _ hfc hd] at hc0
              exact ⟨payloads c (rest ++ s.writeq), by rw [hc0]; simp⟩
          · intro pre g post heq hg hgc x hx
            exact hlast (f :: pre) g post (by rw [hq]; simp only at heq; rw [heq]; simp) hg hgc x hx
          · intro hs
            simp only at hs
            obtain ⟨h1, h2⟩ := hopen hs
            have hfcl := h2 f (by rw [hq]; simp) hfc
            refine ⟨?_, fun g hg => h2 g (by rw [hq]; simp only at hg; simp [hg])⟩
            simp only [hfcl, Bool.false_eq_true, ↓reduceIte]; exact h1
      · -- a frame of another channel: nothing about `c` changes
        have hrq : ∀ (r : Nat → List Bytes), (if f.data = [] then r else upd r f.ch (r f.ch ++ [f.data])) c = r c := by
          intro r; by_cases hd : f.data = [] <;> simp [hd, upd, Ne.symm hfc]
        have hcb : (if f.close = true then upd s.closedB f.ch true else s.closedB) c = s.closedB c := by
          by_cases hx : f.close = true <;> simp [hx, upd, Ne.symm hfc]
        have hpay : payloads c (s.wire ++ s.writeq) = payloads c (rest ++ s.writeq) := by
          rw [hq, payloads_cons_other c f _ hfc]
        have key : ∀ s1 : State, (s1.sent = s.sent ∧ s1.sclosed = s.sclosed ∧ s1.writeq = s.writeq ∧ s1.wire = rest ∧
            s1.recvq c = s.recvq c ∧ s1.closedB c = s.closedB c ∧ s1.ended = s.ended ∧ s1.delivered = s.delivered) →
            Inv c s1 := by
          intro s1 ⟨e1, e2, e3, e4, e5, e6, e7, e8⟩
          refine ⟨?_, ?_, ?_, ?_, ?_⟩
          · intro he hb; rw [e1, e8, e5, e4, e3, ← hpay]; exact hcons (by rw [← e7]; exact he) (by rw [← e6]; exact hb)
          · intro he hb
            obtain ⟨h1, h2⟩ := hcl (by rw [← e7]; exact he) (by rw [← e6]; exact hb)
            exact ⟨by rw [e1, e8, e5]; exact h1, fun g hg => h2 g (by rw [hq]; rw [e4, e3] at hg; simp [hg])⟩
          · rw [e1, e8, e5]; exact hpre
          · intro pre g post heq hg hgc x hx
            rw [e4, e3] at heq
            exact hlast (f :: pre) g post (by rw [hq, heq]; simp) hg hgc x hx
          · intro hs; rw [e2] at hs
            obtain ⟨h1, h2⟩ := hopen hs
            exact ⟨by rw [e6]; exact h1, fun g hg => h2 g (by rw [hq]; rw [e4, e3] at hg; simp [hg])⟩
        split at h <;> cases h
        · exact key _ ⟨rfl, rfl, rfl, rfl, rfl, rfl, rfl, rfl⟩
        · exact key _ ⟨rfl, rfl, rfl, rfl, hrq s.recvq, hcb, rfl, rfl⟩
    · cases h
  | receive c' =>
    simp only [step] at h
    split at h
    · rename_i d rest hr
      cases h
      by_cases hc : c' = c
      · subst hc
        refine ⟨?_, ?_, ?_, hlast, hopen⟩
        · intro he hb; simp only [upd_same]; rw [hcons he hb, hr]; simp
        · intro he hb; simp only [upd_same]
          obtain ⟨h1, h2⟩ := hcl he hb
          exact ⟨by rw [h1, hr]; simp, h2⟩
        · obtain ⟨r, hr'⟩ := hpre
          exact ⟨r, by simp only [upd_same]; rw [hr', hr]; simp⟩
      · have e1 : upd s.recvq c' rest c = s.recvq c := upd_other _ _ _ _ (Ne.symm hc)
        have e2 : upd s.delivered c' (s.delivered c' ++ [d]) c = s.delivered c := upd_other _ _ _ _ (Ne.symm hc)
        refine ⟨?_, ?_, ?_, hlast, hopen⟩
        · intro he hb; simp only; rw [e1, e2]; exact hcons he hb
        · intro he hb; simp only; rw [e1, e2]; exact hcl he hb
        · simp only; rw [e1, e2]; exact hpre
    · cases h
  | endLocal c' =>
    simp only [step] at h
    cases h
    by_cases hc : c' = c
    · subst hc
      refine ⟨?_, ?_, hpre, hlast, hopen⟩
      · intro he; simp at he
      · intro he; simp at he
    · have e1 : upd s.ended c' true c = s.ended c := upd_other _ _ _ _ (Ne.symm hc)
      refine ⟨?_, ?_, hpre, hlast, hopen⟩
      · intro he hb; simp only at he; rw [e1] at he; exact hcons he hb
      · intro he hb; simp only at he; rw [e1] at he; exact hcl he hb

theorem inv_run (c : Nat) (s : State) (hi : Inv c s) (as : List Action) : Inv c (run s as) := by
  induction as generalizing s with
  | nil => exact hi
  | cons a as ih =>
    simp only [run]
    cases h : step s a with
    | none => exact ih s hi
    | some s' => exact ih s' (inv_step c s s' a hi h)

/-- nothing is lost, duplicated, reordered or mixed between channels: what was received, what is
queued and what is still in transit for channel `c` is exactly what was sent on `c` -/
theorem conservation (c : Nat) (as : List Action) :
    let s := run init as
    s.ended c = false → s.closedB c = false →
    s.sent c = s.delivered c ++ s.recvq c ++ payloads c (s.wire ++ s.writeq) :=
  (inv_run c _ (inv_init c) as).cons

/-- what Receive returned is always a prefix of what the other side passed to Send/SendAndClose on
that channel -/
theorem delivered_prefix (c : Nat) (as : List Action) :
    (run init as).delivered c <+: (run init as).sent c := by
  obtain ⟨rest, h⟩ := (inv_run c _ (inv_init c) as).pre
  exact ⟨(run init as).recvq c ++ rest, by rw [h]; simp⟩

/-- it is the whole sequence once the close frame has been dispatched and the receiver, which did
not end the channel itself, has drained its queue (Receive returns End only then) -/
theorem complete_after_close (c : Nat) (as : List Action)
    (he : (run init as).ended c = false) (hb : (run init as).closedB c = true)
    (hq : (run init as).recvq c = []) :
    (run init as).delivered c = (run init as).sent c := by
  have := ((inv_run c _ (inv_init c) as).closed_all he hb).1
  rw [hq] at this; simpa using this.symm

end SpecVerif.C03
