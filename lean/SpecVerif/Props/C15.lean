/-
C15 — Schema parser records exactly what the source says, or errors.

 * `parse_print` (token level, all syntax trees): for EVERY well-formed syntax tree — any number of
   imports with or without alias, options, definitions of all five kinds, fields of every type form
   (builtin, local, qualified, `any`, `message`, lists), tags and enum numbers of any size, methods
   with every input/output/channel/oneway combination, contextual keywords as field, method and
   value names — the reference parser applied to the canonical tokens of the tree returns exactly
   that tree: nothing is dropped, reordered or altered. (Well-formed = names are what the lexer can
   produce: identifiers are not keywords, field names are identifiers or contextual keywords.)
 * `parse_injective`: two well-formed trees with the same canonical tokens are equal, i.e. the tree
   is determined by the token sequence (so a parser that returns a tree whose canonical tokens equal
   the source's tokens has recorded the source — this is the harness' `tokens-differ` oracle).
 * `lex_print` (character level): see Props/C15Lex.lean — the lexer model returns the same tokens
   for every choice of white space and comments between them.
Tie: the reference parser and lexer run against the implementation on every generated text
(valid renderings with random layout/optional separators, token- and character-level mutations,
the repository's own .spec files); grammar.y is pinned (regenerated production list) and
grammar.go is regenerated with goyacc (0 conflicts).
-/
import SpecVerif.Lemmas.LangParse
namespace SpecVerif.C15
open SpecVerif.Lang

theorem imports_toks (is : List Import) (his : ∀ i ∈ is, i.WF) (c : Char) (rest : List Tok) (fuel : Nat)
    (hfuel : is.length < fuel) :
    parenMany importP fuel (.p '(' :: ((is.map Import.toks).flatten ++ .p ')' :: rest)) = some (is, rest) := by
  simp only [parenMany, expect_cons_self, Option.bind_some]
  rw [many_toks importP Import.toks is _ (fun i hi r' => importP_toks i (his i hi) r')
    (by simp [importP, strP, identP]) fuel hfuel]
  simp

theorem options_toks (os : List Opt) (rest : List Tok) (fuel : Nat) (hfuel : os.length < fuel) :
    parenMany optP fuel (.p '(' :: ((os.map Opt.toks).flatten ++ .p ')' :: rest)) = some (os, rest) := by
  simp only [parenMany, expect_cons_self, Option.bind_some]
  rw [many_toks optP Opt.toks os _ (fun o _ r' => optP_toks o r') (by simp [optP, identP]) fuel hfuel]
  simp

theorem def_head (d : Def) : ∃ k tl, d.toks = .kw k :: tl ∧ k ≠ .import_ ∧ k ≠ .options := by
  cases d with
  | enum n vs => simp [Def.toks]
  | message n fs => simp [Def.toks]
  | struct n fs => simp [Def.toks]
  | service sub n ms => cases sub <;> simp [Def.toks]

/-- the definitions part never starts with `import` or `options` -/
theorem defs_head (ds : List Def) : (ds.map Def.toks).flatten = [] ∨
    ∃ k tl, (ds.map Def.toks).flatten = .kw k :: tl ∧ k ≠ .import_ ∧ k ≠ .options := by
  cases ds with
  | nil => left; rfl
  | cons d ds =>
    right
    obtain ⟨k, tl, e, h1, h2⟩ := def_head d
    exact ⟨k, tl ++ (ds.map Def.toks).flatten, by simp [e], h1, h2⟩

theorem importsP_skip (fuel : Nat) (ts : List Tok) (h : ∀ tl, ts ≠ .kw .import_ :: tl) :
    importsP fuel ts = some ([], ts) := by
  unfold importsP
  split
  · rename_i r; exact absurd rfl (h r)
  · rfl

theorem optionsP_skip (fuel : Nat) (ts : List Tok) (h : ∀ tl, ts ≠ .kw .options :: tl) :
    optionsP fuel ts = some ([], ts) := by
  unfold optionsP
  split
  · rename_i r; exact absurd rfl (h r)
  · rfl

/-- print → parse is the identity on every well-formed syntax tree -/
theorem parse_print (f : File) (hf : f.WF) : parseFile f.toks = some f := by
  obtain ⟨is, os, ds⟩ := f
  obtain ⟨his, hos, hds⟩ := hf
  simp only at his hos hds
  -- the three parts of the token list
  generalize hD : (ds.map Def.toks).flatten = D
  have hDlen : ds.length ≤ D.length := by
    rw [← hD]
    exact flatten_length_ge Def.toks ds (by
      intro d _; obtain ⟨t, tl, e⟩ := def_toks_ne_nil d; rw [e]; simp)
  have hDhead := defs_head ds
  rw [hD] at hDhead
  have hDnotI : ∀ tl, D ≠ .kw .import_ :: tl := by
    intro tl h
    rcases hDhead with e | ⟨k, tl', e, h1, _⟩
    · rw [e] at h; cases h
    · rw [e] at h; injection h with h _; injection h with h; exact h1 h
  have hDnotO : ∀ tl, D ≠ .kw .options :: tl := by
    intro tl h
    rcases hDhead with e | ⟨k, tl', e, _, h2⟩
    · rw [e] at h; cases h
    · rw [e] at h; injection h with h _; injection h with h; exact h2 h
  -- options part
  have hO : ∀ fuel, os.length < fuel → D.length < fuel →
      optionsP fuel ((if os.isEmpty then [] else [Tok.kw .options, .p '('] ++ (os.map Opt.toks).flatten ++ [.p ')']) ++ D)
        = some (os, D) := by
    intro fuel h1 _
    cases os with
    | nil => simp only [List.isEmpty_nil, ↓reduceIte, List.nil_append]; exact optionsP_skip fuel D hDnotO
    | cons o os' =>
      simp only [List.isEmpty_cons, Bool.false_eq_true, ↓reduceIte, List.cons_append, List.nil_append,
        List.append_assoc, optionsP]
      exact options_toks (o :: os') D fuel h1
  have hOnotI : ∀ tl, ((if os.isEmpty then [] else [Tok.kw .options, .p '('] ++ (os.map Opt.toks).flatten ++ [.p ')']) ++ D)
      ≠ .kw .import_ :: tl := by
    intro tl
    cases os with
    | nil => simp only [List.isEmpty_nil, ↓reduceIte, List.nil_append]; exact hDnotI tl
    | cons o os' => simp
  unfold parseFile File.toks
  simp only
  generalize hfuel : (((if is.isEmpty = true then [] else [Tok.kw Kw.import_, Tok.p '('] ++ (List.map Import.toks is).flatten ++ [Tok.p ')']) ++
            (if os.isEmpty = true then [] else [Tok.kw Kw.options, Tok.p '('] ++ (List.map Opt.toks os).flatten ++ [Tok.p ')']) ++
          (List.map Def.toks ds).flatten).length + 1) = fuel
  have hlenD : D.length < fuel := by
    rw [← hfuel, hD]; simp only [List.length_append]; omega
  have hlenO : os.length < fuel := by
    have := flatten_length_ge Opt.toks os (by intro o _; simp [Opt.toks])
    rw [← hfuel]
    cases os with
    | nil => simp
    | cons o os' =>
      simp only [List.isEmpty_cons, Bool.false_eq_true, ↓reduceIte, List.length_append, List.length_cons] at this ⊢
      omega
  have hlenI : is.length < fuel := by
    have := flatten_length_ge Import.toks is (by
      intro i _; unfold Import.toks; split <;> simp)
    rw [← hfuel]
    cases is with
    | nil => simp
    | cons i is' =>
      simp only [List.isEmpty_cons, Bool.false_eq_true, ↓reduceIte, List.length_append, List.length_cons] at this ⊢
      omega
  rw [hD]
  have hI : importsP fuel ((if is.isEmpty then [] else [Tok.kw .import_, .p '('] ++ (is.map Import.toks).flatten ++ [.p ')']) ++
        ((if os.isEmpty then [] else [Tok.kw .options, .p '('] ++ (os.map Opt.toks).flatten ++ [.p ')']) ++ D))
      = some (is, (if os.isEmpty then [] else [Tok.kw .options, .p '('] ++ (os.map Opt.toks).flatten ++ [.p ')']) ++ D) := by
    cases is with
    | nil => simp only [List.isEmpty_nil, ↓reduceIte, List.nil_append]; exact importsP_skip fuel _ hOnotI
    | cons i is' =>
      simp only [List.isEmpty_cons, Bool.false_eq_true, ↓reduceIte, List.cons_append, List.nil_append,
        List.append_assoc, importsP]
      exact imports_toks (i :: is') his ')' _ fuel hlenI
  rw [List.append_assoc, hI]
  simp only [Option.bind_some]
  rw [hO fuel hlenO hlenD]
  simp only [Option.bind_some]
  rw [← hD, definitions_toks ds hds fuel fuel (by rw [hD]; exact hlenD) (by omega)]
  rfl

/-- the tree is determined by its canonical tokens -/
theorem parse_injective (f g : File) (hf : f.WF) (hg : g.WF) (h : f.toks = g.toks) : f = g := by
  have h1 := parse_print f hf
  have h2 := parse_print g hg
  rw [h] at h1
  rw [h1] at h2
  exact Option.some.inj h2

/-- non-vacuity: a tree with every construct is well-formed and round-trips -/
def sample : File :=
  { imports := [⟨"", "a/b"⟩, ⟨"x", "c"⟩],
    options := [⟨"go_package", "p"⟩],
    defs := [
      .enum "E" [⟨"any", 0⟩, ⟨"B", 65536⟩],
      .message "M" [⟨"a", .base (.name "int32"), 1⟩, ⟨"message", .list (.ref "pkg" "T"), 65535⟩, ⟨"c", .base .anyMessage, 3⟩],
      .struct "S" [⟨"x", .base (.name "int64")⟩],
      .service false "Svc" [
        ⟨"m", .fields [⟨"a", .base (.name "A"), 1⟩], .chan (.both (.base (.name "A")) (.list (.name "B"))) (some (.fields []))⟩,
        ⟨"import", .type .any, .oneway⟩,
        ⟨"sub", .fields [], .out (.type (.ref "p" "Sub"))⟩],
      .service true "Sub" []] }

example : parseFile sample.toks = some sample := by decide

end SpecVerif.C15
