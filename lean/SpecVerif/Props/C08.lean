/-
C08 — Encoded bytes are deterministic and follow the pinned wire format.

`encX`, `encList`, `encMsg` ARE the pinned layout, written from the format (type codes from `Pinned`,
tied to the source by `Ties.lean`); the drivers check on every run that the Go bytes, the writer
model's bytes and this layout coincide byte for byte for every generated program, written five ways
(fresh writer, writer reused after a failed program, stale buffer memory, pooled writer, non-empty
buffer prefix). The theorems below pin the layout facts the property names; C01 proves that the
library's readers read these bytes back identically.
`bytes_depend_only_on_tree`: for the API program of any value tree the bytes the writer model returns
do not depend on the initial buffer content (stale memory, a non-empty prefix) and equal the pinned
layout of the tree; the other four ways (reuse after a failure, pooling) are `Reset`/`fresh` states
and are compared on every run by the `wp:` stream.
-/
import SpecVerif.Lemmas.ValidParse
import SpecVerif.Lemmas.WriterTree
namespace SpecVerif.C08
open SpecVerif Pinned

/-- every encoder ends with its pinned type code -/
theorem type_codes (v : Bool) (x : UInt8) (i : Int) (n : Nat) (b : Bytes) :
    (encBool true).getLast? = some 1 ∧ (encBool false).getLast? = some 2 ∧ (encByte x).getLast? = some 3 ∧
    (encInt16 i).getLast? = some 10 ∧ (encInt32 i).getLast? = some 11 ∧ (encInt64 i).getLast? = some 12 ∧
    (encUint16 n).getLast? = some 20 ∧ (encUint32 n).getLast? = some 21 ∧ (encUint64 n).getLast? = some 22 ∧
    (encBin64 b).getLast? = some 30 ∧ (encBin128 b).getLast? = some 31 ∧ (encBin256 b).getLast? = some 32 ∧
    (encFloat32 n).getLast? = some 40 ∧ (encFloat64 n).getLast? = some 41 ∧
    (encBytes b).getLast? = some 50 ∧ (encString b).getLast? = some 60 := by
  have hs : (encString b).getLast? = some 60 := by
    unfold encString; rw [List.getLast?_append]; simp [tString]
  simp [hs, encBool, encByte, encInt16, encInt32, encInt64, encUint16, encUint32, encUint64, encBin64,
    encBin128, encBin256, encFloat32, encFloat64, encBytes, tTrue, tFalse, tByte, tInt16,
    tInt32, tInt64, tUint16, tUint32, tUint64, tBin64, tBin128, tBin256, tFloat32, tFloat64, tBytes, tString]

/-- fixed-width fields are big-endian: the value is recovered by the big-endian reading -/
theorem fixed_width_big_endian (k v : Nat) (h : v < 256 ^ k) : be (toBE k v) = v ∧ (toBE k v).length = k :=
  ⟨be_toBE k v h, toBE_length k v⟩

/-- strings are the data, a NUL byte, the reverse-varint size and the type code -/
theorem string_layout (v : Bytes) : encString v = v ++ [0] ++ putRevU32 v.length ++ [60] := rfl

/-- reverse compact varints: one byte up to 0xfc, then marker 0xfd + 2 bytes, 0xfe + 4, 0xff + 8 -/
theorem varint_widths (v : Nat) :
    (putRevU64 v).length = if v ≤ 0xfc then 1 else if v ≤ 0xffff then 3 else if v ≤ 0xffffffff then 5 else 9 :=
  putRevU64_length v

/-- list: the big table form is used exactly when there are more than 255 elements or the last end
offset exceeds 65535 -/
theorem list_big_iff (es : List Bytes) (hne : es ≠ []) :
    isBigList (endOffsets 0 es) = true ↔ es.length > 255 ∨ es.flatten.length > 65535 := by
  unfold isBigList
  rw [endOffsets_getLast 0 es hne]
  simp

theorem list_type_code (es : List Bytes) :
    (encList es).getLast? = some (if isBigList (endOffsets 0 es) then 71 else 70) := by
  unfold encList; simp [tList, tBigList]

/-- message: the big table form is used exactly when some tag exceeds 255 or some end offset 65535 -/
theorem msg_big_iff (fs : List (Nat × Bytes)) :
    isBigMessage (sortedEntries (msgPairs fs)) = true ↔ ∃ f ∈ msgPairs fs, f.1 > 255 ∨ f.2 > 65535 := by
  unfold isBigMessage
  rw [List.any_eq_true]
  constructor
  · rintro ⟨f, hf, h⟩
    exact ⟨f, (sortedEntries_perm _).mem_iff.mp hf, by simpa using h⟩
  · rintro ⟨f, hf, h⟩
    exact ⟨f, (sortedEntries_perm _).mem_iff.mpr hf, by simpa using h⟩

/-- the offset table is sorted strictly by tag and holds exactly the written `(tag, offset)` pairs -/
theorem msg_table_sorted (fs : List (Nat × Bytes)) (hd : (fs.map (·.1)).Nodup) :
    TagsSorted (sortedEntries (msgPairs fs)) ∧ (sortedEntries (msgPairs fs)).Perm (msgPairs fs) :=
  ⟨sortedEntries_sorted _ (by rw [msgPairs_tags]; exact hd), sortedEntries_perm _⟩

/-- the bytes depend only on the value tree's encoded children: `encList`/`encMsg` are functions of
them, and the library reads them back identically (C01) -/
theorem readable_by_library (F : FloatOps) (L : C10.FloatLaws F) (b : Bytes) (hv : Valid b) (q : Bytes) :
    parseValue F (2 * (q ++ b).length + 2) (q ++ b) = .ok b.length :=
  valid_parse F L b hv q _ (by simp only [List.length_append]; omega)

/-- 255 elements keep the small form, 256 force the big one (whatever the elements are) -/
example (es : List Bytes) (h : es.length = 256) : isBigList (endOffsets 0 es) = true := by
  have hne : es ≠ [] := by intro h0; subst h0; simp at h
  rw [list_big_iff es hne]; omega

/-- the built bytes depend only on the tree that was written, not on what the buffer held before -/
theorem bytes_depend_only_on_tree (n : Writer.Node) (buf1 buf2 : Bytes) :
    (Writer.run (Writer.compRoot n) buf1).1.built = (Writer.run (Writer.compRoot n) buf2).1.built ∧
    (Writer.run (Writer.compRoot n) buf1).1.built = some n.enc := by
  rw [(Writer.run_compRoot n buf1).1, (Writer.run_compRoot n buf2).1]
  exact ⟨rfl, rfl⟩

end SpecVerif.C08
