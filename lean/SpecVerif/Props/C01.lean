/-
C01 — Writer-to-reader round trip preserves every value tree.

The layout the writer produces is `encList`/`encMsg` applied to the encoded children (tied to the
implementation on every run: the drivers compare writer model, reference layout and Go bytes).
For every value tree over that layout — `Valid b`: all 15 scalar kinds, lists and messages of any
size, count and nesting — behind every prefix `q`:
  * the parser accepts with exactly the produced size (`parse_exact`);
  * the probe and `OpenValue` delimit it exactly (`probe_exact`);
  * every element is found at its index, `Len` is the element count (`list_roundtrip`);
  * every field is found under its tag with exactly the written bytes, whatever the write order
    (`msg_field_found`), no other tag is present (`msg_field_absent`, `msg_enumerates_written`),
    absent tags read as zero with size 0 (`absent_reads_zero`).
Both table forms are covered by the same statements: the proofs split on `isBigList`/`isBigMessage`,
i.e. on both sides of 255/256 elements, tags 255/256 and offsets 65535/65536.
`writer_refines_layout`: the writer state machine of Writer/Model.lean + Writer/Api.lean (the model
the differential stream compares with the Go writer call by call), driven by the API program of ANY
value tree (`compRoot`: nested Field/Element/List/Message/End calls with the handle numbering of the
line protocol; any width, any depth, any write order, any initial buffer content), answers `ok` to
every call and returns exactly `enc` of the tree — `encList`/`encMsg` of the encoded children — from
the final Build (Lemmas/WriterRefine.lean, Lemmas/WriterProgram.lean: mutual induction over trees).
`written_tree_reads_back` composes the two halves: what the writer builds for a well-formed tree is
accepted by the parser with exactly its size and delimited exactly by the probe and `OpenValue`.
Raw copies enter the tree as leaves (`Any`); Copy/Merge (`copyMsg`) is `C16.copy_preserves`.
-/
import SpecVerif.Lemmas.ValidParse
import SpecVerif.Lemmas.WriterTree
namespace SpecVerif.C01
open SpecVerif Pinned

/-- the parser consumes exactly the bytes produced, behind any prefix -/
theorem parse_exact (F : FloatOps) (L : C10.FloatLaws F) (b : Bytes) (hv : Valid b) (q : Bytes) :
    parseValue F (2 * (q ++ b).length + 2) (q ++ b) = .ok b.length :=
  valid_parse F L b hv q _ (by simp only [List.length_append]; omega)

/-- the probe and the non-recursive open delimit a written value exactly -/
theorem probe_exact (b : Bytes) (hv : Valid b) (q : Bytes) :
    (∃ t, decodeTypeSize (q ++ b) = .ok (t, b.length)) ∧ openValue (q ++ b) = .ok b :=
  ⟨(valid_delim b hv).2 q, openValue_of_delim b (valid_delim b hv) q⟩

/-- every element at its index; `Len` = number of elements; small and big table form -/
theorem list_roundtrip (p : Bytes) (l : List Bytes) (e : Bytes) (r : List Bytes)
    (hsz : (l ++ e :: r).flatten.length + 4 * (l ++ e :: r).length < 2 ^ 32) :
    ∃ L, openListErr (p ++ encList (l ++ e :: r)) = .ok L ∧ L.len = (l ++ e :: r).length ∧
      L.getBytes l.length = .ok e := list_get p l e r hsz

/-- every field is found under its tag with exactly the written bytes, for every write order
(`l`, `r` arbitrary) and every tag below 2^16 -/
theorem msg_field_found (p : Bytes) (l : List (Nat × Bytes)) (tag : Nat) (v : Bytes)
    (r : List (Nat × Bytes)) (wf : MsgWF (l ++ (tag, v) :: r)) (hv : Delim v) :
    ∃ M, openMessageErr (p ++ encMsg (l ++ (tag, v) :: r)) = .ok M ∧
      M.fields = (l ++ (tag, v) :: r).length ∧
      M.hasField tag = .ok true ∧ M.field tag = .ok v := by
  obtain ⟨M, hopen, hfields, hdata, ⟨rest, hbytes⟩, hoff⟩ := msg_open p _ wf
  refine ⟨M, hopen, hfields, ?_⟩
  have hmem := pair_mem l tag v r
  have hnd : ((msgPairs (l ++ (tag, v) :: r)).map (·.1)).Nodup := by rw [msgPairs_tags]; exact wf.nodup
  rcases hoff tag with ⟨o, ho, hres⟩ | ⟨habs, _⟩
  · have heq := entry_unique _ hnd (tag, o) (tag, (l.map (·.2)).flatten.length + v.length) ho hmem rfl
    have ho' : o = (l.map (·.2)).flatten.length + v.length := by
      have := congrArg Prod.snd heq; simpa using this
    have hdatasplit : ((l ++ (tag, v) :: r).map (·.2)).flatten = (l.map (·.2)).flatten ++ v ++ (r.map (·.2)).flatten := by
      simp
    have hle : o ≤ M.table.data := by rw [hdata, hdatasplit, ho']; simp only [List.length_append]; omega
    have hraw : M.fieldRaw tag = .ok ((l.map (·.2)).flatten ++ v) := by
      unfold MsgV.fieldRaw
      rw [hres]
      simp only
      have c : ¬ o > M.table.data := by omega
      simp only [c, ↓reduceIte]
      rw [slice?_some _ _ _ (by omega) (by rw [hbytes, hdatasplit, ho']; simp only [List.length_append]; omega)]
      rw [hbytes, hdatasplit, ho']
      have : (l.map (·.2)).flatten ++ v ++ (r.map (·.2)).flatten ++ rest =
          ((l.map (·.2)).flatten ++ v) ++ ((r.map (·.2)).flatten ++ rest) := by simp
      rw [this, List.drop_zero, List.take_left' (by simp)]
    constructor
    · unfold MsgV.hasField; rw [hres]; simp; exact hle
    · unfold MsgV.field
      rw [hraw]
      simp only [bind, Res.bind]
      have c : ¬ ((l.map (·.2)).flatten ++ v).length = 0 := by
        have := hv.1
        intro h0
        simp only [List.length_append] at h0
        exact this (List.eq_nil_of_length_eq_zero (by omega))
      simp only [c, ↓reduceIte]
      exact openValue_of_delim v hv _
  · exfalso; apply habs; simp

/-- a tag that was not written is absent: `HasField` is false and the field reads as nil -/
theorem msg_field_absent (p : Bytes) (fs : List (Nat × Bytes)) (wf : MsgWF fs) (tag : Nat)
    (habs : tag ∉ fs.map (·.1)) :
    ∃ M, openMessageErr (p ++ encMsg fs) = .ok M ∧ M.hasField tag = .ok false ∧ M.field tag = .ok [] := by
  obtain ⟨M, hopen, _, _, _, hoff⟩ := msg_open p fs wf
  refine ⟨M, hopen, ?_⟩
  rcases hoff tag with ⟨o, ho, _⟩ | ⟨_, hres⟩
  · exfalso; apply habs
    rw [← msgPairs_tags]; exact List.mem_map_of_mem ho
  · constructor
    · unfold MsgV.hasField; rw [hres]
    · unfold MsgV.field MsgV.fieldRaw; rw [hres]; simp [bind, Res.bind, pure]

/-- no other tag is present: the table enumerates exactly as many entries as fields were written and
each entry is one of the written `(tag, end offset)` pairs -/
theorem msg_enumerates_written (p : Bytes) (fs : List (Nat × Bytes)) (wf : MsgWF fs) :
    ∃ M, openMessageErr (p ++ encMsg fs) = .ok M ∧ M.fields = fs.length ∧
      ∀ i, i < fs.length → ∃ tag o, (tag, o) ∈ msgPairs fs ∧ M.tagAt i = .ok (some tag) := by
  obtain ⟨M, hopen, hfields, _, _, hidx⟩ := msg_open_index p fs wf
  refine ⟨M, hopen, hfields, fun i hi => ?_⟩
  obtain ⟨tag, o, hmem, _, hent⟩ := hidx i hi
  exact ⟨tag, o, hmem, by unfold MsgV.tagAt; rw [hent]; simp [bind, Res.bind, pure]⟩

/-- absent fields decode as the zero value with size 0 through every typed accessor -/
theorem absent_reads_zero (F : FloatOps) :
    decodeBool [] = .ok (false, 0) ∧ decodeByte [] = .ok (0, 0) ∧ decodeInt16 [] = .ok (0, 0) ∧
    decodeInt32 [] = .ok (0, 0) ∧ decodeInt64 [] = .ok (0, 0) ∧ decodeUint16 [] = .ok (0, 0) ∧
    decodeUint32 [] = .ok (0, 0) ∧ decodeUint64 [] = .ok (0, 0) ∧ decodeFloat32 F [] = .ok (0, 0) ∧
    decodeFloat64 F [] = .ok (0, 0) ∧ decodeBytes [] = .ok ([], 0) ∧ decodeString [] = .ok ([], 0) ∧
    decodeBin64 [] = .ok ([], 0) := by
  refine ⟨rfl, rfl, rfl, rfl, rfl, rfl, rfl, rfl, rfl, rfl, rfl, rfl, rfl⟩

/-- the writer emits the layout: every call of the tree's program is answered `ok`, the final Build
returns `enc` of the tree and records it as the built value -/
theorem writer_refines_layout (n : Writer.Node) (buf : Bytes) :
    Writer.BuiltLast (Writer.run (Writer.compRoot n) buf) n.enc :=
  Writer.run_compRoot n buf

/-- write then read: the bytes the writer builds for a well-formed tree parse with exactly their
size and are delimited exactly, behind every prefix `q` -/
theorem written_tree_reads_back (F : FloatOps) (L : C10.FloatLaws F) (n : Writer.Node) (hn : n.OK)
    (buf q : Bytes) :
    ∃ b, (Writer.run (Writer.compRoot n) buf).1.built = some b ∧
      parseValue F (2 * (q ++ b).length + 2) (q ++ b) = .ok b.length ∧ openValue (q ++ b) = .ok b :=
  ⟨n.enc, (writer_refines_layout n buf).1, parse_exact F L n.enc (Writer.Node.valid n hn) q,
    (probe_exact n.enc (Writer.Node.valid n hn) q).2⟩

/-- the same without any hypothesis about the platform's float conversions: for the bit-level IEEE
model the drivers run (laws proved in Lemmas/IEEE.lean) -/
theorem written_tree_reads_back_ieee (n : Writer.Node) (hn : n.OK) (buf q : Bytes) :
    ∃ b, (Writer.run (Writer.compRoot n) buf).1.built = some b ∧
      parseValue IEEE.ieee (2 * (q ++ b).length + 2) (q ++ b) = .ok b.length ∧ openValue (q ++ b) = .ok b :=
  written_tree_reads_back IEEE.ieee C10.ieee_laws n hn buf q

/-! ### non-vacuity: boundary instances on both sides of the table forms -/

/-- a concrete nested program: message { 2: [true, {}], 1: 7 } written with tag 2 before tag 1 -/
example :
    Writer.compRoot (.msg (.cons 2 (.list (.cons (.leaf (encBool true)) (.cons (.msg .nil) .nil)))
      (.cons 1 (.leaf (encByte 7)) .nil))) =
    [.msg, .flist 0 2, .e 1 (encBool true), .emsg 1, .end_ 2, .end_ 1, .f 0 1 (encByte 7), .build 0] := by
  rfl

example : Valid (encList [encInt32 5, encString [97, 98]]) :=
  .list _ (by intro e he; simp at he; rcases he with h | h <;> subst h
              · exact .i32 5 (by decide)
              · exact .str _ (by decide)) (by decide)

/-- tag 255 stays in the small form, tag 256 forces the big form -/
example : isBigMessage (sortedEntries (msgPairs [(255, encBool true)])) = false := by decide
example : isBigMessage (sortedEntries (msgPairs [(256, encBool true)])) = true := by decide
example : MsgWF [(256, encBool true), (1, encByte 7)] :=
  ⟨by decide, by intro f hf; simp at hf; rcases hf with h | h <;> subst h <;> decide, by decide⟩

end SpecVerif.C01
