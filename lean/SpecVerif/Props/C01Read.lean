/-
C01, continued — reading a written tree back to any depth.

`read_path`: for every well-formed value tree and every path into it (fields by tag, elements by
index, any depth) following the path over the tree's layout bytes with the library's accessors
(`OpenMessageErr` + `Field(tag)`, `OpenListErr` + `GetBytes(i)`) returns exactly the layout bytes of
the node at that path. With `C01.writer_refines_layout` (the writer builds those bytes): every field
is found under its tag with the written value and every element at its index, at every level.
-/
import SpecVerif.Props.C01
namespace SpecVerif.Writer
open SpecVerif

/-! ### reading a written tree back, to any depth -/

/-- one step into a value: the field with a tag, or the element at an index -/
inductive Step where
  | field (tag : Nat)
  | elem (i : Nat)

/-- the library's read for one step: open the container, then `Field(tag)` / `GetBytes(i)` -/
def readStep (b : Bytes) : Step → Res Bytes
  | .field t =>
    match openMessageErr b with
    | .ok M => M.field t
    | .err e n => .err e n
    | .panic => .panic
  | .elem i =>
    match openListErr b with
    | .ok L => L.getBytes i
    | .err e n => .err e n
    | .panic => .panic

def readPath (b : Bytes) : List Step → Res Bytes
  | [] => .ok b
  | s :: rest =>
    match readStep b s with
    | .ok v => readPath v rest
    | .err e n => .err e n
    | .panic => .panic

def Flds.find (t : Nat) : Flds → Option Node
  | .nil => none
  | .cons t' n fs => if t' = t then some n else fs.find t

def Nodes.get (i : Nat) : Nodes → Option Node
  | .nil => none
  | .cons n ns => match i with | 0 => some n | k + 1 => ns.get k

def Node.child : Node → Step → Option Node
  | .msg fs, .field t => fs.find t
  | .list es, .elem i => es.get i
  | _, _ => none

def Node.at (n : Node) : List Step → Option Node
  | [] => some n
  | s :: rest => match n.child s with | some c => c.at rest | none => none

theorem Flds.find_split : (fs : Flds) → (t : Nat) → (c : Node) → fs.find t = some c → fs.OK →
    c.OK ∧ ∃ l r, fs.encs = l ++ (t, c.enc) :: r
  | .nil, t, c, h, _ => by simp [Flds.find] at h
  | .cons t' n fs, t, c, h, hok => by
    unfold Flds.OK at hok
    unfold Flds.find at h
    by_cases ht : t' = t
    · simp only [ht, ↓reduceIte, Option.some.injEq] at h
      subst h; subst ht
      exact ⟨hok.1, [], fs.encs, by simp [Flds.encs]⟩
    · simp only [ht, ↓reduceIte] at h
      obtain ⟨hc, l, r, hsplit⟩ := Flds.find_split fs t c h hok.2
      exact ⟨hc, (t', n.enc) :: l, r, by simp [Flds.encs, hsplit]⟩

theorem Nodes.get_split : (ns : Nodes) → (i : Nat) → (c : Node) → ns.get i = some c → ns.OK →
    c.OK ∧ ∃ l r, ns.encs = l ++ c.enc :: r ∧ l.length = i
  | .nil, i, c, h, _ => by simp [Nodes.get] at h
  | .cons n ns, i, c, h, hok => by
    unfold Nodes.OK at hok
    unfold Nodes.get at h
    cases i with
    | zero =>
      simp only [Option.some.injEq] at h
      subst h
      exact ⟨hok.1, [], ns.encs, by simp [Nodes.encs], rfl⟩
    | succ k =>
      simp only at h
      obtain ⟨hc, l, r, hsplit, hl⟩ := Nodes.get_split ns k c h hok.2
      exact ⟨hc, n.enc :: l, r, by simp [Nodes.encs, hsplit], by simp [hl]⟩

/-- every node of a well-formed tree is read back from the tree's bytes by following its path with
the library's accessors: fields by tag, elements by index, to any depth -/
theorem read_path : (path : List Step) → (n c : Node) → n.OK → n.at path = some c →
    c.OK ∧ readPath n.enc path = .ok c.enc
  | [], n, c, hn, h => by
    simp only [Node.at, Option.some.injEq] at h
    subst h
    exact ⟨hn, rfl⟩
  | s :: rest, n, c, hn, h => by
    unfold Node.at at h
    cases hch : n.child s with
    | none => rw [hch] at h; cases h
    | some m =>
      rw [hch] at h
      simp only at h
      have key : m.OK ∧ readStep n.enc s = .ok m.enc := by
        cases n with
        | leaf b => simp [Node.child] at hch
        | list es =>
          cases s with
          | field t => simp [Node.child] at hch
          | elem i =>
            simp only [Node.child] at hch
            unfold Node.OK at hn
            obtain ⟨hm, l, r, hsplit, hl⟩ := Nodes.get_split es i m hch hn.1
            refine ⟨hm, ?_⟩
            have hsz := hn.2
            rw [hsplit] at hsz
            obtain ⟨L, hopen, _, hget⟩ := list_get [] l m.enc r hsz
            simp only [List.nil_append] at hopen
            unfold readStep
            simp only [Node.enc, hsplit, hopen]
            rw [← hl]; exact hget
        | msg fs =>
          cases s with
          | elem i => simp [Node.child] at hch
          | field t =>
            simp only [Node.child] at hch
            unfold Node.OK at hn
            obtain ⟨hm, l, r, hsplit⟩ := Flds.find_split fs t m hch hn.1
            refine ⟨hm, ?_⟩
            have wf := hn.2
            rw [hsplit] at wf
            obtain ⟨M, hopen, _, _, hfield⟩ := C01.msg_field_found [] l t m.enc r wf (valid_delim _ (Node.valid m hm))
            simp only [List.nil_append] at hopen
            unfold readStep
            simp only [Node.enc, hsplit, hopen]
            exact hfield
      obtain ⟨hm, hstep⟩ := key
      obtain ⟨hc, hrest⟩ := read_path rest m c hm h
      refine ⟨hc, ?_⟩
      unfold readPath
      rw [hstep]
      exact hrest


end SpecVerif.Writer

namespace SpecVerif.C01
open SpecVerif

/-- what the writer built for a well-formed tree reads back node by node: for every path into the tree
the accessors return the layout bytes of the node the path leads to -/
theorem read_path (n c : Writer.Node) (path : List Writer.Step) (hn : n.OK) (h : n.at path = some c)
    (buf : Bytes) :
    ∃ b, (Writer.run (Writer.compRoot n) buf).1.built = some b ∧ Writer.readPath b path = .ok c.enc :=
  ⟨n.enc, (writer_refines_layout n buf).1, (Writer.read_path path n c hn h).2⟩

/-- non-vacuity: {2: [true, {5: 7}]} - the byte 7 is found at field 2, element 1, field 5 -/
example :
    (Writer.Node.msg (.cons 2 (.list (.cons (.leaf (encBool true))
      (.cons (.msg (.cons 5 (.leaf (encByte 7)) .nil)) .nil))) .nil)).at [.field 2, .elem 1, .field 5] =
    some (.leaf (encByte 7)) := by
  rfl

end SpecVerif.C01
