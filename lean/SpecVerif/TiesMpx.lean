/-
Ties for the mpx event sequences (see PinnedMpx.lean).
-/
import SpecVerif.PinnedMpx
import SpecVerif.Generated.Facts
namespace SpecVerif.TiesMpx
set_option maxRecDepth 100000

theorem ev_channel_acquire_tie : Generated.ev_channel_acquire = PinnedMpx.ev_channel_acquire := by decide
theorem ev_channel_tryAcquire_tie : Generated.ev_channel_tryAcquire = PinnedMpx.ev_channel_tryAcquire := by decide
theorem ev_channel_release_tie : Generated.ev_channel_release = PinnedMpx.ev_channel_release := by decide
theorem ev_channel_free_tie : Generated.ev_channel_free = PinnedMpx.ev_channel_free := by decide
theorem ev_channel_Free_tie : Generated.ev_channel_Free = PinnedMpx.ev_channel_Free := by decide
theorem ev_channel_receive_tie : Generated.ev_channel_receive = PinnedMpx.ev_channel_receive := by decide
theorem ev_channel_closeUser_tie : Generated.ev_channel_closeUser = PinnedMpx.ev_channel_closeUser := by decide
theorem ev_channel_ReceiveAsync_tie : Generated.ev_channel_ReceiveAsync = PinnedMpx.ev_channel_ReceiveAsync := by decide
theorem ev_channel_Receive_tie : Generated.ev_channel_Receive = PinnedMpx.ev_channel_Receive := by decide
theorem ev_channel_ReceiveWait_tie : Generated.ev_channel_ReceiveWait = PinnedMpx.ev_channel_ReceiveWait := by decide
theorem ev_conn_sendLoop_tie : Generated.ev_conn_sendLoop = PinnedMpx.ev_conn_sendLoop := by decide
theorem ev_rpc_client_Receive_tie : Generated.ev_rpc_client_Receive = PinnedMpx.ev_rpc_client_Receive := by decide
theorem ev_rpc_server_Receive_tie : Generated.ev_rpc_server_Receive = PinnedMpx.ev_rpc_server_Receive := by decide
theorem ev_client_new_tie : Generated.ev_client_new = PinnedMpx.ev_client_new := by decide
theorem ev_channel_Send_tie : Generated.ev_channel_Send = PinnedMpx.ev_channel_Send := by decide
theorem ev_channel_SendAndClose_tie : Generated.ev_channel_SendAndClose = PinnedMpx.ev_channel_SendAndClose := by decide
theorem ev_state_decrementSendWindow_tie : Generated.ev_state_decrementSendWindow = PinnedMpx.ev_state_decrementSendWindow := by decide
theorem ev_state_receiveWindow_tie : Generated.ev_state_receiveWindow = PinnedMpx.ev_state_receiveWindow := by decide
theorem ev_state_close_tie : Generated.ev_state_close = PinnedMpx.ev_state_close := by decide
theorem ev_conn_addClosed_tie : Generated.ev_conn_addClosed = PinnedMpx.ev_conn_addClosed := by decide
theorem ev_conn_notifyClosed_tie : Generated.ev_conn_notifyClosed = PinnedMpx.ev_conn_notifyClosed := by decide
theorem ev_conn_close_tie : Generated.ev_conn_close = PinnedMpx.ev_conn_close := by decide
theorem ev_conn_closeChannels_tie : Generated.ev_conn_closeChannels = PinnedMpx.ev_conn_closeChannels := by decide
theorem ev_conn_createChannel_tie : Generated.ev_conn_createChannel = PinnedMpx.ev_conn_createChannel := by decide
theorem ev_conn_send_tie : Generated.ev_conn_send = PinnedMpx.ev_conn_send := by decide
theorem ev_conn_Channel_tie : Generated.ev_conn_Channel = PinnedMpx.ev_conn_Channel := by decide
theorem ev_conn_run_tie : Generated.ev_conn_run = PinnedMpx.ev_conn_run := by decide
theorem ev_conn_receiveMessage_tie : Generated.ev_conn_receiveMessage = PinnedMpx.ev_conn_receiveMessage := by decide
theorem ev_conn_receiveOpen_tie : Generated.ev_conn_receiveOpen = PinnedMpx.ev_conn_receiveOpen := by decide
theorem ev_conn_receiveClose_tie : Generated.ev_conn_receiveClose = PinnedMpx.ev_conn_receiveClose := by decide
theorem ev_conn_receiveData_tie : Generated.ev_conn_receiveData = PinnedMpx.ev_conn_receiveData := by decide
theorem ev_conn_receiveWindow_tie : Generated.ev_conn_receiveWindow = PinnedMpx.ev_conn_receiveWindow := by decide
theorem ev_conn_sendHandle_tie : Generated.ev_conn_sendHandle = PinnedMpx.ev_conn_sendHandle := by decide
theorem ev_conn_handshakeAsServer_tie : Generated.ev_conn_handshakeAsServer = PinnedMpx.ev_conn_handshakeAsServer := by decide
theorem ev_client_Close_tie : Generated.ev_client_Close = PinnedMpx.ev_client_Close := by decide
theorem ev_client_conn_tie : Generated.ev_client_conn = PinnedMpx.ev_client_conn := by decide
theorem ev_client_onConnClosed_tie : Generated.ev_client_onConnClosed = PinnedMpx.ev_client_onConnClosed := by decide
theorem ev_client_onConnChannelsReached_tie : Generated.ev_client_onConnChannelsReached = PinnedMpx.ev_client_onConnChannelsReached := by decide
theorem ev_client_connect_tie : Generated.ev_client_connect = PinnedMpx.ev_client_connect := by decide
theorem ev_client_connect1_tie : Generated.ev_client_connect1 = PinnedMpx.ev_client_connect1 := by decide
theorem ev_client_connectRecover_tie : Generated.ev_client_connectRecover = PinnedMpx.ev_client_connectRecover := by decide
theorem ev_reconnectTimeout_tie : Generated.ev_reconnectTimeout = PinnedMpx.ev_reconnectTimeout := by decide
theorem ev_pool_writerState_reset_tie : Generated.ev_pool_writerState_reset = PinnedMpx.ev_pool_writerState_reset := by decide
theorem ev_pool_writerState_init_tie : Generated.ev_pool_writerState_init = PinnedMpx.ev_pool_writerState_init := by decide
theorem ev_pool_releaseWriterState_tie : Generated.ev_pool_releaseWriterState = PinnedMpx.ev_pool_releaseWriterState := by decide
theorem ev_pool_writer_reset_tie : Generated.ev_pool_writer_reset = PinnedMpx.ev_pool_writer_reset := by decide
theorem ev_pool_stack_reset_tie : Generated.ev_pool_stack_reset = PinnedMpx.ev_pool_stack_reset := by decide
theorem ev_pool_listStack_reset_tie : Generated.ev_pool_listStack_reset = PinnedMpx.ev_pool_listStack_reset := by decide
theorem ev_pool_messageStack_reset_tie : Generated.ev_pool_messageStack_reset = PinnedMpx.ev_pool_messageStack_reset := by decide
theorem ev_pool_mpx_channelState_reset_tie : Generated.ev_pool_mpx_channelState_reset = PinnedMpx.ev_pool_mpx_channelState_reset := by decide
theorem ev_pool_mpx_releaseChannelState2_tie : Generated.ev_pool_mpx_releaseChannelState2 = PinnedMpx.ev_pool_mpx_releaseChannelState2 := by decide
theorem ev_pool_mpx_releaseChannelHandler_tie : Generated.ev_pool_mpx_releaseChannelHandler = PinnedMpx.ev_pool_mpx_releaseChannelHandler := by decide
theorem ev_pool_rpc_channelState_reset_tie : Generated.ev_pool_rpc_channelState_reset = PinnedMpx.ev_pool_rpc_channelState_reset := by decide
theorem ev_pool_rpc_releaseState_tie : Generated.ev_pool_rpc_releaseState = PinnedMpx.ev_pool_rpc_releaseState := by decide
theorem ev_pool_rpc_requestState_reset_tie : Generated.ev_pool_rpc_requestState_reset = PinnedMpx.ev_pool_rpc_requestState_reset := by decide
theorem ev_pool_rpc_releaseRequestState_tie : Generated.ev_pool_rpc_releaseRequestState = PinnedMpx.ev_pool_rpc_releaseRequestState := by decide
theorem ev_pool_rpc_serverChannelState_reset_tie : Generated.ev_pool_rpc_serverChannelState_reset = PinnedMpx.ev_pool_rpc_serverChannelState_reset := by decide
theorem ev_pool_rpc_releaseServerState_tie : Generated.ev_pool_rpc_releaseServerState = PinnedMpx.ev_pool_rpc_releaseServerState := by decide
theorem ev_gen_typeWriteFunc_tie : Generated.ev_gen_typeWriteFunc = PinnedMpx.ev_gen_typeWriteFunc := by decide
theorem ev_gen_typeDecodeFunc_tie : Generated.ev_gen_typeDecodeFunc = PinnedMpx.ev_gen_typeDecodeFunc := by decide
theorem ev_gen_typeName_tie : Generated.ev_gen_typeName = PinnedMpx.ev_gen_typeName := by decide
theorem ev_gen_message_field_tie : Generated.ev_gen_message_field = PinnedMpx.ev_gen_message_field := by decide
theorem ev_gen_message_writer_field_tie : Generated.ev_gen_message_writer_field = PinnedMpx.ev_gen_message_writer_field := by decide
theorem ev_gen_struct_decode_tie : Generated.ev_gen_struct_decode = PinnedMpx.ev_gen_struct_decode := by decide
theorem ev_gen_struct_encode_tie : Generated.ev_gen_struct_encode = PinnedMpx.ev_gen_struct_encode := by decide
theorem ev_gen_enum_encode_tie : Generated.ev_gen_enum_encode = PinnedMpx.ev_gen_enum_encode := by decide
theorem ev_gen_enum_decode_tie : Generated.ev_gen_enum_decode = PinnedMpx.ev_gen_enum_decode := by decide
theorem ev_lexer_Lex_tie : Generated.ev_lexer_Lex = PinnedMpx.ev_lexer_Lex := by decide
theorem ev_lexer_new_tie : Generated.ev_lexer_new = PinnedMpx.ev_lexer_new := by decide
theorem ev_lexer_Error_tie : Generated.ev_lexer_Error = PinnedMpx.ev_lexer_Error := by decide
theorem ev_lexer_scanError_tie : Generated.ev_lexer_scanError = PinnedMpx.ev_lexer_scanError := by decide
theorem ev_parser_parse_tie : Generated.ev_parser_parse = PinnedMpx.ev_parser_parse := by decide
theorem ev_reader_readLine_tie : Generated.ev_reader_readLine = PinnedMpx.ev_reader_readLine := by decide
theorem ev_reader_read_tie : Generated.ev_reader_read = PinnedMpx.ev_reader_read := by decide

end SpecVerif.TiesMpx
