/-
Ties for the mpx event sequences (see PinnedMpx.lean).
-/
import SpecVerif.PinnedMpx
import SpecVerif.Generated.Facts
namespace SpecVerif.TiesMpx
set_option maxRecDepth 100000

theorem ev_channel_acquire_tie : Generated.ev_channel_acquire = PinnedMpx.ev_channel_acquire := by decide
theorem ev_channel_tryAcquire_tie : Generated.ev_channel_tryAcquire = PinnedMpx.ev_channel_tryAcquire := by decide
theorem ev_channel_release_tie : Generated.ev_channel_release = PinnedMpx.ev_channel_release := by decide
theorem ev_channel_free_tie : Generated.ev_channel_free = PinnedMpx.ev_channel_free := by decide
theorem ev_channel_Free_tie : Generated.ev_channel_Free = PinnedMpx.ev_channel_Free := by decide
theorem ev_channel_receive_tie : Generated.ev_channel_receive = PinnedMpx.ev_channel_receive := by decide
theorem ev_channel_closeUser_tie : Generated.ev_channel_closeUser = PinnedMpx.ev_channel_closeUser := by decide
theorem ev_channel_ReceiveAsync_tie : Generated.ev_channel_ReceiveAsync = PinnedMpx.ev_channel_ReceiveAsync := by decide
theorem ev_channel_Receive_tie : Generated.ev_channel_Receive = PinnedMpx.ev_channel_Receive := by decide
theorem ev_channel_ReceiveWait_tie : Generated.ev_channel_ReceiveWait = PinnedMpx.ev_channel_ReceiveWait := by decide
theorem ev_conn_sendLoop_tie : Generated.ev_conn_sendLoop = PinnedMpx.ev_conn_sendLoop := by decide
theorem ev_rpc_client_Receive_tie : Generated.ev_rpc_client_Receive = PinnedMpx.ev_rpc_client_Receive := by decide
theorem ev_rpc_server_Receive_tie : Generated.ev_rpc_server_Receive = PinnedMpx.ev_rpc_server_Receive := by decide
theorem ev_client_new_tie : Generated.ev_client_new = PinnedMpx.ev_client_new := by decide
theorem ev_channel_Send_tie : Generated.ev_channel_Send = PinnedMpx.ev_channel_Send := by decide
theorem ev_channel_SendAndClose_tie : Generated.ev_channel_SendAndClose = PinnedMpx.ev_channel_SendAndClose := by decide
theorem ev_state_decrementSendWindow_tie : Generated.ev_state_decrementSendWindow = PinnedMpx.ev_state_decrementSendWindow := by decide
theorem ev_state_receiveWindow_tie : Generated.ev_state_receiveWindow = PinnedMpx.ev_state_receiveWindow := by decide
theorem ev_state_close_tie : Generated.ev_state_close = PinnedMpx.ev_state_close := by decide
theorem ev_conn_addClosed_tie : Generated.ev_conn_addClosed = PinnedMpx.ev_conn_addClosed := by decide
theorem ev_conn_notifyClosed_tie : Generated.ev_conn_notifyClosed = PinnedMpx.ev_conn_notifyClosed := by decide
theorem ev_conn_close_tie : Generated.ev_conn_close = PinnedMpx.ev_conn_close := by decide
theorem ev_conn_closeChannels_tie : Generated.ev_conn_closeChannels = PinnedMpx.ev_conn_closeChannels := by decide
theorem ev_conn_createChannel_tie : Generated.ev_conn_createChannel = PinnedMpx.ev_conn_createChannel := by decide
theorem ev_conn_send_tie : Generated.ev_conn_send = PinnedMpx.ev_conn_send := by decide
theorem ev_conn_Channel_tie : Generated.ev_conn_Channel = PinnedMpx.ev_conn_Channel := by decide
theorem ev_conn_run_tie : Generated.ev_conn_run = PinnedMpx.ev_conn_run := by decide
theorem ev_conn_receiveMessage_tie : Generated.ev_conn_receiveMessage = PinnedMpx.ev_conn_receiveMessage := by decide
theorem ev_conn_receiveOpen_tie : Generated.ev_conn_receiveOpen = PinnedMpx.ev_conn_receiveOpen := by decide
theorem ev_conn_receiveClose_tie : Generated.ev_conn_receiveClose = PinnedMpx.ev_conn_receiveClose := by decide
theorem ev_conn_receiveData_tie : Generated.ev_conn_receiveData = PinnedMpx.ev_conn_receiveData := by decide
theorem ev_conn_receiveWindow_tie : Generated.ev_conn_receiveWindow = PinnedMpx.ev_conn_receiveWindow := by decide
theorem ev_conn_sendHandle_tie : Generated.ev_conn_sendHandle = PinnedMpx.ev_conn_sendHandle := by decide
theorem ev_conn_handshakeAsServer_tie : Generated.ev_conn_handshakeAsServer = PinnedMpx.ev_conn_handshakeAsServer := by decide
theorem ev_client_Close_tie : Generated.ev_client_Close = PinnedMpx.ev_client_Close := by decide
theorem ev_client_conn_tie : Generated.ev_client_conn = PinnedMpx.ev_client_conn := by decide
theorem ev_client_onConnClosed_tie : Generated.ev_client_onConnClosed = PinnedMpx.ev_client_onConnClosed := by decide
theorem ev_client_onConnChannelsReached_tie : Generated.ev_client_onConnChannelsReached = PinnedMpx.ev_client_onConnChannelsReached := by decide
theorem ev_client_connect_tie : Generated.ev_client_connect = PinnedMpx.ev_client_connect := by decide
theorem ev_client_connect1_tie : Generated.ev_client_connect1 = PinnedMpx.ev_client_connect1 := by decide
theorem ev_client_connectRecover_tie : Generated.ev_client_connectRecover = PinnedMpx.ev_client_connectRecover := by decide
theorem ev_reconnectTimeout_tie : Generated.ev_reconnectTimeout = PinnedMpx.ev_reconnectTimeout := by decide
theorem ev_lexer_Lex_tie : Generated.ev_lexer_Lex = PinnedMpx.ev_lexer_Lex := by decide
theorem ev_lexer_new_tie : Generated.ev_lexer_new = PinnedMpx.ev_lexer_new := by decide
theorem ev_lexer_Error_tie : Generated.ev_lexer_Error = PinnedMpx.ev_lexer_Error := by decide
theorem ev_lexer_scanError_tie : Generated.ev_lexer_scanError = PinnedMpx.ev_lexer_scanError := by decide
theorem ev_parser_parse_tie : Generated.ev_parser_parse = PinnedMpx.ev_parser_parse := by decide
theorem ev_reader_readLine_tie : Generated.ev_reader_readLine = PinnedMpx.ev_reader_readLine := by decide
theorem ev_reader_read_tie : Generated.ev_reader_read = PinnedMpx.ev_reader_read := by decide

end SpecVerif.TiesMpx
