/-
Model of the RPC layer (rpc/client*.go, rpc/server*.go) on top of mpx: every call uses one channel
of its own; the server's handler of the call is started by the frame that opens the channel, sends
its streamed messages and finally the response (status + result) in the frame that closes the
channel; the client reads the channel until the end status and takes the last message as response.
Delivery on a channel is the model of Mpx/Delivery.lean (here: the server → client direction).
-/
import SpecVerif.Mpx.Delivery
namespace SpecVerif.Rpc
open SpecVerif SpecVerif.Mpx

/-- what a handler produced for its call: streamed messages, then the encoded response -/
structure Produced where
  stream : List Bytes
  response : Bytes

/-- the payloads the server-side of a call passes to Send/SendAndClose on the call's channel -/
def Produced.payloads (p : Produced) : List Bytes := p.stream ++ [p.response]

/-- what the client concludes from the messages Receive returned before the end status -/
def clientView (delivered : List Bytes) : Option (List Bytes × Bytes) :=
  match delivered.reverse with
  | [] => none                                   -- end without a response: surfaced as an error
  | r :: revStream => some (revStream.reverse, r)

/-! ### handler starts: one per channel-open frame, duplicates are refused -/

structure Srv where
  started : Nat → Nat          -- handler invocations per channel id
  registered : Nat → Bool      -- channel id is in the connection's channel map
  refused : Nat                -- open frames refused (duplicate id: the connection is failed)

def Srv.init : Srv := { started := fun _ => 0, registered := fun _ => false, refused := 0 }

/-- receiveOpen: GetOrSet on the channel map; a new id starts exactly one handler -/
def Srv.open (s : Srv) (c : Nat) : Srv :=
  if s.registered c then { s with refused := s.refused + 1 }
  else { s with registered := Delivery.upd s.registered c true, started := Delivery.upd s.started c (s.started c + 1) }

def Srv.run (s : Srv) : List Nat → Srv
  | [] => s
  | c :: cs => (s.open c).run cs

end SpecVerif.Rpc
