/-
Model of the per-channel flow control of mpx (channel.go Send/SendAndClose/ReceiveAsync,
channel_state.go decrementSendWindow/receiveWindow): one direction of one channel.
`W` is the negotiated window (initWindow), `/` is Go's truncating division.
-/
namespace SpecVerif.Mpx.Flow

/-- program counter of the (single, mutex-protected) sender -/
inductive SPC
  | idle
  | start (n : Nat)            -- Send(n) entered decrementSendWindow, about to load the window
  | loaded (w : Int) (n : Nat) -- window value read
  | waiting (n : Nat)          -- blocked on the wake-up slot
  deriving DecidableEq, Repr

structure State where
  W : Nat
  win : Int                -- sendWindow (may go negative)
  wire : List Nat          -- data frames in flight (payload sizes), oldest first
  rq : List Nat            -- received, not yet consumed
  rb : Nat                 -- recvBytes: consumed, not yet acknowledged
  acks : List Nat          -- window updates in flight
  slot : Bool              -- the one-buffered wake-up channel
  pc : SPC
  opened : Bool
  closed : Bool
  admitted : List Nat      -- sizes admitted so far (history, for the bound theorem)
  deriving DecidableEq, Repr

def init (W : Nat) : State :=
  { W := W, win := W, wire := [], rq := [], rb := 0, acks := [], slot := false, pc := .idle,
    opened := false, closed := false, admitted := [] }

def admissible (W : Nat) (w : Int) (n : Nat) : Bool := decide (w ≥ n) || decide (w ≥ (W / 2 : Nat))

inductive Action
  | sendOpen (n : Nat)     -- first Send on a client channel: debit without test, open frame
  | send (n : Nat)         -- Send(n) on an opened channel
  | load                   -- sender reads the window
  | decide                 -- sender tests the value it read: admit or block
  | wake                   -- sender takes the wake-up token and retries
  | deliverData
  | consume                -- receiver's ReceiveAsync takes one message
  | deliverWindow
  | sendClose (n : Nat)    -- SendAndClose: payload goes out regardless of the window
  deriving DecidableEq, Repr

def step (s : State) : Action → Option State
  | .sendOpen n =>
    if !s.opened && !s.closed && s.pc = .idle then
      some { s with opened := true, win := s.win - n, wire := s.wire ++ [n], admitted := s.admitted ++ [n] }
    else none
  | .send n => if s.opened && !s.closed && s.pc = .idle then some { s with pc := .start n } else none
  | .load => match s.pc with
    | .start n => some { s with pc := .loaded s.win n }
    | _ => none
  | .decide => match s.pc with
    | .loaded w n =>
      if admissible s.W w n then
        some { s with win := s.win - n, wire := s.wire ++ [n], pc := .idle, admitted := s.admitted ++ [n] }
      else some { s with pc := .waiting n }
    | _ => none
  | .wake => match s.pc with
    | .waiting n => if s.slot then some { s with slot := false, pc := .start n } else none
    | _ => none
  | .deliverData => match s.wire with
    | n :: rest => some { s with wire := rest, rq := s.rq ++ [n] }
    | [] => none
  | .consume => match s.rq with
    | n :: rest =>
      let recv := s.rb + n
      if recv < s.W / 2 then some { s with rq := rest, rb := recv }
      else some { s with rq := rest, rb := 0, acks := s.acks ++ [recv] }
    | [] => none
  | .deliverWindow => match s.acks with
    | d :: rest => some { s with acks := rest, win := s.win + d, slot := true }
    | [] => none
  | .sendClose n =>
    if !s.closed && s.pc = .idle then
      some { s with closed := true, opened := true, win := s.win - n, wire := s.wire ++ [n] }
    else none

def run (s : State) : List Action → State
  | [] => s
  | a :: as => match step s a with
    | some s' => run s' as
    | none => run s as

def sum (l : List Nat) : Int := (l.sum : Nat)

end SpecVerif.Mpx.Flow
