/-
Model of mpx/client.go: the reconnect back-off (exact Go integer semantics) and the connection
bookkeeping of the client. Steps of the state machine are the critical sections executed under
`client.mu` plus the environment (dial results, connections dying, channel targets reached).
-/
namespace SpecVerif.Mpx.Client

/-! ### reconnectTimeout -/

/-- `uint16(1<<attempt - 2)` on a 64-bit `int`: shifts of 64 or more give 0, the subtraction wraps,
the conversion keeps the low 16 bits -/
def shl1 (attempt : Nat) : Nat := if attempt < 64 then 2 ^ attempt else 0

def multi (attempt : Nat) : Nat :=
  ((shl1 attempt + 2 ^ 64 - 2) % 2 ^ 64) % 65536

def minRetryNs : Nat := 25000000
def maxRetryNs : Nat := 1000000000

/-- reconnectTimeout(attempt) in nanoseconds -/
def reconnectTimeout (attempt : Nat) : Nat := min (minRetryNs * multi attempt) maxRetryNs

/-! ### connection bookkeeping -/

/-- the dial routine (`connecting`): at most one at a time -/
inductive Dial
  | none
  | inNet          -- connectRecover is dialing / backing off
  | added          -- dial succeeded and the connection was registered; connect1's tail is pending
  | failed         -- dial failed (or was discarded); connect1's tail is pending
  deriving DecidableEq, Repr

structure State where
  auto : Bool
  maxConns : Nat
  closed : Bool
  connected : Bool
  disconnected : Bool
  conns : Nat              -- connections in the list (alive or dead-but-callback-pending)
  dial : Dial
  attempt : Nat
  deriving DecidableEq, Repr

def init (auto : Bool) (maxConns : Nat) : State :=
  { auto := auto, maxConns := maxConns, closed := false, connected := false, disconnected := true,
    conns := 0, dial := if auto then .inNet else .none, attempt := 0 }

def cap (s : State) : Nat := max 1 s.maxConns

def startDial (s : State) : State :=
  match s.dial with
  | .none => { s with dial := .inNet }
  | _ => s

inductive Action
  | close                  -- Client.Close()
  | connSlow               -- slow path of conn(): no usable connection found
  | connClosed             -- onConnClosed callback of one listed connection
  | lateConnClosed         -- onConnClosed callback of a connection that Close() already dropped
  | channelsReached        -- onConnChannelsReached
  | dialSuccess            -- tail of connectRecover after a successful dial
  | dialFail               -- connectRecover returned an error
  | connectTail            -- tail of connect1 (clears `connecting`, maybe re-arms)
  deriving DecidableEq, Repr

def step (s : State) : Action → Option State
  | .close =>
    if s.closed then some s else
    some { s with closed := true, conns := 0, connected := false, disconnected := true,
                  dial := match s.dial with | .inNet => .inNet | _ => .none }
      -- the routine is stopped and `connecting` cleared; a dial already in the network finishes later
  | .connSlow =>
    if s.closed then some s else
    if s.conns > 0 then some s else
    some (startDial { s with connected := false, disconnected := true })
  | .connClosed =>
    if s.conns = 0 then none else
    let s1 := { s with conns := s.conns - 1 }
    if s1.conns > 0 then some s1 else
    if s.closed then some s1 else
    let s2 := { s1 with connected := false, disconnected := true }
    some (if s.auto then startDial s2 else s2)
  | .lateConnClosed =>
    -- conns.remove is a no-op; the list is empty after Close; a closed client starts no connect
    if s.closed ∧ s.conns = 0 then some s else none
  | .channelsReached =>
    if s.maxConns = 0 then some s else
    if s.closed then some s else
    if s.conns < s.maxConns then some (startDial s) else some s
  | .dialSuccess =>
    match s.dial with
    | .inNet =>
      if s.closed then some { s with dial := .failed }         -- conn.Close(); return closed status
      else some { s with conns := s.conns + 1, attempt := 0, connected := true, disconnected := false,
                         dial := .added }
    | _ => none
  | .dialFail =>
    match s.dial with
    | .inNet => some { s with dial := .failed, attempt := s.attempt + 1 }
    | _ => none
  | .connectTail =>
    match s.dial with
    | .added => some { s with dial := .none }
    | .failed => some { s with dial := if s.auto ∧ ¬ s.closed then .inNet else .none }
    | _ => none

def run (s : State) : List Action → State
  | [] => s
  | a :: as => match step s a with
    | some s' => run s' as
    | none => run s as

end SpecVerif.Mpx.Client
