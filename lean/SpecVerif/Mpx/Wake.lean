/-
Model of the wake-up protocol between a byte queue (baselibrary alloc/bytequeue, as used for the
connection write queue and for every channel receive queue) and its single reader loop in mpx
(`conn.sendLoop`, `channel.Receive`, and the rpc `Receive` loops).

Queue: `head` = unread messages in the head block, `more` = unread messages per overflow block
(a message that does not fit the last block opens a new one), `token` = the one-slot notification
channel holds an element.

 * `Write`    : appends to the last block or opens a new overflow block, then posts the token.
 * `Read`     : takes from the head block; an exhausted head is replaced by the first overflow block.
 * `Close`    : marks the queue closed and posts the token; later `ReadWait` calls return the
                closed channel.
 * `ReadWait` : looks at the HEAD BLOCK ONLY: non-empty → a closed (always ready) channel;
                otherwise it consumes a pending token and returns the notification channel.

Reader loop (repaired order): `wait := ReadWait()`, then `Read` until empty, (flush), then block on
`wait`. The unrepaired order (`Read` until empty, flush, then `ReadWait()` and block) is `OldPC`.
-/
namespace SpecVerif.Mpx.Wake

inductive PC
  | start          -- about to call ReadWait()
  | drain          -- holds `wait`; reading until the queue is empty
  | park           -- blocked in select on `wait`
  deriving DecidableEq, Repr

structure State where
  head : Nat
  more : List Nat
  token : Bool
  closed : Bool            -- Close() was called (connection or channel closed)
  pc : PC
  waitClosed : Bool        -- `wait` is the closed channel (always ready)
  written : Bool           -- ghost: a Write happened since the reader's last ReadWait()
  deriving DecidableEq, Repr

def init : State :=
  { head := 0, more := [], token := false, closed := false, pc := .start, waitClosed := false,
    written := false }

inductive Action
  | writeLast      -- Write: the message fits the last block
  | writeNew       -- Write: the message opens a new overflow block
  | close          -- Close(): marks the queue closed and posts the notification (notifyReadAll)
  | readWait       -- reader: wait := ReadWait()
  | read           -- reader: one Read()
  | restart        -- reader: Receive returned a message to its caller; the next call starts over
  | wake           -- reader: the select on `wait` fires
  deriving DecidableEq, Repr

def queueEmpty (s : State) : Bool := s.head == 0 && s.more.isEmpty

/-- add one message to the last block of `more` -/
def bumpLast : List Nat → List Nat
  | [] => []
  | [b] => [b + 1]
  | b :: bs => b :: bumpLast bs

def step (s : State) : Action → Option State
  | .writeLast =>
    some (if s.more.isEmpty then { s with head := s.head + 1, token := true, written := true }
          else { s with more := bumpLast s.more, token := true, written := true })
  | .writeNew =>
    some { s with more := s.more ++ [1], token := true, written := true }
  | .close => some { s with closed := true, token := true, written := true }
  | .readWait =>
    if s.pc = .start then
      if s.closed || decide (s.head > 0) then some { s with pc := .drain, waitClosed := true, written := false }
      else some { s with pc := .drain, waitClosed := false, token := false, written := false }
    else none
  | .read =>
    if s.pc = .drain then
      if s.head > 0 then some { s with head := s.head - 1 }
      else match s.more with
        | b :: rest => some { s with head := b - 1, more := rest }
        | [] => some { s with pc := .park }
    else none
  | .restart => if s.pc = .drain then some { s with pc := .start } else none
  | .wake =>
    if s.pc = .park then
      if s.waitClosed then some { s with pc := .start }
      else if s.token then some { s with pc := .start, token := false }
      else none
    else none

def run (s : State) : List Action → State
  | [] => s
  | a :: as => match step s a with
    | some s' => run s' as
    | none => run s as

/-! ### the unrepaired order: Read until empty, then ReadWait(), then block -/

inductive OldPC
  | drain | waitCall | park
  deriving DecidableEq, Repr

structure OldState where
  head : Nat
  more : List Nat
  token : Bool
  pc : OldPC
  waitClosed : Bool
  deriving DecidableEq, Repr

def oldInit : OldState := { head := 0, more := [], token := false, pc := .drain, waitClosed := false }

def oldStep (s : OldState) : Action → Option OldState
  | .writeLast =>
    some (if s.more.isEmpty then { s with head := s.head + 1, token := true }
          else { s with more := bumpLast s.more, token := true })
  | .writeNew => some { s with more := s.more ++ [1], token := true }
  | .read =>
    if s.pc = .drain then
      if s.head > 0 then some { s with head := s.head - 1 }
      else match s.more with
        | b :: rest => some { s with head := b - 1, more := rest }
        | [] => some { s with pc := .waitCall }
    else none
  | .readWait =>
    if s.pc = .waitCall then
      if s.head > 0 then some { s with pc := .park, waitClosed := true }
      else some { s with pc := .park, waitClosed := false, token := false }
    else none
  | .wake =>
    if s.pc = .park then
      if s.waitClosed then some { s with pc := .drain }
      else if s.token then some { s with pc := .drain, token := false }
      else none
    else none
  | .restart => none
  | .close => none

def oldRun (s : OldState) : List Action → OldState
  | [] => s
  | a :: as => match oldStep s a with
    | some s' => oldRun s' as
    | none => oldRun s as

end SpecVerif.Mpx.Wake
