/-
Model of the server side of the mpx handshake (conn_handshake.go handshakeAsServer, repaired tree)
and of the dispatch of received frames (conn_receive.go receiveMessage).
-/
import SpecVerif.Pinned
namespace SpecVerif.Mpx.Handshake
open SpecVerif

/-- what the peer sent first after the protocol line -/
inductive First
  | request (versions : List Nat) (compressions : List Nat)   -- a well-formed connect request
  | otherMessage                                              -- any other well-formed message
  | garbage                                                   -- not a parsable frame / EOF / cut
  deriving DecidableEq, Repr

inductive Outcome
  | serve (lz4 : Bool)     -- handshaked is set, the loops start
  | refuse                 -- refusal written, connection closed
  | fail                   -- error status, connection closed
  deriving DecidableEq, Repr

def version10 : Nat := 10
def compLz4 : Nat := 1

/-- handshakeAsServer as a function of what the peer sent -/
def serverHandshake (line : String) (first : First) : Outcome :=
  if line ≠ Pinned.protocolLine then .fail else
  match first with
  | .request vs cs => if version10 ∈ vs then .serve (decide (compLz4 ∈ cs)) else .refuse
  | .otherMessage => .fail
  | .garbage => .fail

/-! ### dispatch of frames after the handshake -/

inductive Msg
  | open_ (id : Nat)
  | close (id : Nat)
  | data (id : Nat)
  | window (id : Nat)
  | batch (ms : List Msg)
  | unknown                -- a well-formed message with an unexpected code (incl. connect messages)

structure Conn where
  channels : List Nat      -- ids in the channel map
  handlers : Nat           -- handler invocations so far
  dropped : Nat            -- frames dropped because the channel is unknown

inductive Result | ok | connError deriving DecidableEq, Repr

mutual
/-- receiveMessage: every parsed message is answered with OK or a connection error, never a panic -/
def dispatch (c : Conn) (insideBatch : Bool) : Msg → Conn × Result
  | .open_ id =>
    if id ∈ c.channels then (c, .connError)          -- duplicate id: connection error
    else ({ c with channels := id :: c.channels, handlers := c.handlers + 1 }, .ok)
  | .close id =>
    if id ∈ c.channels then ({ c with channels := c.channels.erase id }, .ok)
    else ({ c with dropped := c.dropped + 1 }, .ok)
  | .data id => if id ∈ c.channels then (c, .ok) else ({ c with dropped := c.dropped + 1 }, .ok)
  | .window id => if id ∈ c.channels then (c, .ok) else ({ c with dropped := c.dropped + 1 }, .ok)
  | .batch ms => if insideBatch then (c, .connError) else dispatchAll c ms
  | .unknown => (c, .connError)

def dispatchAll (c : Conn) : List Msg → Conn × Result
  | [] => (c, .ok)
  | m :: ms =>
    match dispatch c true m with
    | (c', .ok) => dispatchAll c' ms
    | (c', .connError) => (c', .connError)
end

/-- a whole connection: handshake, then frames until the first connection error -/
def serveFrames (c : Conn) : List Msg → Conn
  | [] => c
  | m :: ms =>
    match dispatch c false m with
    | (c', .ok) => serveFrames c' ms
    | (c', .connError) => c'

def connection (line : String) (first : First) (frames : List Msg) : Conn :=
  match serverHandshake line first with
  | .serve _ => serveFrames ⟨[], 0, 0⟩ frames
  | _ => ⟨[], 0, 0⟩          -- run() returns before the loops start: no frame is ever read

/-- conn_reader.go readLine(max): bytes are taken one at a time until a line feed or `max` bytes;
`none` = the stream ended first (ReadByte error) -/
def takeLine : Nat → List UInt8 → Option (List UInt8)
  | 0, _ => some []
  | _ + 1, [] => none
  | n + 1, c :: s => if c = 10 then some [c] else (takeLine n s).map (c :: ·)

end SpecVerif.Mpx.Handshake
