/-
Model of the close-listener protocol of mpx/conn.go (repaired tree): OnClosed/addClosed,
removeClosed (unsubscribe), close() setting the flag and notifyClosed taking the listeners.
One listener with its registrar thread, an optional unsubscribe, and the closer; any number of
listeners is the product of independent copies sharing the closer's flag.
Steps = the atomic operations: flag test, map insert, map delete, flag set, one callback call.
-/
namespace SpecVerif.Mpx.Listeners

/-- registrar program counter (addClosed) -/
inductive RPC
  | start
  | checked1        -- first test saw "not closed"
  | inserted        -- entry inserted
  | sawClosed       -- second test saw "closed": about to try to delete its own entry
  | done (ok : Bool) -- returned id (true) or 0 (false)
  deriving DecidableEq, Repr

/-- closer program counter (close + notifyClosed) -/
inductive CPC
  | open
  | flagSet         -- closed flag set, notification loop running
  | finished        -- a pass found nothing left: notifyClosed returned
  deriving DecidableEq, Repr

structure State where
  closed : Bool
  present : Bool            -- the entry is in the map
  insertedAfterFlag : Bool  -- the entry was inserted after the flag was set (a pass may miss it)
  taken : Bool              -- notifyClosed deleted the entry and will call / has called it
  called : Nat
  closedSeenInCallback : Bool  -- the flag was set when the callback ran
  reg : RPC
  closer : CPC
  unsubbed : Bool           -- the user called the unsubscribe function
  unsubBeforeClose : Bool   -- ... before the closer started
  deriving DecidableEq, Repr

def init : State :=
  { closed := false, present := false, insertedAfterFlag := false, taken := false, called := 0,
    closedSeenInCallback := true, reg := .start, closer := .open, unsubbed := false,
    unsubBeforeClose := false }

inductive Action
  | regStep         -- the registrar executes its next atomic operation
  | unsub           -- the user unsubscribes (only after registration reported success)
  | setFlag         -- close(): closed.Set()
  | take            -- notifyClosed: Delete(id) succeeded for this entry
  | call            -- ... and calls the listener
  | finish          -- a pass over the map found nothing to take
  deriving DecidableEq, Repr

def step (s : State) : Action → Option State
  | .regStep =>
    match s.reg with
    | .start => some (if s.closed then { s with reg := .done false } else { s with reg := .checked1 })
    | .checked1 => some { s with present := true, insertedAfterFlag := s.closed, reg := .inserted }
    | .inserted => some (if s.closed then { s with reg := .sawClosed } else { s with reg := .done true })
    | .sawClosed =>
      -- Delete(id): report failure only when the entry was still there
      some (if s.present then { s with present := false, reg := .done false } else { s with reg := .done true })
    | .done _ => none
  | .unsub =>
    if s.reg = .done true ∧ ¬ s.unsubbed then
      some { s with present := false, unsubbed := true, unsubBeforeClose := s.closer = .open }
    else none
  | .setFlag => if s.closer = .open then some { s with closed := true, closer := .flagSet } else none
  | .take =>
    if s.closer = .flagSet ∧ s.present then some { s with present := false, taken := true } else none
  | .call =>
    if s.taken ∧ s.called = 0 then
      some { s with called := s.called + 1, closedSeenInCallback := s.closed }
    else none
  | .finish =>
    -- the loop ends when a pass takes nothing; a weakly consistent Range may only miss entries that
    -- were inserted concurrently, i.e. after the flag was set
    if s.closer = .flagSet ∧ (¬ s.present ∨ s.insertedAfterFlag) ∧ (s.taken → s.called = 1) then
      some { s with closer := .finished }
    else none

def run (s : State) : List Action → State
  | [] => s
  | a :: as => match step s a with
    | some s' => run s' as
    | none => run s as

end SpecVerif.Mpx.Listeners
