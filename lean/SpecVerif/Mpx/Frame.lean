/-
Model of the framing of mpx (conn_writer.go write / conn_reader.go read): every message is sent as
a 4-byte big-endian length followed by the message bytes; the reader is `io.ReadFull` on the byte
stream, i.e. a function of the stream alone (however TCP chunks it).
-/
import SpecVerif.Basic
namespace SpecVerif.Mpx.Frame
open SpecVerif

def frame (m : Bytes) : Bytes := toBE 4 m.length ++ m

def stream (ms : List Bytes) : Bytes := (ms.map frame).flatten

/-- what a reader can take from the bytes received so far -/
inductive Next
  | msg (m : Bytes) (rest : Bytes)   -- a complete frame
  | needMore                          -- ReadFull would block / fail with EOF: never a message
  deriving Repr

def readOne (s : Bytes) : Next :=
  if s.length < 4 then .needMore
  else
    let n := be (s.take 4)
    if (s.drop 4).length < n then .needMore
    else .msg ((s.drop 4).take n) ((s.drop 4).drop n)

/-- all complete frames of the received bytes, in order, and the undelivered remainder -/
def readAll : Nat → Bytes → List Bytes × Bytes
  | 0, s => ([], s)
  | fuel+1, s =>
    match readOne s with
    | .needMore => ([], s)
    | .msg m rest => let (ms, r) := readAll fuel rest; (m :: ms, r)

/-! ### reading the body in chunks (conn_reader.go read, repaired tree) -/

/-- after the length prefix: `rem` bytes are taken in chunks of at most `c` bytes; a chunk is
allocated (`buf.Grow`) only once the previous chunks were received completely. `none` = ReadFull
blocks or fails: no message. -/
def readChunks (c : Nat) : Nat → Nat → Bytes → Option (Bytes × Bytes)
  | _, 0, s => some ([], s)
  | 0, _ + 1, _ => none
  | fuel + 1, rem + 1, s =>
    let n := min (rem + 1) c
    if s.length < n then none else
      match readChunks c fuel (rem + 1 - n) (s.drop n) with
      | some (m, rest) => some (s.take n ++ m, rest)
      | none => none

/-- bytes allocated by `read` for a frame announcing `rem` bytes when only `avail` bytes ever arrive -/
def allocated (c : Nat) : Nat → Nat → Nat → Nat
  | _, 0, _ => 0
  | 0, _ + 1, _ => 0
  | fuel + 1, rem + 1, avail =>
    let n := min (rem + 1) c
    if avail < n then n else n + allocated c fuel (rem + 1 - n) (avail - n)

end SpecVerif.Mpx.Frame
