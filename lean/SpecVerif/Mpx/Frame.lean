/-
Model of the framing of mpx (conn_writer.go write / conn_reader.go read): every message is sent as
a 4-byte big-endian length followed by the message bytes; the reader is `io.ReadFull` on the byte
stream, i.e. a function of the stream alone (however TCP chunks it).
-/
import SpecVerif.Basic
namespace SpecVerif.Mpx.Frame
open SpecVerif

def frame (m : Bytes) : Bytes := toBE 4 m.length ++ m

def stream (ms : List Bytes) : Bytes := (ms.map frame).flatten

/-- what a reader can take from the bytes received so far -/
inductive Next
  | msg (m : Bytes) (rest : Bytes)   -- a complete frame
  | needMore                          -- ReadFull would block / fail with EOF: never a message
  deriving Repr

def readOne (s : Bytes) : Next :=
  if s.length < 4 then .needMore
  else
    let n := be (s.take 4)
    if (s.drop 4).length < n then .needMore
    else .msg ((s.drop 4).take n) ((s.drop 4).drop n)

/-- all complete frames of the received bytes, in order, and the undelivered remainder -/
def readAll : Nat → Bytes → List Bytes × Bytes
  | 0, s => ([], s)
  | fuel+1, s =>
    match readOne s with
    | .needMore => ([], s)
    | .msg m rest => let (ms, r) := readAll fuel rest; (m :: ms, r)

end SpecVerif.Mpx.Frame
