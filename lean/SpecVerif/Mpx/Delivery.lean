/-
Model of message delivery over one mpx connection (one direction): per-channel send calls are
serialized by the channel's send mutex, all frames go through the connection's write queue (FIFO),
the wire (FIFO) and the receive loop, which dispatches by channel id into per-channel receive
queues (FIFO); a frame for a channel that the receiver has ended locally is dropped.
Payloads carried by open and close frames are messages like any other (a close frame additionally
marks the end).
-/
import SpecVerif.Basic
namespace SpecVerif.Mpx.Delivery
open SpecVerif

/-- a frame on the connection: channel id, payload (possibly empty), whether it closes the channel -/
structure Fr where
  ch : Nat
  data : Bytes
  close : Bool
  deriving DecidableEq, Repr

structure State where
  sent : Nat → List Bytes        -- non-empty payloads accepted by Send/SendAndClose, per channel
  sclosed : Nat → Bool           -- the sender has closed the channel (SendAndClose/Free)
  writeq : List Fr               -- connection write queue
  wire : List Fr                 -- bytes in flight (as whole frames: see Mpx/Frame for cuts)
  recvq : Nat → List Bytes       -- per-channel receive queue
  closedB : Nat → Bool           -- receiver has seen the close frame
  ended : Nat → Bool             -- receiver ended the channel locally (Free/handler exit)
  delivered : Nat → List Bytes   -- what Receive returned so far

def init : State :=
  { sent := fun _ => [], sclosed := fun _ => false, writeq := [], wire := [], recvq := fun _ => [], closedB := fun _ => false,
    ended := fun _ => false, delivered := fun _ => [] }

def upd {α} (f : Nat → α) (c : Nat) (v : α) : Nat → α := fun x => if x = c then v else f x

/-- payloads of channel `c` in a frame list, in order (empty payloads are not messages) -/
def payloads (c : Nat) (fs : List Fr) : List Bytes :=
  (fs.filter fun f => f.ch = c ∧ f.data ≠ []).map (·.data)

inductive Action
  | send (c : Nat) (d : Bytes) (close : Bool)   -- Send / SendAndClose (d may be empty only with close)
  | transmit                                    -- send loop: write queue → wire
  | dispatch                                    -- receive loop: wire → channel queue
  | receive (c : Nat)                           -- user Receive on channel c
  | endLocal (c : Nat)                          -- receiver ends channel c itself

def step (s : State) : Action → Option State
  | .send c d cl =>
    if s.sclosed c then none      -- statusChannelClosed
    else some { s with sent := if d = [] then s.sent else upd s.sent c (s.sent c ++ [d]),
                       sclosed := if cl then upd s.sclosed c true else s.sclosed,
                       writeq := s.writeq ++ [⟨c, d, cl⟩] }
  | .transmit => match s.writeq with
    | f :: rest => some { s with writeq := rest, wire := s.wire ++ [f] }
    | [] => none
  | .dispatch => match s.wire with
    | f :: rest =>
      if s.ended f.ch ∨ s.closedB f.ch then some { s with wire := rest }      -- dropped silently
      else some { s with wire := rest,
                         recvq := if f.data = [] then s.recvq else upd s.recvq f.ch (s.recvq f.ch ++ [f.data]),
                         closedB := if f.close then upd s.closedB f.ch true else s.closedB }
    | [] => none
  | .receive c => match s.recvq c with
    | d :: rest => some { s with recvq := upd s.recvq c rest, delivered := upd s.delivered c (s.delivered c ++ [d]) }
    | [] => none
  | .endLocal c => some { s with ended := upd s.ended c true }

def run (s : State) : List Action → State
  | [] => s
  | a :: as => match step s a with
    | some s' => run s' as
    | none => run s as

end SpecVerif.Mpx.Delivery
