/-
Model of the reference-counting protocol of mpx/channel.go (repaired tree): one channel object,
one sequential user thread (API calls, then one Free), any number of connection-side frees
(send loop on a close frame, receiveClose, closeChannels) and any number of receive-loop
dispatches holding a possibly stale pointer taken from the channel map.
Steps are the atomic operations of the code: one `refs.Add`, one `CompareAndSwap`, one
`state.Load/Swap`. A successful `tryAcquire` (Load + CAS) is linearized at its CAS.
-/
namespace SpecVerif.Mpx.Chan

/-- program counter of the user thread -/
inductive UPC
  | idle        -- holds the user reference, may call methods or Free
  | callPre     -- in acquire(), before refs.Add(1)
  | callLoad    -- after refs.Add(1), before state.Load()
  | callHold    -- holds an acquired reference (method body)
  | freePre     -- Free(): freed flag set, closeUser's acquire() before refs.Add(1)
  | freeLoad
  | freeHold    -- closeUser body (sends the close frame, closes the state)
  | freeUser    -- closeUser released; about to release the user's own reference
  | done
  deriving DecidableEq, Repr

/-- program counter of the (single winning) connection-side free -/
inductive CPC
  | none        -- nobody has claimed the connection reference yet
  | claimed     -- freec CAS won, before state.Load()
  | loaded      -- state loaded and closed, before release()
  | released
  deriving DecidableEq, Repr

structure State where
  refs : Int
  hasState : Bool          -- the state pointer is non-nil
  user : UPC
  conn : CPC
  recvPre : Nat            -- receive dispatches after a successful tryAcquire CAS, before state.Load()
  recvHold : Nat           -- receive dispatches holding an acquired reference
  swapPending : Nat        -- threads that decremented refs to 0 and have not yet swapped the state out
  dropped : Nat            -- frames dropped because the channel was already freed
  panic : Bool
  deriving DecidableEq, Repr

def init : State :=
  { refs := 2, hasState := true, user := .idle, conn := .none, recvPre := 0, recvHold := 0,
    swapPending := 0, dropped := 0, panic := false }

inductive Action
  | userCall        -- the user starts an API call (Send, Receive, Context, ...)
  | userFree        -- the user / handler exit calls Free()
  | userStep        -- the user thread executes its next atomic operation
  | connFree        -- a connection-side free(): CAS on freec (no-op when already claimed)
  | connStep        -- the winning connection-side free executes its next atomic operation
  | recvAcquire     -- a receive dispatch runs tryAcquire on a pointer it got from the map
  | recvLoad        -- ... loads the state
  | recvRelease     -- ... releases
  | swap            -- a thread that decremented to zero swaps the state pointer out
  deriving DecidableEq, Repr

/-- release(): refs.Add(-1); when the result is not positive the caller goes on to swap the state -/
def release (s : State) : State :=
  { s with refs := s.refs - 1, swapPending := s.swapPending + (if s.refs - 1 > 0 then 0 else 1) }

/-- acquire(): refs.Add(1); panics when the result is 1 (the channel was freed) -/
def acquireAdd (s : State) : State :=
  { s with refs := s.refs + 1, panic := s.panic || decide (s.refs + 1 = 1) }

/-- state.Load(): panics on nil -/
def loadState (s : State) : State := { s with panic := s.panic || !s.hasState }

/-- one atomic step; `none` = the action is not enabled in this state -/
def step (s : State) : Action → Option State
  | .userCall => if s.user = .idle then some { s with user := .callPre } else none
  | .userFree => if s.user = .idle then some { s with user := .freePre } else none
  | .userStep =>
    match s.user with
    | .callPre => some { acquireAdd s with user := .callLoad }
    | .callLoad => some { loadState s with user := .callHold }
    | .callHold => some { release s with user := .idle }
    | .freePre => some { acquireAdd s with user := .freeLoad }
    | .freeLoad => some { loadState s with user := .freeHold }
    | .freeHold => some { release s with user := .freeUser }
    | .freeUser => some { release s with user := .done }
    | _ => none
  | .connFree =>
    match s.conn with
    | .none => some { s with conn := .claimed }
    | _ => some s                                  -- CAS lost: return
  | .connStep =>
    match s.conn with
    | .claimed => some { loadState s with conn := .loaded }
    | .loaded => some { release s with conn := .released }
    | _ => none
  | .recvAcquire =>
    if s.refs > 0 then some { s with refs := s.refs + 1, recvPre := s.recvPre + 1 }
    else some { s with dropped := s.dropped + 1 }   -- refs <= 0: the frame is dropped
  | .recvLoad =>
    if s.recvPre > 0 then
      some { loadState s with recvPre := s.recvPre - 1, recvHold := s.recvHold + 1 }
    else none
  | .recvRelease =>
    if s.recvHold > 0 then some { release s with recvHold := s.recvHold - 1 } else none
  | .swap =>
    if s.swapPending > 0 then
      some { s with hasState := false, swapPending := s.swapPending - 1, panic := s.panic || !s.hasState }
    else none

/-- run a schedule; disabled actions are skipped -/
def run (s : State) : List Action → State
  | [] => s
  | a :: as => match step s a with
    | some s' => run s' as
    | none => run s as

/-- references held by the user thread beyond its base reference -/
def userExtra : UPC → Int
  | .callLoad | .callHold | .freeLoad | .freeHold => 1
  | _ => 0

def userBase : UPC → Int
  | .done => 0
  | _ => 1

def connBase : CPC → Int
  | .none => 1
  | _ => 0

def connExtra : CPC → Int
  | .claimed | .loaded => 1
  | _ => 0

/-- the invariant: the counter equals the number of holders; the state is present exactly while
somebody holds a reference or the last releaser has not yet swapped it out; nothing panicked -/
structure Inv (s : State) : Prop where
  count : s.refs = userBase s.user + userExtra s.user + connBase s.conn + connExtra s.conn +
            s.recvPre + s.recvHold
  swap_le : s.swapPending ≤ 1
  swap_zero : s.swapPending = 1 → s.refs = 0
  state_iff : s.hasState = true ↔ (s.refs > 0 ∨ s.swapPending = 1)
  no_panic : s.panic = false

end SpecVerif.Mpx.Chan
