/-
Model of the race between `conn.closeChannels` and `conn.receiveOpen` (repaired tree): the closer
sets `channelsClosed` and then frees every channel it finds in the map; the receive loop registers
a channel from an open frame and then re-checks the flag (the re-check is the repair).
-/
namespace SpecVerif.Mpx.LateOpen

inductive RPC | start | registered | done deriving DecidableEq, Repr
inductive CPC | start | flagSet | ranged deriving DecidableEq, Repr

structure State where
  flag : Bool          -- channelsClosed
  inMap : Bool         -- the new channel is in the channel map
  chClosed : Bool      -- the channel has been freed/closed (its context cancelled, its queue closed)
  handler : Bool       -- the handler was started
  reg : RPC
  closer : CPC
  deriving DecidableEq, Repr

def init : State := ⟨false, false, false, false, .start, .start⟩

inductive Action | regStep | closeStep deriving DecidableEq, Repr

/-- `recheck = false` is the pinned (unrepaired) receiveOpen, which returns right after starting
the handler -/
def step (recheck : Bool) (s : State) : Action → Option State
  | .regStep => match s.reg with
    | .start => some { s with inMap := true, handler := true, reg := .registered }   -- GetOrSet + start handler
    | .registered =>
      if recheck ∧ s.flag ∧ s.inMap then some { s with inMap := false, chClosed := true, reg := .done }
      else some { s with reg := .done }
    | .done => none
  | .closeStep => match s.closer with
    | .start => some { s with flag := true, closer := .flagSet }
    | .flagSet => some (if s.inMap then { s with chClosed := true, closer := .ranged } else { s with closer := .ranged })
    | .ranged => none

def run (recheck : Bool) (s : State) : List Action → State
  | [] => s
  | a :: as => match step recheck s a with
    | some s' => run recheck s' as
    | none => run recheck s as

end SpecVerif.Mpx.LateOpen
