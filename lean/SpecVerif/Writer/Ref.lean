/-
Reference encoder driven by a (well-nested) writer program: the bytes the pinned layout
(`encList` / `encMsg` of the children) prescribes, computed without the writer state machine.
The drivers compare it with the writer model's output on every valid program, which ties the
layout functions the theorems are about to the bytes the implementation produces.
-/
import SpecVerif.Writer.Api
namespace SpecVerif.Writer
open SpecVerif

inductive Frame where
  | list (pending : Option Nat) (es : List Bytes)
  | msg (pending : Option Nat) (fs : List (Nat × Bytes))
  deriving Repr

/-- attach finished bytes to the parent frame (as element or as the field whose tag is pending) -/
def attach (parent : Frame) (tagOfChild : Option Nat) (b : Bytes) : Option Frame :=
  match parent, tagOfChild with
  | .list p es, none => some (.list p (es ++ [b]))
  | .msg p fs, some t => some (.msg p (fs ++ [(t, b)]))
  | _, _ => none

structure RefState where
  stack : List Frame      -- head = innermost open container
  result : Option Bytes
  value : Option Bytes    -- pending root value

def refStep (s : RefState) : Call → Option RefState
  | .msg => if s.stack.isEmpty then some { s with stack := [.msg none []] } else none
  | .list => if s.stack.isEmpty then some { s with stack := [.list none []] } else none
  | .v enc => if s.stack.isEmpty then some { s with value := some enc } else none
  | .vbuild => match s.value with | some b => some { s with result := some b, value := none } | none => none
  | .f _ tag enc =>
    match s.stack with
    | .msg p fs :: rest => some { s with stack := .msg p (fs ++ [(tag, enc)]) :: rest }
    | _ => none
  | .e _ enc =>
    match s.stack with
    | .list p es :: rest => some { s with stack := .list p (es ++ [enc]) :: rest }
    | _ => none
  | .fmsg _ tag => match s.stack with | .msg _ _ :: _ => some { s with stack := .msg (some tag) [] :: s.stack } | _ => none
  | .flist _ tag => match s.stack with | .msg _ _ :: _ => some { s with stack := .list (some tag) [] :: s.stack } | _ => none
  | .emsg _ => match s.stack with | .list _ _ :: _ => some { s with stack := .msg none [] :: s.stack } | _ => none
  | .elist _ => match s.stack with | .list _ _ :: _ => some { s with stack := .list none [] :: s.stack } | _ => none
  | .end_ _ | .build _ =>
    match s.stack with
    | [] => none
    | top :: rest =>
      let (pending, b) := match top with
        | .list p es => (p, encList es)
        | .msg p fs => (p, encMsg fs)
      match rest with
      | [] => if pending.isNone then some { s with stack := [], result := some b } else none
      | parent :: rest' =>
        match attach parent pending b with
        | some parent' => some { s with stack := parent' :: rest' }
        | none => none
  | _ => none

/-- the reference bytes of a well-nested program, `none` when the program is outside that class -/
def refRun (cs : List Call) : Option Bytes :=
  match cs.foldlM refStep (⟨[], none, none⟩ : RefState) with
  | some s => if s.stack.isEmpty then s.result else none
  | none => none

end SpecVerif.Writer
