/-
Model of /repo/internal/writer (writer.go, stack*.go, msg.go, list.go, value.go), as of the
repaired tree: the writer is a stack machine over a byte buffer with two side tables.
Every Go slice expression / nil dereference is an explicit `panic` outcome.
-/
import SpecVerif.Wire.Encode
import SpecVerif.Wire.Decode
namespace SpecVerif.Writer
open SpecVerif Pinned

inductive EType | data | list | element | message | field
  deriving DecidableEq, Repr

/-- stackEntry: `tableStart` doubles as the end offset (data) and as the tag (field). -/
structure Entry where
  start : Nat
  tableStart : Nat
  type_ : EType
  deriving DecidableEq, Repr

/-- writerState (without capacities): buffer, entry stack (top = last), element and field tables. -/
structure WState where
  buf : Bytes
  stack : List Entry
  elements : List Nat
  fields : List (Nat × Nat)
  deriving Repr

/-- errors are identified by the index of the call that raised them (stickiness = same identity) -/
inductive WErr | closed | at (call : Nat)
  deriving DecidableEq, Repr

/-- writer: nil state after a failure or after the root value ended -/
structure W where
  st : Option WState
  err : Option WErr
  release : Bool    -- releaseState (false for spec.NewWriter)
  deriving Repr

/-- result of one API call -/
inductive Out where
  | ok                     -- nil error / no return value
  | built (b : Bytes)      -- Build() returned bytes
  | err (e : WErr)
  | bool (b : Bool)
  | nat (n : Nat)
  | panic
  | badop                  -- a call the Go type system does not allow (wrong handle kind)
  deriving DecidableEq, Repr

def fresh (buf : Bytes) (release : Bool := false) : W :=
  { st := some ⟨buf, [], [], []⟩, err := none, release := release }

/-- the permanently closed writer that ended message handles point to -/
def closedW : W := { st := none, err := some .closed, release := false }

-- failure / close -------------------------------------------------------------------------------

/-- writer.fail: keep the first error, release the state -/
def fail (w : W) (e : WErr) : W × WErr :=
  match w.err with
  | some e0 => (w, e0)
  | none => ({ w with st := none, err := some e }, e)

/-- writer.close: set errClosed, release the state when auto-releasing -/
def close (w : W) : W × Option WErr :=
  match w.err with
  | some e0 => (w, some e0)
  | none =>
    if w.release then ({ w with st := none, err := some .closed }, none)
    else ({ w with err := some .closed }, none)

/-- Writer.Free (repaired): close, then release the state if still held -/
def free (w : W) : W × Out :=
  let (w1, _) := close w
  match w1.st with
  | none => (w1, .ok)
  | some _ => ({ w1 with st := none }, .ok)

/-- Writer.Reset(buf) with an emptied buffer -/
def reset (w : W) : W × Out :=
  ({ w with st := some ⟨[], [], [], []⟩, err := none }, .ok)

-- stack helpers ---------------------------------------------------------------------------------

def peek (s : WState) : Option Entry := s.stack.getLast?
def peek2 (s : WState) : Option Entry := s.stack.dropLast.getLast?
def pop (s : WState) : Option (Entry × WState) :=
  match s.stack.getLast? with
  | none => none
  | some e => some (e, { s with stack := s.stack.dropLast })
def push (s : WState) (e : Entry) : WState := { s with stack := s.stack ++ [e] }

/-- messageStack.insert on the suffix of `fields` starting at `tableOffset` (panics = none) -/
def insertAt (fields : List (Nat × Nat)) (tableOffset : Nat) (f : Nat × Nat) : Option (List (Nat × Nat)) :=
  if tableOffset > fields.length then none
  else some (fields.take tableOffset ++ insertField f (fields.drop tableOffset))

-- the operations run with a live state; `idx` is the call index used to name new errors --------

/-- writer.pushData -/
def pushData (w : W) (s : WState) (idx start stop : Nat) : W × Out :=
  match peek s with
  | some e =>
    if e.type_ = .data then
      let (w', e') := fail w (.at idx); (w', .err e')
    else ({ w with st := some (push s ⟨start, stop, .data⟩) }, .ok)
  | none => ({ w with st := some (push s ⟨start, stop, .data⟩) }, .ok)

/-- ValueWriter.<scalar>/Any: append the encoded bytes, push a data entry -/
def writeValue (w : W) (idx : Nat) (enc : Bytes) : W × Out :=
  match w.err with
  | some e => (w, .err e)
  | none =>
    match w.st with
    | none => (w, .panic)
    | some s =>
      let start := s.buf.length
      let s1 := { s with buf := s.buf ++ enc }
      pushData w s1 idx start s1.buf.length

/-- writer.popData on a live state: the data entry's end and the remaining state, or a failure -/
def popData (s : WState) : Option (Nat × WState) :=
  match pop s with
  | some (e, s1) => if e.type_ = .data then some (e.tableStart, s1) else none
  | none => none

def failOut (w : W) (idx : Nat) : W × Out :=
  let (w', e') := fail w (.at idx); (w', .err e')

/-- writer.element -/
def element (w : W) (idx : Nat) : W × Out :=
  match w.err with
  | some e => (w, .err e)
  | none =>
    match w.st with
    | none => (w, .panic)
    | some s =>
      match popData s with
      | none => failOut w idx
      | some (stop, s1) =>
        match peek s1 with
        | some l =>
          if l.type_ = .list then
            ({ w with st := some { s1 with elements := s1.elements ++ [stop - l.start] } }, .ok)
          else failOut w idx
        | none => failOut w idx

/-- writer.field -/
def field (w : W) (idx tag : Nat) : W × Out :=
  match w.err with
  | some e => (w, .err e)
  | none =>
    match w.st with
    | none => (w, .panic)
    | some s =>
      match popData s with
      | none => failOut w idx
      | some (stop, s1) =>
        match peek s1 with
        | some m =>
          if m.type_ = .message then
            match insertAt s1.fields m.tableStart (tag, stop - m.start) with
            | some fs => ({ w with st := some { s1 with fields := fs } }, .ok)
            | none => (w, .panic)
          else failOut w idx
        | none => failOut w idx

/-- writer.beginList / beginMessage (errors are ignored by the callers) -/
def beginList (w : W) : W :=
  match w.err, w.st with
  | none, some s => { w with st := some (push s ⟨s.buf.length, s.elements.length, .list⟩) }
  | _, _ => w

def beginMessage (w : W) : W :=
  match w.err, w.st with
  | none, some s => { w with st := some (push s ⟨s.buf.length, s.fields.length, .message⟩) }
  | _, _ => w

/-- writer.beginElement: the parent must be a list -/
def beginElement (w : W) (idx : Nat) : W :=
  match w.err, w.st with
  | none, some s =>
    match peek s with
    | some l => if l.type_ = .list then { w with st := some (push s ⟨s.buf.length, 0, .element⟩) }
                else (fail w (.at idx)).1
    | none => (fail w (.at idx)).1
  | _, _ => w

/-- writer.beginField: the parent must be a message -/
def beginField (w : W) (idx tag : Nat) : W :=
  match w.err, w.st with
  | none, some s =>
    match peek s with
    | some m => if m.type_ = .message then { w with st := some (push s ⟨s.buf.length, tag, .field⟩) }
                else (fail w (.at idx)).1
    | none => (fail w (.at idx)).1
  | _, _ => w

/-- writer.listLen (repaired: indexes the element table with tableStart) -/
def listLen (w : W) : Out :=
  match w.err with
  | some _ => .nat 0
  | none =>
    match w.st with
    | none => .panic
    | some s =>
      match peek s with
      | some l =>
        if l.type_ = .list then
          if l.tableStart > s.elements.length then .panic else .nat (s.elements.length - l.tableStart)
        else .nat 0
      | none => .nat 0

/-- messageStack.hasField via writer.hasField -/
def hasField (w : W) (tag : Nat) : Out :=
  match w.err with
  | some _ => .bool false
  | none =>
    match w.st with
    | none => .panic
    | some s =>
      match peek s with
      | some m =>
        if m.type_ = .message then
          if m.tableStart > s.fields.length then .panic
          else .bool ((s.fields.drop m.tableStart).any fun f => f.1 == tag)
        else .bool false
      | none => .bool false

/-- the table encoders never fail below MaxSize; sizes are assumed below 2^31 (see DESIGN) -/
def listTrailer (dataSize : Nat) (offs : List Nat) : Bytes :=
  let big := isBigList offs
  let table := encListTable big offs
  table ++ putRevU32 dataSize ++ putRevU32 table.length ++ [if big then tBigList else tList]

def msgTrailer (dataSize : Nat) (entries : List (Nat × Nat)) : Bytes :=
  let big := isBigMessage entries
  let table := encMsgTable big entries
  table ++ putRevU32 dataSize ++ putRevU32 table.length ++ [if big then tBigMessage else tMessage]

/-- result of the first half of writer.end: the state after ending the top object, and its bytes -/
inductive EndTop
  | done (s : WState) (b : Bytes)
  | failed
  | panicked

def endTop (s : WState) : EndTop :=
  match pop s with
  | none => .failed
  | some (e, s1) =>
    match e.type_ with
    | .data =>
      -- endValue: only as the root
      if s.stack.length > 1 then .failed
      else
        match slice? s1.buf e.start s1.buf.length with
        | some b => .done s1 b
        | none => .panicked
    | .list =>
      if e.tableStart > s1.elements.length ∨ e.start > s1.buf.length then .panicked else
      let offs := s1.elements.drop e.tableStart
      let body := s1.buf.length - e.start
      let buf := s1.buf ++ listTrailer body offs
      let s2 := { s1 with buf := buf, elements := s1.elements.take e.tableStart }
      -- pushData
      (match peek s2 with
       | some t => if t.type_ = .data then .failed else
          let s3 := push s2 ⟨e.start, buf.length, .data⟩
          match slice? buf e.start buf.length with
          | some b => .done s3 b
          | none => .panicked
       | none =>
          let s3 := push s2 ⟨e.start, buf.length, .data⟩
          match slice? buf e.start buf.length with
          | some b => .done s3 b
          | none => .panicked)
    | .message =>
      if e.tableStart > s1.fields.length ∨ e.start > s1.buf.length then .panicked else
      let entries := s1.fields.drop e.tableStart
      let body := s1.buf.length - e.start
      let buf := s1.buf ++ msgTrailer body entries
      let s2 := { s1 with buf := buf, fields := s1.fields.take e.tableStart }
      (match peek s2 with
       | some t => if t.type_ = .data then .failed else
          let s3 := push s2 ⟨e.start, buf.length, .data⟩
          match slice? buf e.start buf.length with
          | some b => .done s3 b
          | none => .panicked
       | none =>
          let s3 := push s2 ⟨e.start, buf.length, .data⟩
          match slice? buf e.start buf.length with
          | some b => .done s3 b
          | none => .panicked)
    | _ => .failed

/-- writer.endElement / endField after the object on top has ended -/
def endParent (w : W) (s : WState) (idx : Nat) (result : Bytes) : W × Out :=
  match peek2 s with
  | none =>
    -- root: close
    let (w1, _) := close { w with st := some s }
    (w1, .built result)
  | some par =>
    match par.type_ with
    | .element =>
      (match popData s with
       | none => failOut w idx
       | some (stop, s1) =>
         match pop s1 with
         | none => failOut w idx
         | some (el, s2) =>
           if el.type_ ≠ .element then failOut w idx else
           match peek s2 with
           | some l =>
             if l.type_ = .list then
               match slice? s2.buf el.start stop with
               | some b => ({ w with st := some { s2 with elements := s2.elements ++ [stop - l.start] } }, .built b)
               | none => (w, .panic)
             else failOut w idx
           | none => failOut w idx)
    | .field =>
      (match popData s with
       | none => failOut w idx
       | some (stop, s1) =>
         match pop s1 with
         | none => failOut w idx
         | some (fl, s2) =>
           if fl.type_ ≠ .field then failOut w idx else
           match peek s2 with
           | some m =>
             if m.type_ = .message then
               match insertAt s2.fields m.tableStart (fl.tableStart, stop - m.start) with
               | some fs =>
                 (match slice? s2.buf fl.start stop with
                  | some b => ({ w with st := some { s2 with fields := fs } }, .built b)
                  | none => (w, .panic))
               | none => (w, .panic)
             else failOut w idx
           | none => failOut w idx)
    | _ => ({ w with st := some s }, .built result)

/-- writer.end -/
def end_ (w : W) (idx : Nat) : W × Out :=
  match w.err with
  | some e => (w, .err e)
  | none =>
    match w.st with
    | none => (w, .panic)
    | some s =>
      match endTop s with
      | .failed => failOut w idx
      | .panicked => (w, .panic)
      | .done s1 b => endParent w s1 idx b

/-- writer.fieldAny (no type validation can fail: decodeType never errors) -/
def fieldAny (w : W) (idx tag : Nat) (data : Bytes) : W × Out :=
  match w.err with
  | some e => (w, .err e)
  | none =>
    let (w1, o) := writeValue w idx data
    match o with
    | .ok => field w1 idx tag
    | o => (w1, o)

end SpecVerif.Writer
