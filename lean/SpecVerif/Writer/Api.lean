/-
The public writer API on top of the state machine: handles (MessageWriter / ListWriter values),
Copy/Merge, and the call alphabet of the line protocol.
-/
import SpecVerif.Writer.Model
import SpecVerif.Wire.Types
namespace SpecVerif.Writer
open SpecVerif Pinned

inductive HKind | M | L deriving DecidableEq, Repr

/-- a MessageWriter/ListWriter value: `dead` = its writer pointer was replaced by the closed writer
(after End/Build on that MessageWriter variable, or derived from such a handle) -/
structure Handle where
  kind : HKind
  dead : Bool
  deriving Repr

structure Sess where
  w : W
  handles : List Handle
  built : Option Bytes
  deriving Repr

def Sess.init (buf : Bytes := []) (release : Bool := false) : Sess := ⟨fresh buf release, [], none⟩

inductive Call where
  | msg | list
  | v (enc : Bytes)            -- Value().<scalar>(x) / Value().Any(b): bytes to append
  | vbuild
  | f (h tag : Nat) (enc : Bytes)
  | fmsg (h tag : Nat) | flist (h tag : Nat)
  | has (h tag : Nat)
  | copy (h : Nat) (src : Bytes)
  | e (h : Nat) (enc : Bytes)
  | emsg (h : Nat) | elist (h : Nat)
  | len (h : Nat)
  | end_ (h : Nat) | build (h : Nat)
  | fwfail (h : Nat)           -- WriteField with a write function that fails
  | ewfail (h : Nat)           -- ValueListWriter.Add / WriteElement with a write function that fails
  | err | reset | free
  | bad
  deriving Repr

/-- MessageWriter.Copy/Merge: fields of `src` that the message does not have yet are appended raw -/
def copyLoop (src : MsgV) (idx : Nat) : Nat → Nat → W → W × Out
  | 0, _, w => (w, .ok)
  | k+1, i, w =>
    match src.tagAt i with
    | .panic => (w, .panic)
    | .err _ _ => (w, .panic)
    | .ok none => copyLoop src idx k (i + 1) w
    | .ok (some tag) =>
      match hasField w tag with
      | .panic => (w, .panic)
      | .bool true => copyLoop src idx k (i + 1) w
      | _ =>
        match src.fieldAt i with
        | .ok value =>
          let (w1, o) := fieldAny w idx tag value
          (match o with
           | .ok => copyLoop src idx k (i + 1) w1
           | o => (w1, o))
        | _ => (w, .panic)

def copyMsg (w : W) (idx : Nat) (srcBytes : Bytes) : W × Out :=
  match openMessage srcBytes with
  | .ok src => copyLoop src idx src.fields 0 w
  | _ => (w, .panic)

/-- writer.WriteValue when the caller's write function returns an error: the error becomes the
writer's sticky error (`fail`), whatever the function appended before -/
def writeFail (w : W) (idx : Nat) : W × Out :=
  match w.err with
  | some e => (w, .err e)
  | none =>
    match w.st with
    | none => (w, .panic)
    | some _ => failOut w idx

def getHandle (s : Sess) (h : Nat) (k : HKind) : Option Handle :=
  match s.handles[h]? with
  | some hd => if hd.kind = k then some hd else none
  | none => none

def addHandle (s : Sess) (w : W) (k : HKind) (dead : Bool) : Sess :=
  { s with w := w, handles := s.handles ++ [⟨k, dead⟩] }

def killHandle (s : Sess) (h : Nat) : Sess :=
  { s with handles := s.handles.set h ⟨.M, true⟩ }

/-- run an operation on the writer a handle points to: the session's writer, or the closed writer
(whose state never changes) for a dead handle -/
def onHandle (s : Sess) (dead : Bool) (op : W → W × Out) : Sess × Out :=
  if dead then (s, (op closedW).2)
  else let (w1, o) := op s.w; ({ s with w := w1 }, o)

def recordBuilt (s : Sess) (o : Out) : Sess :=
  match o with
  | .built b => { s with built := some b }
  | _ => s

/-- one API call; `idx` = position of the call in the program -/
def step (s : Sess) (idx : Nat) : Call → Sess × Out
  | .msg => (addHandle s (beginMessage s.w) .M false, .ok)
  | .list => (addHandle s (beginList s.w) .L false, .ok)
  | .v enc => let (w1, o) := writeValue s.w idx enc; ({ s with w := w1 }, o)
  | .vbuild => let (w1, o) := end_ s.w idx; (recordBuilt { s with w := w1 } o, o)
  | .f h tag enc =>
    match getHandle s h .M with
    | none => (s, .badop)
    | some hd => onHandle s hd.dead fun w =>
        let (w1, o) := writeValue w idx enc
        match o with
        | .ok => field w1 idx tag
        | o => (w1, o)
  | .fmsg h tag =>
    match getHandle s h .M with
    | none => (s, .badop)
    | some hd =>
      if hd.dead then (addHandle s s.w .M true, .ok)
      else (addHandle s (beginMessage (beginField s.w idx tag)) .M false, .ok)
  | .flist h tag =>
    match getHandle s h .M with
    | none => (s, .badop)
    | some hd =>
      if hd.dead then (addHandle s s.w .L true, .ok)
      else (addHandle s (beginList (beginField s.w idx tag)) .L false, .ok)
  | .has h tag =>
    match getHandle s h .M with
    | none => (s, .badop)
    | some hd => (s, hasField (if hd.dead then closedW else s.w) tag)
  | .copy h src =>
    match getHandle s h .M with
    | none => (s, .badop)
    | some hd => onHandle s hd.dead fun w => copyMsg w idx src
  | .e h enc =>
    match getHandle s h .L with
    | none => (s, .badop)
    | some hd => onHandle s hd.dead fun w =>
        let (w1, o) := writeValue w idx enc
        match o with
        | .ok => element w1 idx
        | o => (w1, o)
  | .emsg h =>
    match getHandle s h .L with
    | none => (s, .badop)
    | some hd =>
      if hd.dead then (addHandle s s.w .M true, .ok)
      else (addHandle s (beginMessage (beginElement s.w idx)) .M false, .ok)
  | .elist h =>
    match getHandle s h .L with
    | none => (s, .badop)
    | some hd =>
      if hd.dead then (addHandle s s.w .L true, .ok)
      else (addHandle s (beginList (beginElement s.w idx)) .L false, .ok)
  | .len h =>
    match getHandle s h .L with
    | none => (s, .badop)
    | some hd => (s, listLen (if hd.dead then closedW else s.w))
  | .end_ h =>
    match s.handles[h]? with
    | none => (s, .badop)
    | some hd =>
      let (s1, o) := onHandle s hd.dead fun w => end_ w idx
      let s2 := if hd.kind = .M then killHandle s1 h else s1
      (s2, match o with | .built _ => .ok | o => o)
  | .build h =>
    match s.handles[h]? with
    | none => (s, .badop)
    | some hd =>
      let (s1, o) := onHandle s hd.dead fun w => end_ w idx
      let s2 := if hd.kind = .M then killHandle s1 h else s1
      (recordBuilt s2 o, o)
  | .fwfail h =>
    match getHandle s h .M with
    | none => (s, .badop)
    | some hd => onHandle s hd.dead fun w => writeFail w idx
  | .ewfail h =>
    match getHandle s h .L with
    | none => (s, .badop)
    | some hd => onHandle s hd.dead fun w => writeFail w idx
  | .err => (s, match s.w.err with | some e => .err e | none => .ok)
  | .reset => let (w1, o) := reset s.w; ({ s with w := w1 }, o)
  | .free => let (w1, o) := free s.w; ({ s with w := w1 }, o)
  | .bad => (s, .badop)

/-- run a whole program -/
def runFrom (s : Sess) (idx : Nat) : List Call → Sess × List Out
  | [] => (s, [])
  | c :: cs =>
    let (s1, o) := step s idx c
    let (s2, os) := runFrom s1 (idx + 1) cs
    (s2, o :: os)

def run (cs : List Call) (buf : Bytes := []) : Sess × List Out := runFrom (Sess.init buf) 0 cs

end SpecVerif.Writer
