/-
MessageWriter.Copy / Merge (Writer/Api.lean `copyMsg`): copying a well-formed source message into a
message that is being written appends, in tag order, exactly the source fields whose tags the
destination does not have yet, with their value bytes unchanged — whatever the fields are (known to
the writing schema or not).
-/
import SpecVerif.Lemmas.WriterTree
import SpecVerif.Lemmas.Probe2
import SpecVerif.Lemmas.MsgRT
namespace SpecVerif.Writer
open SpecVerif

/-- the value written under `t` in `fs` (first match; tags are distinct in a well-formed message) -/
def valOf (fs : List (Nat × Bytes)) (t : Nat) : Bytes :=
  match fs.find? (fun f => f.1 == t) with
  | some f => f.2
  | none => []

theorem valOf_split (l : List (Nat × Bytes)) (t : Nat) (v : Bytes) (r : List (Nat × Bytes))
    (hnd : ((l ++ (t, v) :: r).map (·.1)).Nodup) : valOf (l ++ (t, v) :: r) t = v := by
  have hl : ∀ f ∈ l, f.1 ≠ t := by
    intro f hf heq
    rw [List.map_append, List.nodup_append] at hnd
    exact hnd.2.2 f.1 (List.mem_map_of_mem hf) t (by simp) heq
  have h1 : l.find? (fun f => f.1 == t) = none := by
    rw [List.find?_eq_none]
    intro f hf
    simpa using hl f hf
  unfold valOf
  rw [List.find?_append, h1]
  simp

/-- the source message in table order: `(tag, value)` -/
def srcOf (fs : List (Nat × Bytes)) : List (Nat × Bytes) :=
  (sortedEntries (msgPairs fs)).map fun e => (e.1, valOf fs e.1)

/-- what the reader sees of an opened message: entry `i` has tag `src[i].1` and value `src[i].2` -/
def SrcView (M : MsgV) (src : List (Nat × Bytes)) : Prop :=
  M.fields = src.length ∧
  ∀ i (hi : i < src.length), M.tagAt i = .ok (some (src[i]).1) ∧ M.fieldAt i = .ok (src[i]).2

theorem src_view (p : Bytes) (fs : List (Nat × Bytes)) (wf : MsgWF fs) (hd : ∀ f ∈ fs, Delim f.2) :
    ∃ M, openMessage (p ++ encMsg fs) = .ok M ∧ SrcView M (srcOf fs) := by
  obtain ⟨M, hopen, hfields, hdata, ⟨rest, hbytes⟩, hlen, hidx⟩ := msg_open_sorted p fs wf
  refine ⟨M, by unfold openMessage; rw [hopen], ?_, ?_⟩
  · rw [hfields]; unfold srcOf; simp [hlen]
  · intro i hi
    have hi' : i < (sortedEntries (msgPairs fs)).length := by unfold srcOf at hi; simpa using hi
    obtain ⟨hoff, hent⟩ := hidx i hi'
    have hget : (srcOf fs)[i] = (((sortedEntries (msgPairs fs))[i]).1, valOf fs ((sortedEntries (msgPairs fs))[i]).1) := by
      simp only [srcOf, List.getElem_map]
    rw [hget]
    constructor
    · unfold MsgV.tagAt; rw [hent]; simp [bind, Res.bind, pure]
    · have hmem : (sortedEntries (msgPairs fs))[i] ∈ msgPairs fs :=
        (sortedEntries_perm (msgPairs fs)).mem_iff.mp (List.getElem_mem hi')
      generalize (sortedEntries (msgPairs fs))[i] = e at hmem hoff
      obtain ⟨tag, o⟩ := e
      obtain ⟨l, v, r, hfs, ho⟩ := pair_split fs tag o hmem
      have hv : Delim v := hd (tag, v) (by rw [hfs]; simp)
      have hval : valOf fs tag = v := by
        have := wf.nodup; rw [hfs] at this
        rw [hfs]; exact valOf_split l tag v r this
      simp only at hoff ⊢
      rw [hval]
      have hsplit : (fs.map (·.2)).flatten = (l.map (·.2)).flatten ++ v ++ (r.map (·.2)).flatten := by
        rw [hfs]; simp
      have hle : o ≤ M.table.data := by rw [hdata, hsplit, ho]; simp only [List.length_append]; omega
      have hraw : M.fieldAtRaw i = .ok ((l.map (·.2)).flatten ++ v) := by
        unfold MsgV.fieldAtRaw
        rw [hoff]
        simp only
        have c : ¬ o > M.table.data := by omega
        simp only [c, ↓reduceIte]
        rw [slice?_some _ _ _ (by omega) (by rw [hbytes, hsplit, ho]; simp only [List.length_append]; omega)]
        rw [hbytes, hsplit, ho]
        have : (l.map (·.2)).flatten ++ v ++ (r.map (·.2)).flatten ++ rest =
            ((l.map (·.2)).flatten ++ v) ++ ((r.map (·.2)).flatten ++ rest) := by simp
        rw [this, List.drop_zero, List.take_left' (by simp)]
      unfold MsgV.fieldAt
      rw [hraw]
      simp only [bind, Res.bind]
      have c : ¬ ((l.map (·.2)).flatten ++ v).length = 0 := by
        have := hv.1
        intro h0
        simp only [List.length_append] at h0
        exact this (List.eq_nil_of_length_eq_zero (by omega))
      simp only [c, ↓reduceIte]
      exact openValue_of_delim v hv _


/-! ### the copy loop on a live writer -/

/-- does the message on top of the stack already have a field with tag `t`? -/
def hasTag (st : WState) (m : Entry) (t : Nat) : Bool :=
  (st.fields.drop m.tableStart).any fun f => f.1 == t

/-- the copy loop as a fold: a source field is appended unless its tag is present -/
def copyFold (m : Entry) : List (Nat × Bytes) → WState → WState
  | [], st => st
  | f :: rest, st => if hasTag st m f.1 then copyFold m rest st else copyFold m rest (addFld st f.2 f.1 m)

theorem hasField_live (w : W) (st : WState) (base : List Entry) (m : Entry) (tag : Nat)
    (he : w.err = none) (hs : w.st = some st) (hst : st.stack = base ++ [m]) (hm : m.type_ = .message)
    (hts : m.tableStart ≤ st.fields.length) : hasField w tag = .bool (hasTag st m tag) := by
  have c : ¬ m.tableStart > st.fields.length := by omega
  unfold hasField peek hasTag
  simp only [he, hs, hst, getLast?_snoc, hm, ↓reduceIte, c]

theorem fieldAny_live (w : W) (st : WState) (idx tag : Nat) (v : Bytes) (base : List Entry) (m : Entry)
    (he : w.err = none) (hs : w.st = some st) (hst : st.stack = base ++ [m]) (hm : m.type_ = .message)
    (hts : m.tableStart ≤ st.fields.length) :
    fieldAny w idx tag v = (setSt w (addFld st v tag m), .ok) := by
  unfold fieldAny
  simp only [he]
  rw [writeValue_live w st idx v base m he hs hst (by rw [hm]; simp)]
  simp only
  rw [field_live (setSt w _) _ idx tag base m st.buf.length (st.buf ++ v).length (by simpa using he) rfl rfl hm
    (by exact hts)]
  simp [addFld, hst]

theorem setSt_self (w : W) (st : WState) (hs : w.st = some st) : setSt w st = w := by
  cases w; simp_all [setSt]

theorem copyLoop_spec (M : MsgV) (src : List (Nat × Bytes)) (hv : SrcView M src) (idx : Nat) :
    ∀ (k i : Nat) (w : W) (st : WState) (base : List Entry) (m : Entry),
      w.err = none → w.st = some st → st.stack = base ++ [m] → m.type_ = .message →
      m.tableStart ≤ st.fields.length → i + k = src.length →
      copyLoop M idx k i w = (setSt w (copyFold m (src.drop i) st), .ok) := by
  intro k
  induction k with
  | zero =>
    intro i w st base m he hs hst hm hts hik
    have : src.drop i = [] := by apply List.drop_eq_nil_of_le; omega
    unfold copyLoop
    rw [this]
    simp only [copyFold]
    rw [setSt_self w st hs]
  | succ k ih =>
    intro i w st base m he hs hst hm hts hik
    have hi : i < src.length := by omega
    have hdrop : src.drop i = src[i] :: src.drop (i + 1) := List.drop_eq_getElem_cons hi
    obtain ⟨htag, hfield⟩ := hv.2 i hi
    unfold copyLoop
    rw [htag]
    simp only
    rw [hasField_live w st base m _ he hs hst hm hts, hdrop]
    simp only [copyFold]
    cases hb : hasTag st m (src[i]).1 with
    | true =>
      simp only [↓reduceIte]
      exact ih (i + 1) w st base m he hs hst hm hts (by omega)
    | false =>
      simp only [Bool.false_eq_true, ↓reduceIte]
      rw [hfield]
      simp only
      rw [fieldAny_live w st idx _ _ base m he hs hst hm hts]
      simp only
      have := ih (i + 1) (setSt w (addFld st (src[i]).2 (src[i]).1 m)) (addFld st (src[i]).2 (src[i]).1 m) base m
        (by simpa using he) rfl (by simp [addFld, hst]) hm
        (by simp only [addFld, List.length_append, List.length_take]; omega) (by omega)
      rw [this]
      rfl

/-- `Copy`/`Merge` of an opened source on a live writer whose top entry is the message `m` -/
theorem copyMsg_spec (w : W) (st : WState) (idx : Nat) (srcBytes : Bytes) (M : MsgV)
    (src : List (Nat × Bytes)) (base : List Entry) (m : Entry)
    (hopen : openMessage srcBytes = .ok M) (hv : SrcView M src)
    (he : w.err = none) (hs : w.st = some st) (hst : st.stack = base ++ [m]) (hm : m.type_ = .message)
    (hts : m.tableStart ≤ st.fields.length) :
    copyMsg w idx srcBytes = (setSt w (copyFold m src st), .ok) := by
  unfold copyMsg
  rw [hopen]
  simp only
  rw [copyLoop_spec M src hv idx M.fields 0 w st base m he hs hst hm hts (by rw [hv.1]; omega)]
  simp


/-! ### what the fold appends -/

def addAll (m : Entry) (xs : List (Nat × Bytes)) (st : WState) : WState :=
  xs.foldl (fun st f => addFld st f.2 f.1 m) st

theorem any_insertField (f : Nat × Nat) (l : List (Nat × Nat)) (t : Nat) :
    (insertField f l).any (fun g => g.1 == t) = (f.1 == t || l.any fun g => g.1 == t) := by
  induction l with
  | nil => simp [insertField]
  | cons g gs ih =>
    unfold insertField
    split
    · simp
    · simp only [List.any_cons, ih]
      cases (g.1 == t) <;> cases (f.1 == t) <;> simp

theorem hasTag_addFld (st : WState) (m : Entry) (v : Bytes) (t t' : Nat) (hts : m.tableStart ≤ st.fields.length) :
    hasTag (addFld st v t m) m t' = (t == t' || hasTag st m t') := by
  unfold hasTag addFld
  simp only
  rw [(take_pre st.fields m.tableStart _ hts).2, any_insertField]

theorem addFld_fields_len (st : WState) (m : Entry) (v : Bytes) (t : Nat) (hts : m.tableStart ≤ st.fields.length) :
    m.tableStart ≤ (addFld st v t m).fields.length := by
  simp only [addFld, List.length_append, List.length_take]; omega

/-- with distinct source tags the fold appends exactly the source fields whose tag was absent at the
start -/
theorem copyFold_filter (m : Entry) : ∀ (src : List (Nat × Bytes)) (st : WState),
    (src.map (·.1)).Nodup → m.tableStart ≤ st.fields.length →
    copyFold m src st = addAll m (src.filter fun f => !hasTag st m f.1) st := by
  intro src
  induction src with
  | nil => intro st _ _; rfl
  | cons f rest ih =>
    intro st hnd hts
    simp only [List.map_cons, List.nodup_cons] at hnd
    unfold copyFold
    cases hb : hasTag st m f.1 with
    | true =>
      simp only [↓reduceIte]
      rw [ih st hnd.2 hts]
      simp [hb]
    | false =>
      simp only [Bool.false_eq_true, ↓reduceIte]
      rw [ih (addFld st f.2 f.1 m) hnd.2 (addFld_fields_len st m f.2 f.1 hts)]
      have hcongr : (rest.filter fun g => !hasTag (addFld st f.2 f.1 m) m g.1) =
          (rest.filter fun g => !hasTag st m g.1) := by
        apply List.filter_congr
        intro g hg
        rw [hasTag_addFld st m f.2 f.1 g.1 hts]
        have : f.1 ≠ g.1 := by
          intro heq; apply hnd.1; rw [heq]; exact List.mem_map_of_mem hg
        simp [this]
      rw [hcongr]
      simp [hb, addAll]

/-- closed form of a run of raw field writes into the message `m` -/
theorem addAll_spec (m : Entry) : ∀ (xs : List (Nat × Bytes)) (st : WState),
    m.start ≤ st.buf.length → m.tableStart ≤ st.fields.length →
    (addAll m xs st).buf = st.buf ++ (xs.map (·.2)).flatten ∧
    (addAll m xs st).stack = st.stack ∧ (addAll m xs st).elements = st.elements ∧
    (addAll m xs st).fields = st.fields.take m.tableStart ++
      ((xs.map (·.1)).zip (endOffsets (st.buf.length - m.start) (xs.map (·.2)))).foldl
        (fun acc f => insertField f acc) (st.fields.drop m.tableStart) := by
  intro xs
  induction xs with
  | nil => intro st _ _; simp [addAll, endOffsets]
  | cons f rest ih =>
    intro st hle hts
    have hstep : addAll m (f :: rest) st = addAll m rest (addFld st f.2 f.1 m) := by simp [addAll]
    obtain ⟨h1, h2, h3, h4⟩ := ih (addFld st f.2 f.1 m)
      (by simp only [addFld, List.length_append]; omega) (addFld_fields_len st m f.2 f.1 hts)
    rw [hstep]
    refine ⟨?_, ?_, ?_, ?_⟩
    · rw [h1]; simp [addFld]
    · rw [h2]; rfl
    · rw [h3]; rfl
    · rw [h4]
      simp only [addFld, List.map_cons, endOffsets, List.zip_cons_cons, List.foldl_cons,
        List.length_append]
      have : st.buf.length + f.2.length - m.start = st.buf.length - m.start + f.2.length := by omega
      rw [this]
      have hp := take_pre st.fields m.tableStart
        (insertField (f.1, st.buf.length - m.start + f.2.length) (st.fields.drop m.tableStart)) hts
      rw [hp.1, hp.2]


/-! ### the program: write some fields, copy the rest from a source message, build -/

/-- the source fields a destination with tags `wtags` takes over, in table (tag) order -/
def copiedOf (wtags : List Nat) (fs : List (Nat × Bytes)) : List (Nat × Bytes) :=
  (srcOf fs).filter fun f => !wtags.contains f.1

def copyProg (ws : Flds) (srcBytes : Bytes) : List Call :=
  Call.msg :: (compFlds 0 1 ws ++ [Call.copy 0 srcBytes, Call.build 0])

theorem endOffsets_append (a : Nat) (xs ys : List Bytes) :
    endOffsets a (xs ++ ys) = endOffsets a xs ++ endOffsets (a + xs.flatten.length) ys := by
  induction xs generalizing a with
  | nil => simp [endOffsets]
  | cons x xs ih =>
    simp only [List.cons_append, endOffsets, ih, List.flatten_cons, List.length_append, List.cons.injEq, true_and]
    rw [Nat.add_assoc]

theorem srcOf_tags_nodup (fs : List (Nat × Bytes)) (wf : MsgWF fs) : ((srcOf fs).map (·.1)).Nodup := by
  have h1 : (srcOf fs).map (·.1) = (sortedEntries (msgPairs fs)).map (·.1) := by
    unfold srcOf; simp [List.map_map, Function.comp_def]
  rw [h1, ((sortedEntries_perm (msgPairs fs)).map _).nodup_iff, msgPairs_tags]
  exact wf.nodup

theorem any_sorted_tags (A : List (Nat × Nat)) (t : Nat) :
    (sortedEntries A).any (fun g => g.1 == t) = (A.map (·.1)).contains t := by
  rw [Bool.eq_iff_iff]
  simp only [List.any_eq_true, List.contains_iff_mem, beq_iff_eq, List.mem_map]
  constructor
  · rintro ⟨g, hg, h⟩; exact ⟨g, (sortedEntries_perm A).mem_iff.mp hg, h⟩
  · rintro ⟨g, hg, h⟩; exact ⟨g, (sortedEntries_perm A).mem_iff.mpr hg, h⟩

theorem step_copy_ok (s : Sess) (idx h : Nat) (src : Bytes) (w' : W)
    (hh : s.handles[h]? = some ⟨.M, false⟩) (hc : copyMsg s.w idx src = (w', .ok)) :
    step s idx (.copy h src) = ({ s with w := w' }, .ok) := by
  unfold step getHandle onHandle
  simp only [hh, ↓reduceIte, Bool.false_eq_true, hc]

/-- write the fields `ws` (any trees), then Copy/Merge from the well-formed message `fs`, then Build:
every call is answered `ok` and the result is the message holding the written fields followed by
exactly the source fields with other tags, values unchanged -/
theorem run_copyProg (ws : Flds) (p : Bytes) (fs : List (Nat × Bytes)) (wf : MsgWF fs)
    (hd : ∀ f ∈ fs, Delim f.2) (buf : Bytes) :
    BuiltLast (run (copyProg ws (p ++ encMsg fs)) buf)
      (encMsg (ws.encs ++ copiedOf (ws.encs.map (·.1)) fs)) := by
  obtain ⟨M, hopen, hview⟩ := src_view p fs wf hd
  unfold copyProg run Sess.init
  rw [runFrom_cons]
  have h1 : step ⟨fresh buf, [], none⟩ 0 .msg =
      (After ⟨fresh buf, [], none⟩ ⟨buf, [⟨buf.length, 0, .message⟩], [], []⟩ [⟨.M, false⟩], .ok) := by
    unfold step addHandle After
    simp only
    rw [beginMessage_live (fresh buf) ⟨buf, [], [], []⟩ rfl rfl]
    rfl
  rw [h1]
  simp only
  obtain ⟨st2, hrun, hb2, hst2, hel2, hf2, hok⟩ := runFlds ws
    (After ⟨fresh buf, [], none⟩ ⟨buf, [⟨buf.length, 0, .message⟩], [], []⟩ [⟨.M, false⟩]) (0 + 1) 0 1
    ⟨buf, [⟨buf.length, 0, .message⟩], [], []⟩ [] ⟨buf.length, 0, .message⟩ rfl rfl rfl rfl (Nat.le_refl _)
    (Nat.le_refl _) rfl rfl
  rw [runFrom_append, runFrom_cons, runFrom_single]
  simp only
  rw [hrun, After_After]
  -- the state after the written fields
  have hb2' : st2.buf = buf ++ (ws.encs.map (·.2)).flatten := hb2
  have hst2' : st2.stack = [] ++ [⟨buf.length, 0, .message⟩] := hst2
  have hf2' : st2.fields = sortedEntries ((ws.encs.map (·.1)).zip (endOffsets 0 (ws.encs.map (·.2)))) := by
    rw [hf2]; simp [sortedEntries]
  have hlenA : (ws.encs.map (·.1)).length = (endOffsets 0 (ws.encs.map (·.2))).length := by simp
  -- Copy
  have hcopy := copyMsg_spec (setSt (fresh buf) st2) st2 (0 + 1 + (compFlds 0 1 ws).length) (p ++ encMsg fs) M
    (srcOf fs) [] ⟨buf.length, 0, .message⟩ hopen hview rfl rfl hst2' rfl (Nat.zero_le _)
  rw [copyFold_filter _ _ _ (srcOf_tags_nodup fs wf) (Nat.zero_le _)] at hcopy
  have hfilter : ((srcOf fs).filter fun f => !hasTag st2 ⟨buf.length, 0, .message⟩ f.1) =
      copiedOf (ws.encs.map (·.1)) fs := by
    unfold copiedOf
    apply List.filter_congr
    intro f _
    unfold hasTag
    simp only [List.drop_zero]
    rw [hf2', any_sorted_tags, zip_map_fst _ _ hlenA]
  rw [hfilter] at hcopy
  obtain ⟨c1, c2, c3, c4⟩ := addAll_spec ⟨buf.length, 0, .message⟩ (copiedOf (ws.encs.map (·.1)) fs) st2
    (by rw [hb2']; simp) (Nat.zero_le _)
  generalize hst3 : addAll ⟨buf.length, 0, .message⟩ (copiedOf (ws.encs.map (·.1)) fs) st2 = st3 at hcopy c1 c2 c3 c4
  rw [step_copy_ok _ _ 0 _ _ rfl hcopy]
  simp only [setSt_setSt]
  -- Build
  have hdata : st3.buf = buf ++ ((ws.encs ++ copiedOf (ws.encs.map (·.1)) fs).map (·.2)).flatten := by
    rw [c1, hb2']; simp
  have hents : st3.fields = [] ++ sortedEntries (((ws.encs ++ copiedOf (ws.encs.map (·.1)) fs).map (·.1)).zip
      (endOffsets 0 ((ws.encs ++ copiedOf (ws.encs.map (·.1)) fs).map (·.2)))) := by
    rw [c4, hf2', hb2']
    simp only [List.take_zero, List.drop_zero, List.nil_append, List.length_append, Nat.add_sub_cancel_left,
      List.map_append, endOffsets_append, Nat.zero_add]
    rw [List.zip_append hlenA]
    simp [sortedEntries, List.foldl_append]
  have hend := end_msg_root (setSt (fresh buf) st3) st3
    (0 + 1 + (compFlds 0 1 ws).length + 1) buf
    ((ws.encs ++ copiedOf (ws.encs.map (·.1)) fs).map (·.2)).flatten [] _ rfl rfl (by rw [c2, hst2']; rfl) hdata hents
  rw [msgTrailer_enc] at hend
  generalize hr : end_ (setSt (fresh buf) st3) (0 + 1 + (compFlds 0 1 ws).length + 1) = r at hend
  obtain ⟨w', o⟩ := r
  simp only at hend
  subst hend
  obtain ⟨ha, hb⟩ := step_build_ok
    ({ After ⟨fresh buf, [], none⟩ st2 ([⟨.M, false⟩] ++ ws.handles) with w := setSt (fresh buf) st3 })
    (0 + 1 + (compFlds 0 1 ws).length + 1) 0 ⟨.M, false⟩
    w' _ rfl rfl hr
  refine ⟨hb, _, ?_, AllOk_cons _ (AllOk_append _ _ hok (AllOk_cons _ AllOk_nil))⟩
  rw [ha]; simp


/-! ### membership in the copied part -/

theorem srcOf_mem (fs : List (Nat × Bytes)) (wf : MsgWF fs) (f : Nat × Bytes) :
    f ∈ srcOf fs ↔ f ∈ fs := by
  have htags : ∀ t, t ∈ (sortedEntries (msgPairs fs)).map (·.1) ↔ t ∈ fs.map (·.1) := by
    intro t
    rw [((sortedEntries_perm (msgPairs fs)).map _).mem_iff, msgPairs_tags]
  have hval : ∀ g ∈ fs, valOf fs g.1 = g.2 := by
    intro g hg
    obtain ⟨l, r, hfs⟩ := List.append_of_mem hg
    have := wf.nodup
    rw [hfs] at this ⊢
    exact valOf_split l g.1 g.2 r this
  unfold srcOf
  constructor
  · intro h
    simp only [List.mem_map] at h
    obtain ⟨e, he, rfl⟩ := h
    have : e.1 ∈ fs.map (·.1) := (htags e.1).mp (List.mem_map_of_mem he)
    simp only [List.mem_map] at this
    obtain ⟨g, hg, hge⟩ := this
    rw [← hge, hval g hg]
    exact hg
  · intro h
    have : f.1 ∈ (sortedEntries (msgPairs fs)).map (·.1) := (htags f.1).mpr (List.mem_map_of_mem h)
    simp only [List.mem_map] at this ⊢
    obtain ⟨e, he, hef⟩ := this
    refine ⟨e, he, ?_⟩
    rw [hef, hval f h]

/-- the copied part is exactly the source fields whose tag the destination did not write -/
theorem copiedOf_mem (wtags : List Nat) (fs : List (Nat × Bytes)) (wf : MsgWF fs) (f : Nat × Bytes) :
    f ∈ copiedOf wtags fs ↔ f ∈ fs ∧ f.1 ∉ wtags := by
  unfold copiedOf
  simp only [List.mem_filter, srcOf_mem fs wf, Bool.not_eq_eq_eq_not, Bool.not_true,
    List.contains_eq_mem, decide_eq_false_iff_not]

/-- the result is a well-formed message when the written fields are and the total size fits -/
theorem copy_result_wf (ws : List (Nat × Bytes)) (fs : List (Nat × Bytes)) (wfw : MsgWF ws) (wf : MsgWF fs)
    (hsz : (((ws ++ copiedOf (ws.map (·.1)) fs).map (·.2)).flatten).length +
      6 * (ws ++ copiedOf (ws.map (·.1)) fs).length < 2 ^ 32) :
    MsgWF (ws ++ copiedOf (ws.map (·.1)) fs) := by
  refine ⟨?_, ?_, hsz⟩
  · rw [List.map_append, List.nodup_append]
    refine ⟨wfw.nodup, ?_, ?_⟩
    · have : ((copiedOf (ws.map (·.1)) fs).map (·.1)).Sublist ((srcOf fs).map (·.1)) :=
        (List.filter_sublist).map _
      exact (srcOf_tags_nodup fs wf).sublist this
    · intro a ha c hc heq
      simp only [List.mem_map] at hc
      obtain ⟨g, hg, hgc⟩ := hc
      have := ((copiedOf_mem _ fs wf g).mp hg).2
      apply this
      rw [hgc, ← heq]; exact ha
  · intro f hf
    simp only [List.mem_append] at hf
    rcases hf with hf | hf
    · exact wfw.tags f hf
    · exact wf.tags f ((copiedOf_mem _ fs wf f).mp hf).1


/-! ### Copy at any depth = writing the absent source fields raw -/

/-- the source fields a message in state `st` (top entry `m`) takes over -/
def copiedIn (st : WState) (m : Entry) (fs : List (Nat × Bytes)) : List (Nat × Bytes) :=
  (srcOf fs).filter fun f => !hasTag st m f.1

/-- the calls `Field(tag).Any(value)` for a list of `(tag, value)` -/
def rawFields (h : Nat) (xs : List (Nat × Bytes)) : List Call := xs.map fun f => Call.f h f.1 f.2

theorem addFld_stack (st : WState) (v : Bytes) (t : Nat) (m : Entry) : (addFld st v t m).stack = st.stack := rfl

/-- raw field writes into the message on top of the stack, through a live handle -/
theorem run_rawFields (h : Nat) (base : List Entry) (m : Entry) (hm : m.type_ = .message) :
    ∀ (xs : List (Nat × Bytes)) (s : Sess) (idx : Nat) (st : WState),
      s.w.err = none → s.w.st = some st → st.stack = base ++ [m] → m.tableStart ≤ st.fields.length →
      s.handles[h]? = some ⟨.M, false⟩ →
      (runFrom s idx (rawFields h xs)).1 = { s with w := setSt s.w (addAll m xs st) } ∧
        AllOk (runFrom s idx (rawFields h xs)).2 := by
  intro xs
  induction xs with
  | nil =>
    intro s idx st he hs _ _ _
    simp only [rawFields, List.map_nil, runFrom, addAll, List.foldl_nil]
    exact ⟨by rw [setSt_self s.w st hs], AllOk_nil⟩
  | cons f rest ih =>
    intro s idx st he hs hst hts hh
    simp only [rawFields, List.map_cons]
    rw [runFrom_cons, step_f s idx h f.1 f.2 st base m he hs hst hm hts hh]
    simp only
    obtain ⟨h1, h2⟩ := ih { s with w := setSt s.w (addFld st f.2 f.1 m) } (idx + 1) (addFld st f.2 f.1 m)
      (by simpa using he) rfl (by rw [addFld_stack]; exact hst) (addFld_fields_len st m f.2 f.1 hts) hh
    refine ⟨?_, AllOk_cons _ h2⟩
    simp only [rawFields] at h1
    rw [h1]
    simp [addAll]

/-- `Copy`/`Merge` from a well-formed source into the message that is being written — at ANY nesting
depth, whatever was written before — is answered `ok` and leaves the session exactly as the calls
`Field(tag).Any(value)` for the source fields whose tag the message does not have yet would (in the
order of the source table). Together with `run_compRoot` this reduces every tree program with
Copy/Merge calls to a tree program without them. -/
theorem copy_eq_rawFields (s : Sess) (idx idx' h : Nat) (st : WState) (base : List Entry) (m : Entry)
    (p : Bytes) (fs : List (Nat × Bytes)) (wf : MsgWF fs) (hd : ∀ f ∈ fs, Delim f.2)
    (he : s.w.err = none) (hs : s.w.st = some st) (hst : st.stack = base ++ [m]) (hm : m.type_ = .message)
    (hts : m.tableStart ≤ st.fields.length) (hh : s.handles[h]? = some ⟨.M, false⟩) :
    step s idx (.copy h (p ++ encMsg fs)) = ((runFrom s idx' (rawFields h (copiedIn st m fs))).1, .ok) ∧
      AllOk (runFrom s idx' (rawFields h (copiedIn st m fs))).2 := by
  obtain ⟨M, hopen, hview⟩ := src_view p fs wf hd
  have hcopy := copyMsg_spec s.w st idx (p ++ encMsg fs) M (srcOf fs) base m hopen hview he hs hst hm hts
  rw [copyFold_filter m (srcOf fs) st (srcOf_tags_nodup fs wf) hts] at hcopy
  obtain ⟨h1, h2⟩ := run_rawFields h base m hm (copiedIn st m fs) s idx' st he hs hst hts hh
  refine ⟨?_, h2⟩
  rw [step_copy_ok s idx h _ _ hh hcopy, h1]
  rfl

end SpecVerif.Writer
