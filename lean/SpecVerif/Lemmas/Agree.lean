/-
Agreement of the recursive parser with the type-and-size probe (C13): whenever `parseValue`
accepts a byte string with size `n`, `decodeTypeSize` reports exactly `n` for it (so `OpenValue`,
which uses the probe, returns exactly the parsed value).
-/
import SpecVerif.Wire.Types
import SpecVerif.Lemmas.Probe
import SpecVerif.Lemmas.Safe
namespace SpecVerif
open Pinned

theorem decodeType_ne_nil (b : Bytes) (h : b ≠ []) : ∃ t, decodeType b = (t, 1) ∧ b.getLast? = some t := by
  unfold decodeType
  cases hl : b.getLast? with
  | none => exact absurd (List.getLast?_eq_none_iff.mp hl) h
  | some t => exact ⟨t, rfl, rfl⟩

theorem take_take_sub (b : Bytes) (n m : Nat) :
    (b.take (b.length - n)).take ((b.take (b.length - n)).length - m) = b.take (b.length - n - m) := by
  rw [List.take_take, List.length_take]
  congr 1
  omega

/-! ### per kind: the decoder's size is the probe's size -/

theorem probe_of_varint (b : Bytes) (t : UInt8) (hb : b ≠ []) (ht : decodeType b = (t, 1))
    (hk : t = tInt16 ∨ t = tInt32 ∨ t = tInt64 ∨ t = tUint16 ∨ t = tUint32 ∨ t = tUint64)
    (m : Int) (hm : 0 < m) (hs : (revSize (dropLastN 1 b) : Int) = m) :
    decodeTypeSize b = .ok (t, 1 + m.toNat) := by
  have hl : b.length ≠ 0 := by
    intro h; exact hb (List.eq_nil_of_length_eq_zero h)
  have hbool : ¬ (t = tTrue ∨ t = tFalse) := by
    rcases hk with h | h | h | h | h | h <;> subst h <;> decide
  have hbyte : ¬ t = tByte := by
    rcases hk with h | h | h | h | h | h <;> subst h <;> decide
  unfold decodeTypeSize
  simp only [hl, ↓reduceIte, ht, hbool, hbyte, hk]
  have : revSize (List.take (b.length - 1) b) = m.toNat := by
    unfold dropLastN at hs
    omega
  rw [this]
  have : ¬ m.toNat = 0 := by omega
  simp [this]

theorem len_ne_zero {b : Bytes} (hb : b ≠ []) : b.length ≠ 0 :=
  fun h => hb (List.eq_nil_of_length_eq_zero h)

/-- signed decoders called on a value stored with a 32-bit code -/
theorem probe_of_i32 (b : Bytes) (t : UInt8) (hb : b ≠ []) (ht : decodeType b = (t, 1))
    (hk : t = tInt16 ∨ t = tInt32) (sz : Nat)
    (h : (∃ v, decodeInt16 b = .ok (v, sz)) ∨ (∃ v, decodeInt32 b = .ok (v, sz)) ∨ (∃ v, decodeInt64 b = .ok (v, sz))) :
    decodeTypeSize b = .ok (t, sz) := by
  have hl := len_ne_zero hb
  have key : 0 < (revI32 (dropLastN 1 b)).2 ∧ sz = 1 + (revI32 (dropLastN 1 b)).2.toNat := by
    rcases h with ⟨v, h⟩ | ⟨v, h⟩ | ⟨v, h⟩
    · unfold decodeInt16 at h
      simp only [hl, ↓reduceIte, ht, hk] at h
      repeat' split at h
      all_goals (cases h)
      all_goals exact ⟨by omega, rfl⟩
    · unfold decodeInt32 at h
      simp only [hl, ↓reduceIte, ht, hk] at h
      repeat' split at h
      all_goals (cases h)
      all_goals exact ⟨by omega, rfl⟩
    · unfold decodeInt64 at h
      simp only [hl, ↓reduceIte, ht, hk] at h
      repeat' split at h
      all_goals (cases h)
      all_goals exact ⟨by omega, rfl⟩
  rw [key.2]
  exact probe_of_varint b t hb ht (by rcases hk with h | h <;> simp [h]) _ key.1 (revSize_of_i32 _ key.1)

theorem probe_of_i64 (b : Bytes) (hb : b ≠ []) (ht : decodeType b = (tInt64, 1)) (sz : Nat) (v : Int)
    (h : decodeInt64 b = .ok (v, sz)) : decodeTypeSize b = .ok (tInt64, sz) := by
  have hl := len_ne_zero hb
  have h1 : ¬ (tInt64 = tInt16 ∨ tInt64 = tInt32) := by decide
  have key : 0 < (revI64 (dropLastN 1 b)).2 ∧ sz = 1 + (revI64 (dropLastN 1 b)).2.toNat := by
    unfold decodeInt64 at h
    simp only [hl, ↓reduceIte, ht, h1] at h
    repeat' split at h
    all_goals (cases h)
    all_goals exact ⟨by omega, rfl⟩
  rw [key.2]
  exact probe_of_varint b tInt64 hb ht (by simp) _ key.1 (revSize_of_i64 _ key.1)

theorem probe_of_u32 (b : Bytes) (t : UInt8) (hb : b ≠ []) (ht : decodeType b = (t, 1))
    (hk : t = tUint16 ∨ t = tUint32) (sz : Nat)
    (h : (∃ v, decodeUint16 b = .ok (v, sz)) ∨ (∃ v, decodeUint32 b = .ok (v, sz))) :
    decodeTypeSize b = .ok (t, sz) := by
  have hl := len_ne_zero hb
  have key : 0 < (revU32 (dropLastN 1 b)).2 ∧ sz = 1 + (revU32 (dropLastN 1 b)).2.toNat := by
    rcases h with ⟨v, h⟩ | ⟨v, h⟩
    · unfold decodeUint16 at h
      simp only [hl, ↓reduceIte, ht, hk] at h
      repeat' split at h
      all_goals (cases h)
      all_goals exact ⟨by omega, rfl⟩
    · unfold decodeUint32 at h
      simp only [hl, ↓reduceIte, ht, hk] at h
      repeat' split at h
      all_goals (cases h)
      all_goals exact ⟨by omega, rfl⟩
  rw [key.2]
  exact probe_of_varint b t hb ht (by rcases hk with h | h <;> simp [h]) _ key.1 (revSize_of_u32 _ key.1)

theorem probe_of_u64 (b : Bytes) (hb : b ≠ []) (ht : decodeType b = (tUint64, 1)) (sz : Nat) (v : Nat)
    (h : decodeUint64 b = .ok (v, sz)) : decodeTypeSize b = .ok (tUint64, sz) := by
  have hl := len_ne_zero hb
  have h1 : ¬ (tUint64 = tUint16 ∨ tUint64 = tUint32) := by decide
  have key : 0 < (revU64 (dropLastN 1 b)).2 ∧ sz = 1 + (revU64 (dropLastN 1 b)).2.toNat := by
    unfold decodeUint64 at h
    simp only [hl, ↓reduceIte, ht, h1] at h
    repeat' split at h
    all_goals (cases h)
    all_goals exact ⟨by omega, rfl⟩
  rw [key.2]
  exact probe_of_varint b tUint64 hb ht (by simp) _ key.1 (revSize_of_u64 _ key.1)

theorem probe_of_bool (b : Bytes) (t : UInt8) (hb : b ≠ []) (ht : decodeType b = (t, 1))
    (hk : t = tTrue ∨ t = tFalse) : decodeTypeSize b = .ok (t, 1) := by
  have hl := len_ne_zero hb
  unfold decodeTypeSize
  simp [hl, ht, hk]

theorem probe_of_byte (b : Bytes) (hb : b ≠ []) (ht : decodeType b = (tByte, 1)) (x : UInt8) (sz : Nat)
    (h : decodeByte b = .ok (x, sz)) : decodeTypeSize b = .ok (tByte, sz) := by
  have hl := len_ne_zero hb
  unfold decodeByte at h
  simp only [hl, ↓reduceIte, ht, ne_eq, not_true_eq_false] at h
  split at h
  · cases h
  · cases h
    rename_i h2
    unfold decodeTypeSize
    have h0 : ¬ (tByte = tTrue ∨ tByte = tFalse) := by decide
    have h3 : ¬ (b.length - 1 = 0) := by omega
    simp [hl, ht, h0, h3]

theorem probe_of_bin (k : Nat) (code : UInt8) (b : Bytes) (hb : b ≠ []) (ht : decodeType b = (code, 1))
    (hk : (code = tBin64 ∧ k = 8) ∨ (code = tBin128 ∧ k = 16) ∨ (code = tBin256 ∧ k = 32))
    (v : Bytes) (sz : Nat) (h : decodeBin k code b = .ok (v, sz)) : decodeTypeSize b = .ok (code, sz) := by
  have hl := len_ne_zero hb
  unfold decodeBin at h
  simp only [hl, ↓reduceIte, ht, ne_eq, not_true_eq_false] at h
  split at h
  · cases h
  · cases h
    rename_i h2
    unfold decodeTypeSize
    rcases hk with ⟨hc, hk⟩ | ⟨hc, hk⟩ | ⟨hc, hk⟩ <;> subst hc <;> subst hk
    · have h0 : ¬ (tBin64 = tTrue ∨ tBin64 = tFalse) := by decide
      have h1 : ¬ (tBin64 = tInt16 ∨ tBin64 = tInt32 ∨ tBin64 = tInt64 ∨ tBin64 = tUint16 ∨ tBin64 = tUint32 ∨ tBin64 = tUint64) := by decide
      have h3 : ¬ (b.length - 1 < 8) := by omega
      simp (config := { decide := true }) [hl, ht, h0, h1, h3]
    · have h0 : ¬ (tBin128 = tTrue ∨ tBin128 = tFalse) := by decide
      have h1 : ¬ (tBin128 = tInt16 ∨ tBin128 = tInt32 ∨ tBin128 = tInt64 ∨ tBin128 = tUint16 ∨ tBin128 = tUint32 ∨ tBin128 = tUint64) := by decide
      have h3 : ¬ (b.length - 1 < 16) := by omega
      simp (config := { decide := true }) [hl, ht, h0, h1, h3]
    · have h0 : ¬ (tBin256 = tTrue ∨ tBin256 = tFalse) := by decide
      have h1 : ¬ (tBin256 = tInt16 ∨ tBin256 = tInt32 ∨ tBin256 = tInt64 ∨ tBin256 = tUint16 ∨ tBin256 = tUint32 ∨ tBin256 = tUint64) := by decide
      have h3 : ¬ (b.length - 1 < 32) := by omega
      simp (config := { decide := true }) [hl, ht, h0, h1, h3]

theorem probe_of_float (F : FloatOps) (b : Bytes) (t : UInt8) (hb : b ≠ []) (ht : decodeType b = (t, 1))
    (hk : t = tFloat32 ∨ t = tFloat64) (sz : Nat)
    (h : (t = tFloat32 ∧ ∃ v, decodeFloat32 F b = .ok (v, sz)) ∨ (t = tFloat64 ∧ ∃ v, decodeFloat64 F b = .ok (v, sz))) :
    decodeTypeSize b = .ok (t, sz) := by
  have hl := len_ne_zero hb
  have key : ∃ v, decodeFloat64' F b = some (v, sz) := by
    rcases h with ⟨_, v, h⟩ | ⟨_, v, h⟩
    · unfold decodeFloat32 at h
      simp only [hl, ↓reduceIte] at h
      split at h
      · cases h
      · rename_i v' n' he
        repeat' split at h
        all_goals (cases h)
        all_goals exact ⟨_, he⟩
    · unfold decodeFloat64 at h
      simp only [hl, ↓reduceIte] at h
      split at h
      · cases h
      · rename_i v' n' he
        cases h
        exact ⟨_, he⟩
  obtain ⟨v, hv⟩ := key
  unfold decodeFloat64' at hv
  simp only [ht] at hv
  unfold decodeTypeSize
  rcases hk with hk | hk <;> subst hk
  · simp only [↓reduceIte] at hv
    split at hv
    · cases hv
    · cases hv
      have h3 : ¬ (b.length - 1 < 4) := by omega
      simp (config := { decide := true }) [hl, ht, h3]
  · have hne : ¬ (tFloat64 = tFloat32) := by decide
    simp only [hne, ↓reduceIte] at hv
    split at hv
    · cases hv
    · cases hv
      have h3 : ¬ (b.length - 1 < 8) := by omega
      simp (config := { decide := true }) [hl, ht, h3]

theorem probe_of_bytes (b : Bytes) (hb : b ≠ []) (ht : decodeType b = (tBytes, 1)) (v : Bytes) (sz : Nat)
    (h : decodeBytes b = .ok (v, sz)) : decodeTypeSize b = .ok (tBytes, sz) := by
  have hl := len_ne_zero hb
  unfold decodeBytes at h
  simp only [hl, ↓reduceIte, ht, ne_eq, not_true_eq_false] at h
  repeat' split at h
  all_goals (cases h)
  rename_i hm he
  unfold decodeTypeSize
  have hpos : 0 < b.length := by omega
  have hbd := decodeSize_bound (List.take (b.length - 1) b)
  simp only [List.length_take] at hbd
  have h3 : ¬ (b.length < 1 + (decodeSize (List.take (b.length - 1) b)).2.toNat + (decodeSize (List.take (b.length - 1) b)).1) := by
    generalize (decodeSize (List.take (b.length - 1) b)).2 = mi at *
    generalize (decodeSize (List.take (b.length - 1) b)).1 = dd at *
    omega
  simp (config := { decide := true }) [hl, ht, hm, h3]

theorem probe_of_string (b : Bytes) (hb : b ≠ []) (ht : decodeType b = (tString, 1)) (v : Bytes) (sz : Nat)
    (h : decodeString b = .ok (v, sz)) : decodeTypeSize b = .ok (tString, sz) := by
  have hl := len_ne_zero hb
  unfold decodeString at h
  simp only [hl, ↓reduceIte, ht, ne_eq, not_true_eq_false] at h
  repeat' split at h
  all_goals (cases h)
  rename_i hm h1 he
  unfold decodeTypeSize
  have h3 : ¬ (b.length < 1 + (decodeSize (List.take (b.length - 1) b)).2.toNat + (decodeSize (List.take (b.length - 1) b)).1 + 1) := by
    omega
  simp (config := { decide := true }) [hl, ht, hm, h3]
  omega

theorem probe_of_struct (b : Bytes) (hb : b ≠ []) (ht : decodeType b = (tStruct, 1)) (d : Nat) (sz : Nat)
    (h : decodeStruct b = .ok (d, sz)) : decodeTypeSize b = .ok (tStruct, sz) := by
  have hl := len_ne_zero hb
  unfold decodeStruct at h
  simp only [hl, ↓reduceIte, ht, ne_eq, not_true_eq_false] at h
  repeat' split at h
  all_goals (cases h)
  rename_i hm he
  unfold decodeTypeSize
  simp (config := { decide := true }) [hl, ht, hm, he]

theorem probe_of_table (small big : UInt8) (esS esB : Nat) (b : Bytes) (c : UInt8) (hb : b ≠ [])
    (ht : decodeType b = (c, 1))
    (hk : (small = tList ∧ big = tBigList) ∨ (small = tMessage ∧ big = tBigMessage))
    (hc : c = small ∨ c = big) (t : Table) (sz : Nat)
    (h : decodeTable small big esS esB b = .ok (t, sz)) : decodeTypeSize b = .ok (c, sz) := by
  have hl := len_ne_zero hb
  have hcc : c = tList ∨ c = tBigList ∨ c = tMessage ∨ c = tBigMessage := by
    rcases hk with ⟨h1, h2⟩ | ⟨h1, h2⟩ <;> rcases hc with h | h <;> simp [h, h1, h2]
  unfold decodeTable at h
  have hnot : ¬ (c ≠ small ∧ c ≠ big) := by
    rcases hc with h | h <;> simp [h]
  simp only [hl, ↓reduceIte, ht, hnot] at h
  repeat' split at h
  all_goals (cases h)
  all_goals (
    rename_i hm1 hm2 he2 hbig hmod hdata
    have hb1 := decodeSize_bound (List.take (b.length - 1) b)
    have hb2 := decodeSize_bound (List.take (b.length - 1 - (decodeSize (List.take (b.length - 1) b)).2.toNat) b)
    simp only [List.length_take] at hb1 hb2
    unfold decodeTypeSize
    have e : List.take ((List.take (b.length - 1) b).length - (decodeSize (List.take (b.length - 1) b)).2.toNat) (List.take (b.length - 1) b)
        = List.take (b.length - 1 - (decodeSize (List.take (b.length - 1) b)).2.toNat) b := by
      rw [List.take_take, List.length_take]; congr 1; omega
    have hbool : ¬ (c = tTrue ∨ c = tFalse) := by
      rcases hcc with h | h | h | h <;> subst h <;> decide
    have hbyte : ¬ c = tByte := by rcases hcc with h | h | h | h <;> subst h <;> decide
    have hint : ¬ (c = tInt16 ∨ c = tInt32 ∨ c = tInt64 ∨ c = tUint16 ∨ c = tUint32 ∨ c = tUint64) := by
      rcases hcc with h | h | h | h <;> subst h <;> decide
    have hf32 : ¬ c = tFloat32 := by rcases hcc with h | h | h | h <;> subst h <;> decide
    have hf64 : ¬ c = tFloat64 := by rcases hcc with h | h | h | h <;> subst h <;> decide
    have hb64 : ¬ c = tBin64 := by rcases hcc with h | h | h | h <;> subst h <;> decide
    have hb128 : ¬ c = tBin128 := by rcases hcc with h | h | h | h <;> subst h <;> decide
    have hb256 : ¬ c = tBin256 := by rcases hcc with h | h | h | h <;> subst h <;> decide
    have hby : ¬ c = tBytes := by rcases hcc with h | h | h | h <;> subst h <;> decide
    have hst : ¬ c = tString := by rcases hcc with h | h | h | h <;> subst h <;> decide
    simp only [hl, ↓reduceIte, ht, hbool, hbyte, hint, hf32, hf64, hb64, hb128, hb256, hby, hst, hcc, hm1, e, hm2]
    generalize (decodeSize (List.take (b.length - 1 - (decodeSize (List.take (b.length - 1) b)).2.toNat) b)).2 = m2 at *
    generalize (decodeSize (List.take (b.length - 1 - (decodeSize (List.take (b.length - 1) b)).2.toNat) b)).1 = d2 at *
    generalize (decodeSize (List.take (b.length - 1) b)).2 = m1 at *
    generalize (decodeSize (List.take (b.length - 1) b)).1 = ts at *
    have h3 : ¬ (b.length < 1 + m1.toNat + ts + m2.toNat + d2) := by omega
    simp only [h3, ↓reduceIte]
    congr 2
    omega)

theorem guardSize_ok (len : Nat) (r : Res Nat) (n : Nat) (h : guardSize len r = .ok n) : r = .ok n := by
  unfold guardSize at h
  split at h
  · split at h
    · cases h
    · cases h; rfl
  · rename_i hne
    cases r with
    | ok x => exact absurd rfl (hne x)
    | err e k => cases h
    | panic => cases h

theorem bind_snd_ok {α : Type} (r : Res (α × Nat)) (n : Nat)
    (h : (r.bind fun x => Res.ok x.2) = .ok n) : ∃ v, r = .ok (v, n) := by
  cases r with
  | ok x => simp only [Res.bind] at h; cases h; exact ⟨x.1, rfl⟩
  | err e k => cases h
  | panic => cases h

theorem parseList_size (F : FloatOps) (fuel : Nat) (b : Bytes) (n : Nat) (h : parseList F fuel b = .ok n) :
    ∃ t, decodeListTable b = .ok (t, n) := by
  cases fuel with
  | zero => simp [parseList] at h
  | succ fuel =>
    simp only [parseList] at h
    split at h
    · cases h
    · cases h
    · rename_i t size hd
      split at h
      · cases h
      · cases h
      · have := parseListElems_size F fuel _ size n _ _ h
        subst this
        exact ⟨t, hd⟩

theorem parseMessage_size (F : FloatOps) (fuel : Nat) (b : Bytes) (n : Nat) (h : parseMessage F fuel b = .ok n) :
    ∃ t, decodeMessageTable b = .ok (t, n) := by
  cases fuel with
  | zero => simp [parseMessage] at h
  | succ fuel =>
    simp only [parseMessage] at h
    split at h
    · cases h
    · cases h
    · rename_i t size hd
      split at h
      · cases h
      · cases h
      · have := parseMsgFields_size F fuel _ size n _ _ h
        subst this
        exact ⟨t, hd⟩

/-- `r` can only succeed with the size the probe reports -/
def Agrees (b : Bytes) (r : Res Nat) : Prop := ∀ n, r = .ok n → ∃ t, decodeTypeSize b = .ok (t, n)

theorem Agrees_ite (b : Bytes) (c : Prop) [Decidable c] (x y : Res Nat)
    (hx : c → Agrees b x) (hy : ¬ c → Agrees b y) : Agrees b (if c then x else y) := by
  by_cases h : c
  · simp only [h, ↓reduceIte]; exact hx h
  · simp only [h, ↓reduceIte]; exact hy h

theorem Agrees_err (b : Bytes) (e : Err) (k : Nat) : Agrees b (.err e k) := by
  intro n h; cases h

/-- the parser and the probe agree on the size of every value the parser accepts -/
theorem parse_probe_agree (F : FloatOps) (fuel : Nat) (b : Bytes) (n : Nat)
    (h : parseValue F fuel b = .ok n) : b ≠ [] ∧ ∃ t, decodeTypeSize b = .ok (t, n) := by
  cases fuel with
  | zero => simp [parseValue] at h
  | succ fuel =>
    simp only [parseValue] at h
    have hr := guardSize_ok _ _ _ h
    clear h
    by_cases hb : b = []
    · subst hb
      simp (config := { decide := true }) [decodeType] at hr
    · refine ⟨hb, ?_⟩
      obtain ⟨t, ht, _⟩ := decodeType_ne_nil b hb
      have ht1 : (decodeType b).1 = t := by rw [ht]
      revert hr
      revert n
      show Agrees b _
      repeat' (apply Agrees_ite <;> intro hk)
      all_goals first
        | exact Agrees_err _ _ _
        | (intro n hr; rw [ht1] at hk; cases hr; rw [ht]; exact ⟨t, probe_of_bool b t hb ht hk⟩)
        | (intro n hr; rw [ht1] at hk; subst hk; obtain ⟨v, hv⟩ := bind_snd_ok _ _ hr; exact ⟨_, probe_of_byte b hb ht v n hv⟩)
        | (intro n hr; rw [ht1] at hk; subst hk; obtain ⟨v, hv⟩ := bind_snd_ok _ _ hr; exact ⟨_, probe_of_i32 b _ hb ht (Or.inl rfl) n (Or.inl ⟨v, hv⟩)⟩)
        | (intro n hr; rw [ht1] at hk; subst hk; obtain ⟨v, hv⟩ := bind_snd_ok _ _ hr; exact ⟨_, probe_of_i32 b _ hb ht (Or.inr rfl) n (Or.inr (Or.inl ⟨v, hv⟩))⟩)
        | (intro n hr; rw [ht1] at hk; subst hk; obtain ⟨v, hv⟩ := bind_snd_ok _ _ hr; exact ⟨_, probe_of_i64 b hb ht n v hv⟩)
        | (intro n hr; rw [ht1] at hk; subst hk; obtain ⟨v, hv⟩ := bind_snd_ok _ _ hr; exact ⟨_, probe_of_u32 b _ hb ht (Or.inl rfl) n (Or.inl ⟨v, hv⟩)⟩)
        | (intro n hr; rw [ht1] at hk; subst hk; obtain ⟨v, hv⟩ := bind_snd_ok _ _ hr; exact ⟨_, probe_of_u32 b _ hb ht (Or.inr rfl) n (Or.inr ⟨v, hv⟩)⟩)
        | (intro n hr; rw [ht1] at hk; subst hk; obtain ⟨v, hv⟩ := bind_snd_ok _ _ hr; exact ⟨_, probe_of_u64 b hb ht n v hv⟩)
        | (intro n hr; rw [ht1] at hk; subst hk; obtain ⟨v, hv⟩ := bind_snd_ok _ _ hr; exact ⟨_, probe_of_bin 8 _ b hb ht (Or.inl ⟨rfl, rfl⟩) v n hv⟩)
        | (intro n hr; rw [ht1] at hk; subst hk; obtain ⟨v, hv⟩ := bind_snd_ok _ _ hr; exact ⟨_, probe_of_bin 16 _ b hb ht (Or.inr (Or.inl ⟨rfl, rfl⟩)) v n hv⟩)
        | (intro n hr; rw [ht1] at hk; subst hk; obtain ⟨v, hv⟩ := bind_snd_ok _ _ hr; exact ⟨_, probe_of_bin 32 _ b hb ht (Or.inr (Or.inr ⟨rfl, rfl⟩)) v n hv⟩)
        | (intro n hr; rw [ht1] at hk; subst hk; obtain ⟨v, hv⟩ := bind_snd_ok _ _ hr; exact ⟨_, probe_of_float F b _ hb ht (Or.inl rfl) n (Or.inl ⟨rfl, v, hv⟩)⟩)
        | (intro n hr; rw [ht1] at hk; subst hk; obtain ⟨v, hv⟩ := bind_snd_ok _ _ hr; exact ⟨_, probe_of_float F b _ hb ht (Or.inr rfl) n (Or.inr ⟨rfl, v, hv⟩)⟩)
        | (intro n hr; rw [ht1] at hk; subst hk; obtain ⟨v, hv⟩ := bind_snd_ok _ _ hr; exact ⟨_, probe_of_bytes b hb ht v n hv⟩)
        | (intro n hr; rw [ht1] at hk; subst hk; obtain ⟨v, hv⟩ := bind_snd_ok _ _ hr; exact ⟨_, probe_of_string b hb ht v n hv⟩)
        | (intro n hr; rw [ht1] at hk; obtain ⟨tb, htb⟩ := parseList_size F fuel b n hr; exact ⟨t, probe_of_table _ _ _ _ b t hb ht (Or.inl ⟨rfl, rfl⟩) hk tb n htb⟩)
        | (intro n hr; rw [ht1] at hk; obtain ⟨tb, htb⟩ := parseMessage_size F fuel b n hr; exact ⟨t, probe_of_table _ _ _ _ b t hb ht (Or.inr ⟨rfl, rfl⟩) hk tb n htb⟩)
        | (intro n hr; rw [ht1] at hk; subst hk; obtain ⟨v, hv⟩ := bind_snd_ok _ _ hr; exact ⟨_, probe_of_struct b hb ht v n hv⟩)

end SpecVerif
