/-
Agreement of the recursive parser with the type-and-size probe (C13): whenever `parseValue`
accepts a byte string with size `n`, `decodeTypeSize` reports exactly `n` for it (so `OpenValue`,
which uses the probe, returns exactly the parsed value).
-/
import SpecVerif.Wire.Types
import SpecVerif.Lemmas.Probe
namespace SpecVerif
open Pinned

theorem decodeType_ne_nil (b : Bytes) (h : b ≠ []) : ∃ t, decodeType b = (t, 1) ∧ b.getLast? = some t := by
  unfold decodeType
  cases hl : b.getLast? with
  | none => exact absurd (List.getLast?_eq_none_iff.mp hl) h
  | some t => exact ⟨t, rfl, rfl⟩

theorem take_take_sub (b : Bytes) (n m : Nat) :
    (b.take (b.length - n)).take ((b.take (b.length - n)).length - m) = b.take (b.length - n - m) := by
  rw [List.take_take, List.length_take]
  congr 1
  omega

/-! ### per kind: the decoder's size is the probe's size -/

theorem probe_of_varint (b : Bytes) (t : UInt8) (hb : b ≠ []) (ht : decodeType b = (t, 1))
    (hk : t = tInt16 ∨ t = tInt32 ∨ t = tInt64 ∨ t = tUint16 ∨ t = tUint32 ∨ t = tUint64)
    (m : Int) (hm : 0 < m) (hs : (revSize (dropLastN 1 b) : Int) = m) :
    decodeTypeSize b = .ok (t, 1 + m.toNat) := by
  have hl : b.length ≠ 0 := by
    intro h; exact hb (List.eq_nil_of_length_eq_zero h)
  have hbool : ¬ (t = tTrue ∨ t = tFalse) := by
    rcases hk with h | h | h | h | h | h <;> subst h <;> decide
  have hbyte : ¬ t = tByte := by
    rcases hk with h | h | h | h | h | h <;> subst h <;> decide
  unfold decodeTypeSize
  simp only [hl, ↓reduceIte, ht, hbool, hbyte, hk]
  have : revSize (List.take (b.length - 1) b) = m.toNat := by
    unfold dropLastN at hs
    omega
  rw [this]
  have : ¬ m.toNat = 0 := by omega
  simp [this]

theorem len_ne_zero {b : Bytes} (hb : b ≠ []) : b.length ≠ 0 :=
  fun h => hb (List.eq_nil_of_length_eq_zero h)

/-- signed decoders called on a value stored with a 32-bit code -/
theorem probe_of_i32 (b : Bytes) (t : UInt8) (hb : b ≠ []) (ht : decodeType b = (t, 1))
    (hk : t = tInt16 ∨ t = tInt32) (sz : Nat)
    (h : (∃ v, decodeInt16 b = .ok (v, sz)) ∨ (∃ v, decodeInt32 b = .ok (v, sz)) ∨ (∃ v, decodeInt64 b = .ok (v, sz))) :
    decodeTypeSize b = .ok (t, sz) := by
  have hl := len_ne_zero hb
  have key : 0 < (revI32 (dropLastN 1 b)).2 ∧ sz = 1 + (revI32 (dropLastN 1 b)).2.toNat := by
    rcases h with ⟨v, h⟩ | ⟨v, h⟩ | ⟨v, h⟩
    · unfold decodeInt16 at h
      simp only [hl, ↓reduceIte, ht, hk] at h
      repeat' split at h
      all_goals first | cases h | (simp only [Res.ok.injEq, Prod.mk.injEq] at h; exact ⟨by omega, by omega⟩)
    · unfold decodeInt32 at h
      simp only [hl, ↓reduceIte, ht, hk] at h
      repeat' split at h
      all_goals first | cases h | (simp only [Res.ok.injEq, Prod.mk.injEq] at h; exact ⟨by omega, by omega⟩)
    · unfold decodeInt64 at h
      simp only [hl, ↓reduceIte, ht, hk] at h
      repeat' split at h
      all_goals first | cases h | (simp only [Res.ok.injEq, Prod.mk.injEq] at h; exact ⟨by omega, by omega⟩)
  rw [key.2]
  exact probe_of_varint b t hb ht (by rcases hk with h | h <;> simp [h]) _ key.1 (revSize_of_i32 _ key.1)

end SpecVerif
