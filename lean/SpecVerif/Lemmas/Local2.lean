import SpecVerif.Lemmas.Local
import SpecVerif.Lemmas.Scalars
namespace SpecVerif
open Pinned

/-- A decoder is local: accepting `q ++ s` with size `|s|` (`s` non-empty) it accepts `p ++ s` with
the same value and size, for every `p`. -/
def LocalDec {α : Type} (d : Bytes → Res (α × Nat)) : Prop :=
  ∀ (q p s : Bytes) (v : α), s ≠ [] → d (q ++ s) = .ok (v, s.length) → d (p ++ s) = .ok (v, s.length)

macro "local_int32" q:ident p:ident body:ident h:ident : tactic => `(tactic| (
    have key : (revI32 ($q ++ $body)).2 = ($body).length ∧ 0 < (revI32 ($q ++ $body)).2 := by
      generalize revI32 ($q ++ $body) = r at $h:ident
      obtain ⟨v', m⟩ := r
      simp only at $h:ident ⊢
      repeat' split at $h:ident
      all_goals simp at $h:ident
      all_goals omega
    have hb : $body ≠ [] := by
      intro h0; subst h0; simp at key; omega
    rw [revI32_prefix $q $p $body hb key.1]; exact $h))

macro "local_int64" q:ident p:ident body:ident h:ident : tactic => `(tactic| (
    have key : (revI64 ($q ++ $body)).2 = ($body).length ∧ 0 < (revI64 ($q ++ $body)).2 := by
      generalize revI64 ($q ++ $body) = r at $h:ident
      obtain ⟨v', m⟩ := r
      simp only at $h:ident ⊢
      repeat' split at $h:ident
      all_goals simp at $h:ident
      all_goals omega
    have hb : $body ≠ [] := by
      intro h0; subst h0; simp at key; omega
    rw [revI64_prefix $q $p $body hb key.1]; exact $h))

macro "local_uint32" q:ident p:ident body:ident h:ident : tactic => `(tactic| (
    have key : (revU32 ($q ++ $body)).2 = ($body).length ∧ 0 < (revU32 ($q ++ $body)).2 := by
      generalize revU32 ($q ++ $body) = r at $h:ident
      obtain ⟨v', m⟩ := r
      simp only at $h:ident ⊢
      repeat' split at $h:ident
      all_goals simp at $h:ident
      all_goals omega
    have hb : $body ≠ [] := by
      intro h0; subst h0; simp at key; omega
    rw [revU32_prefix $q $p $body hb key.1]; exact $h))

macro "local_uint64" q:ident p:ident body:ident h:ident : tactic => `(tactic| (
    have key : (revU64 ($q ++ $body)).2 = ($body).length ∧ 0 < (revU64 ($q ++ $body)).2 := by
      generalize revU64 ($q ++ $body) = r at $h:ident
      obtain ⟨v', m⟩ := r
      simp only at $h:ident ⊢
      repeat' split at $h:ident
      all_goals simp at $h:ident
      all_goals omega
    have hb : $body ≠ [] := by
      intro h0; subst h0; simp at key; omega
    rw [revU64_prefix $q $p $body hb key.1]; exact $h))

theorem decodeInt16_local : LocalDec decodeInt16 := by
  intro q p s v hs h
  obtain ⟨body, t, rfl⟩ := exists_snoc s hs
  rw [← List.append_assoc] at h ⊢
  unfold decodeInt16 at h ⊢
  simp only [snoc_length_ne, ↓reduceIte, decodeType_snoc, dropLastN_one_snoc] at h ⊢
  by_cases c1 : t = tInt16 ∨ t = tInt32
  · simp only [c1, ↓reduceIte] at h ⊢
    local_int32 q p body h
  · simp only [c1, ↓reduceIte] at h ⊢
    by_cases c2 : t = tInt64
    · simp only [c2, ↓reduceIte] at h ⊢
      local_int64 q p body h
    · simp [c2] at h

theorem decodeInt32_local : LocalDec decodeInt32 := by
  intro q p s v hs h
  obtain ⟨body, t, rfl⟩ := exists_snoc s hs
  rw [← List.append_assoc] at h ⊢
  unfold decodeInt32 at h ⊢
  simp only [snoc_length_ne, ↓reduceIte, decodeType_snoc, dropLastN_one_snoc] at h ⊢
  by_cases c1 : t = tInt16 ∨ t = tInt32
  · simp only [c1, ↓reduceIte] at h ⊢
    local_int32 q p body h
  · simp only [c1, ↓reduceIte] at h ⊢
    by_cases c2 : t = tInt64
    · simp only [c2, ↓reduceIte] at h ⊢
      local_int64 q p body h
    · simp [c2] at h

theorem decodeInt64_local : LocalDec decodeInt64 := by
  intro q p s v hs h
  obtain ⟨body, t, rfl⟩ := exists_snoc s hs
  rw [← List.append_assoc] at h ⊢
  unfold decodeInt64 at h ⊢
  simp only [snoc_length_ne, ↓reduceIte, decodeType_snoc, dropLastN_one_snoc] at h ⊢
  by_cases c1 : t = tInt16 ∨ t = tInt32
  · simp only [c1, ↓reduceIte] at h ⊢
    local_int32 q p body h
  · simp only [c1, ↓reduceIte] at h ⊢
    by_cases c2 : t = tInt64
    · simp only [c2, ↓reduceIte] at h ⊢
      local_int64 q p body h
    · simp [c2] at h

theorem decodeUint16_local : LocalDec decodeUint16 := by
  intro q p s v hs h
  obtain ⟨body, t, rfl⟩ := exists_snoc s hs
  rw [← List.append_assoc] at h ⊢
  unfold decodeUint16 at h ⊢
  simp only [snoc_length_ne, ↓reduceIte, decodeType_snoc, dropLastN_one_snoc] at h ⊢
  by_cases c1 : t = tUint16 ∨ t = tUint32
  · simp only [c1, ↓reduceIte] at h ⊢
    local_uint32 q p body h
  · simp only [c1, ↓reduceIte] at h ⊢
    by_cases c2 : t = tUint64
    · simp only [c2, ↓reduceIte] at h ⊢
      local_uint64 q p body h
    · simp [c2] at h

theorem decodeUint32_local : LocalDec decodeUint32 := by
  intro q p s v hs h
  obtain ⟨body, t, rfl⟩ := exists_snoc s hs
  rw [← List.append_assoc] at h ⊢
  unfold decodeUint32 at h ⊢
  simp only [snoc_length_ne, ↓reduceIte, decodeType_snoc, dropLastN_one_snoc] at h ⊢
  by_cases c1 : t = tUint16 ∨ t = tUint32
  · simp only [c1, ↓reduceIte] at h ⊢
    local_uint32 q p body h
  · simp only [c1, ↓reduceIte] at h ⊢
    by_cases c2 : t = tUint64
    · simp only [c2, ↓reduceIte] at h ⊢
      local_uint64 q p body h
    · simp [c2] at h

theorem decodeUint64_local : LocalDec decodeUint64 := by
  intro q p s v hs h
  obtain ⟨body, t, rfl⟩ := exists_snoc s hs
  rw [← List.append_assoc] at h ⊢
  unfold decodeUint64 at h ⊢
  simp only [snoc_length_ne, ↓reduceIte, decodeType_snoc, dropLastN_one_snoc] at h ⊢
  by_cases c1 : t = tUint16 ∨ t = tUint32
  · simp only [c1, ↓reduceIte] at h ⊢
    local_uint32 q p body h
  · simp only [c1, ↓reduceIte] at h ⊢
    by_cases c2 : t = tUint64
    · simp only [c2, ↓reduceIte] at h ⊢
      local_uint64 q p body h
    · simp [c2] at h

theorem decodeBool_local : LocalDec decodeBool := by
  intro q p s v hs h
  obtain ⟨body, t, rfl⟩ := exists_snoc s hs
  rw [← List.append_assoc] at h ⊢
  unfold decodeBool at h ⊢
  simp only [snoc_length_ne, ↓reduceIte, decodeType_snoc] at h ⊢
  exact h

theorem decodeByte_local : LocalDec decodeByte := by
  intro q p s v hs h
  obtain ⟨body, t, rfl⟩ := exists_snoc s hs
  unfold decodeByte at h ⊢
  by_cases c2 : (q ++ (body ++ [t])).length < 2
  · exfalso
    simp only [← List.append_assoc, snoc_length_ne, ↓reduceIte, decodeType_snoc] at h
    simp only [List.append_assoc] at h
    split at h <;> simp [c2] at h
  · have hb : body.length = 1 := by
      simp only [← List.append_assoc, snoc_length_ne, ↓reduceIte, decodeType_snoc] at h
      simp only [List.append_assoc] at h c2
      split at h
      · simp at h
      · simp only [c2, ↓reduceIte, Res.ok.injEq, Prod.mk.injEq] at h
        simp at h; omega
    have e1 : lastN 2 (q ++ (body ++ [t])) = body ++ [t] := lastN_append' q _ 2 (by simp [hb])
    have e2 : lastN 2 (p ++ (body ++ [t])) = body ++ [t] := lastN_append' p _ 2 (by simp [hb])
    rw [e1] at h
    rw [e2]
    have c3 : ¬ (p ++ (body ++ [t])).length < 2 := by simp [hb]
    simp only [← List.append_assoc, snoc_length_ne, ↓reduceIte, decodeType_snoc] at h ⊢
    simp only [List.append_assoc] at h c2 c3 ⊢
    simp only [c2, c3, ↓reduceIte] at h ⊢
    exact h

theorem lastN_of_len (q s : Bytes) (k : Nat) (h : s.length = k) : lastN k (q ++ s) = s :=
  lastN_append' q s k h

theorem decodeBin_local (k : Nat) (code : UInt8) : LocalDec (decodeBin k code) := by
  intro q p s v hs h
  obtain ⟨body, t, rfl⟩ := exists_snoc s hs
  rw [← List.append_assoc] at h ⊢
  unfold decodeBin at h ⊢
  simp only [snoc_length_ne, ↓reduceIte, decodeType_snoc] at h ⊢
  by_cases c1 : t ≠ code
  · simp [c1] at h
  · simp only [c1, ↓reduceIte] at h ⊢
    by_cases c2 : (q ++ body ++ [t]).length < 1 + k
    · rw [if_pos c2] at h; simp at h
    · simp only [c2, ↓reduceIte, Res.ok.injEq, Prod.mk.injEq] at h
      have hb : (body ++ [t]).length = 1 + k := by simp at h ⊢; omega
      have c3 : ¬ (p ++ body ++ [t]).length < 1 + k := by simp at hb ⊢; omega
      simp only [c3, ↓reduceIte, Res.ok.injEq, Prod.mk.injEq]
      rw [List.append_assoc, lastN_of_len q _ _ hb] at h
      rw [List.append_assoc, lastN_of_len p _ _ hb]
      exact h

theorem decodeFloat64'_local (F : FloatOps) (q p s : Bytes) (v : Nat) (hs : s ≠ [])
    (h : decodeFloat64' F (q ++ s) = some (v, s.length)) : decodeFloat64' F (p ++ s) = some (v, s.length) := by
  obtain ⟨body, t, rfl⟩ := exists_snoc s hs
  rw [← List.append_assoc] at h ⊢
  unfold decodeFloat64' at h ⊢
  simp only [decodeType_snoc] at h ⊢
  by_cases c1 : t = tFloat32
  · simp only [c1, ↓reduceIte] at h ⊢
    by_cases c2 : (q ++ body ++ [tFloat32]).length < 5
    · rw [if_pos c2] at h; simp at h
    · simp only [c2, ↓reduceIte, Option.some.injEq, Prod.mk.injEq] at h
      have hb : (body ++ [tFloat32]).length = 5 := by simp at h ⊢; omega
      have c3 : ¬ (p ++ body ++ [tFloat32]).length < 5 := by simp at hb ⊢; omega
      simp only [c3, ↓reduceIte, Option.some.injEq, Prod.mk.injEq]
      rw [List.append_assoc, lastN_of_len q _ _ hb] at h
      rw [List.append_assoc, lastN_of_len p _ _ hb]
      exact h
  · simp only [c1, ↓reduceIte] at h ⊢
    by_cases c4 : t = tFloat64
    · simp only [c4, ↓reduceIte] at h ⊢
      by_cases c2 : (q ++ body ++ [tFloat64]).length < 9
      · rw [if_pos c2] at h; simp at h
      · simp only [c2, ↓reduceIte, Option.some.injEq, Prod.mk.injEq] at h
        have hb : (body ++ [tFloat64]).length = 9 := by simp at h ⊢; omega
        have c3 : ¬ (p ++ body ++ [tFloat64]).length < 9 := by simp at hb ⊢; omega
        simp only [c3, ↓reduceIte, Option.some.injEq, Prod.mk.injEq]
        rw [List.append_assoc, lastN_of_len q _ _ hb] at h
        rw [List.append_assoc, lastN_of_len p _ _ hb]
        exact h
    · simp [c4] at h

theorem decodeFloat64_local (F : FloatOps) : LocalDec (decodeFloat64 F) := by
  intro q p s v hs h
  have hq : ¬ (q ++ s).length = 0 := by simp [hs]
  have hp : ¬ (p ++ s).length = 0 := by simp [hs]
  unfold decodeFloat64 at h ⊢
  simp only [hq, hp, ↓reduceIte] at h ⊢
  cases hd : decodeFloat64' F (q ++ s) with
  | none => simp [hd] at h
  | some a =>
    obtain ⟨x, n⟩ := a
    simp only [hd, Res.ok.injEq, Prod.mk.injEq] at h
    obtain ⟨h1, h2⟩ := h
    subst h1 h2
    rw [decodeFloat64'_local F q p s x hs hd]

theorem decodeFloat32_local (F : FloatOps) : LocalDec (decodeFloat32 F) := by
  intro q p s v hs h
  have hq : ¬ (q ++ s).length = 0 := by simp [hs]
  have hp : ¬ (p ++ s).length = 0 := by simp [hs]
  unfold decodeFloat32 at h ⊢
  simp only [hq, hp, ↓reduceIte] at h ⊢
  cases hd : decodeFloat64' F (q ++ s) with
  | none => simp [hd] at h
  | some a =>
    obtain ⟨x, n⟩ := a
    have hn : n = s.length := by
      simp only [hd] at h
      repeat' split at h
      all_goals simp at h
      all_goals omega
    subst hn
    rw [decodeFloat64'_local F q p s x hs hd]
    simpa [hd] using h

/-- splitting a buffer at a known distance from the end -/
theorem split_at_end (x : Bytes) (k : Nat) (h : k ≤ x.length) :
    ∃ a c, x = a ++ c ∧ c.length = k := ⟨dropLastN k x, lastN k x, (dropLastN_lastN k x).symm, by simp; omega⟩

theorem take_drop_window (p a : Bytes) (rest : Bytes) :
    List.drop (p.length + a.length - a.length) (List.take (p.length + a.length) (p ++ a ++ rest)) = a := by
  have : p.length + a.length - a.length = p.length := by omega
  rw [this]
  exact mid_slice p a rest p.length (p.length + a.length) rfl rfl

theorem decodeBytes_local : LocalDec decodeBytes := by
  intro q p s v hs h
  obtain ⟨body, t, rfl⟩ := exists_snoc s hs
  rw [← List.append_assoc] at h ⊢
  unfold decodeBytes at h ⊢
  simp only [snoc_length_ne, ↓reduceIte, decodeType_snoc, take_len_sub_one_snoc] at h ⊢
  by_cases c1 : t ≠ tBytes
  · simp [c1] at h
  · simp only [c1, ↓reduceIte] at h ⊢
    have hS := decodeSize_bound (q ++ body)
    generalize hd : decodeSize (q ++ body) = r at h hS
    obtain ⟨ds, m⟩ := r
    simp only at h hS
    by_cases c2 : m < 0
    · rw [if_pos c2] at h; simp at h
    · simp only [c2, ↓reduceIte] at h
      by_cases c3 : (q ++ body ++ [t]).length - 1 - m.toNat < ds
      · rw [if_pos c3] at h; simp at h
      · simp only [c3, ↓reduceIte, Res.ok.injEq, Prod.mk.injEq] at h
        obtain ⟨hv, hn⟩ := h
        simp only [List.length_append, List.length_singleton] at hn c3 hS
        have hm : m.toNat + ds = body.length := by omega
        obtain ⟨a, c, hac, hc⟩ := split_at_end body m.toNat (by omega)
        subst hac
        have hcne : c ≠ [] := by intro h0; subst h0; simp at hc; omega
        have hdq : decodeSize ((q ++ a) ++ c) = (ds, m) := by rw [List.append_assoc]; exact hd
        have key : (decodeSize ((q ++ a) ++ c)).2 = c.length := by rw [hdq]; simp; omega
        have hdp : decodeSize ((p ++ a) ++ c) = (ds, m) := by
          rw [decodeSize_prefix (q ++ a) (p ++ a) c hcne key, hdq]
        rw [← List.append_assoc p a c, hdp]
        simp only [c2, ↓reduceIte]
        have ha : a.length = ds := by simp at hm; omega
        have c4 : ¬ (p ++ a ++ c ++ [t]).length - 1 - m.toNat < ds := by simp; omega
        simp only [c4, ↓reduceIte, Res.ok.injEq, Prod.mk.injEq]
        refine ⟨?_, by simp at hn ⊢; omega⟩
        rw [← hv]
        have e1 : (q ++ (a ++ c) ++ [t]).length - 1 - m.toNat = q.length + a.length := by simp; omega
        have e2 : (p ++ a ++ c ++ [t]).length - 1 - m.toNat = p.length + a.length := by simp; omega
        rw [e1, e2, ← ha]
        have r1 : q ++ (a ++ c) ++ [t] = q ++ a ++ (c ++ [t]) := by simp
        have r2 : p ++ a ++ c ++ [t] = p ++ a ++ (c ++ [t]) := by simp
        rw [r1, r2, take_drop_window, take_drop_window]

theorem decodeString_local : LocalDec decodeString := by
  intro q p s v hs h
  obtain ⟨body, t, rfl⟩ := exists_snoc s hs
  rw [← List.append_assoc] at h ⊢
  unfold decodeString at h ⊢
  simp only [snoc_length_ne, ↓reduceIte, decodeType_snoc, take_len_sub_one_snoc] at h ⊢
  by_cases c1 : t ≠ tString
  · simp [c1] at h
  · simp only [c1, ↓reduceIte] at h ⊢
    have hS := decodeSize_bound (q ++ body)
    generalize hd : decodeSize (q ++ body) = r at h hS
    obtain ⟨ds, m⟩ := r
    simp only at h hS
    by_cases c2 : m < 0
    · simp [c2] at h
    · simp only [c2, ↓reduceIte] at h
      by_cases c5 : (q ++ body ++ [t]).length - 1 < m.toNat + 1
      · rw [if_pos c5] at h; simp at h
      · rw [if_neg c5] at h
        by_cases c3 : (q ++ body ++ [t]).length - 1 - (m.toNat + 1) < ds
        · rw [if_pos c3] at h; simp at h
        · simp only [c3, ↓reduceIte, Res.ok.injEq, Prod.mk.injEq] at h
          obtain ⟨hv, hn⟩ := h
          simp only [List.length_append, List.length_singleton] at hn c3 c5 hS
          have hm : m.toNat + 1 + ds = body.length := by omega
          obtain ⟨a0, c, hac, hc⟩ := split_at_end body m.toNat (by omega)
          subst hac
          have hcne : c ≠ [] := by intro h0; subst h0; simp at hc; omega
          have hdq : decodeSize ((q ++ a0) ++ c) = (ds, m) := by rw [List.append_assoc]; exact hd
          have key : (decodeSize ((q ++ a0) ++ c)).2 = c.length := by rw [hdq]; simp; omega
          have hdp : decodeSize ((p ++ a0) ++ c) = (ds, m) := by
            rw [decodeSize_prefix (q ++ a0) (p ++ a0) c hcne key, hdq]
          rw [← List.append_assoc p a0 c, hdp]
          simp only [c2, ↓reduceIte]
          have ha0 : a0.length = ds + 1 := by simp at hm; omega
          obtain ⟨a, z, haz, hz⟩ := split_at_end a0 1 (by omega)
          subst haz
          have ha : a.length = ds := by simp at ha0; omega
          have c6 : ¬ (p ++ (a ++ z) ++ c ++ [t]).length - 1 < m.toNat + 1 := by simp; omega
          have c4 : ¬ (p ++ (a ++ z) ++ c ++ [t]).length - 1 - (m.toNat + 1) < ds := by simp; omega
          simp only [c6, c4, ↓reduceIte, Res.ok.injEq, Prod.mk.injEq]
          refine ⟨?_, by simp at hn ⊢; omega⟩
          rw [← hv]
          have e1 : (q ++ (a ++ z ++ c) ++ [t]).length - 1 - (m.toNat + 1) = q.length + a.length := by simp; omega
          have e2 : (p ++ (a ++ z) ++ c ++ [t]).length - 1 - (m.toNat + 1) = p.length + a.length := by simp; omega
          rw [e1, e2, ← ha]
          have r1 : q ++ (a ++ z ++ c) ++ [t] = q ++ a ++ (z ++ c ++ [t]) := by simp
          have r2 : p ++ (a ++ z) ++ c ++ [t] = p ++ a ++ (z ++ c ++ [t]) := by simp
          rw [r1, r2, take_drop_window, take_drop_window]

theorem decodeStruct_local : LocalDec decodeStruct := by
  intro q p s v hs h
  obtain ⟨body, t, rfl⟩ := exists_snoc s hs
  rw [← List.append_assoc] at h ⊢
  unfold decodeStruct at h ⊢
  simp only [snoc_length_ne, ↓reduceIte, decodeType_snoc, take_len_sub_one_snoc] at h ⊢
  by_cases c1 : t ≠ tStruct
  · simp [c1] at h
  · simp only [c1, ↓reduceIte] at h ⊢
    have hS := decodeSize_bound (q ++ body)
    generalize hd : decodeSize (q ++ body) = r at h hS
    obtain ⟨ds, m⟩ := r
    simp only at h hS
    by_cases c2 : m < 0
    · simp [c2] at h
    · simp only [c2, ↓reduceIte] at h
      by_cases c3 : (q ++ body ++ [t]).length < 1 + m.toNat + ds
      · rw [if_pos c3] at h; simp at h
      · simp only [c3, ↓reduceIte, Res.ok.injEq, Prod.mk.injEq] at h
        obtain ⟨hv, hn⟩ := h
        simp only [List.length_append, List.length_singleton] at hn c3 hS
        obtain ⟨a, c, hac, hc⟩ := split_at_end body m.toNat (by omega)
        subst hac
        have hcne : c ≠ [] := by intro h0; subst h0; simp at hc; omega
        have hdq : decodeSize ((q ++ a) ++ c) = (ds, m) := by rw [List.append_assoc]; exact hd
        have key : (decodeSize ((q ++ a) ++ c)).2 = c.length := by rw [hdq]; simp; omega
        have hdp : decodeSize ((p ++ a) ++ c) = (ds, m) := by
          rw [decodeSize_prefix (q ++ a) (p ++ a) c hcne key, hdq]
        rw [← List.append_assoc p a c, hdp]
        simp only [c2, ↓reduceIte]
        have c4 : ¬ (p ++ a ++ c ++ [t]).length < 1 + m.toNat + ds := by simp at hn ⊢; omega
        simp only [c4, ↓reduceIte, Res.ok.injEq, Prod.mk.injEq]
        exact ⟨hv, by simp at hn ⊢; omega⟩

theorem decodeTable_local (small big : UInt8) (esS esB : Nat) :
    LocalDec (decodeTable small big esS esB) := by
  intro q p s v hs h
  obtain ⟨body, t, rfl⟩ := exists_snoc s hs
  rw [← List.append_assoc] at h ⊢
  unfold decodeTable at h ⊢
  simp only [snoc_length_ne, ↓reduceIte, decodeType_snoc, take_len_sub_one_snoc] at h ⊢
  by_cases c0 : t ≠ small ∧ t ≠ big
  · simp [c0] at h
  · simp only [c0, ↓reduceIte] at h ⊢
    have hS1 := decodeSize_bound (q ++ body)
    generalize hd1 : decodeSize (q ++ body) = r1 at h hS1
    obtain ⟨ts, m1⟩ := r1
    simp only at h hS1
    by_cases c1 : m1 < 0
    · simp [c1] at h
    · simp only [c1, ↓reduceIte] at h
      simp only [List.length_append, List.length_singleton, Nat.add_sub_cancel] at h hS1
      have hS2 := decodeSize_bound (List.take (q.length + body.length - m1.toNat) (q ++ body ++ [t]))
      generalize hd2 : decodeSize (List.take (q.length + body.length - m1.toNat) (q ++ body ++ [t])) = r2 at h hS2
      obtain ⟨ds, m2⟩ := r2
      simp only at h hS2
      by_cases c2 : m2 < 0
      · simp [c2] at h
      · simp only [c2, ↓reduceIte] at h
        simp only [List.length_take, List.length_append, List.length_singleton] at hS2
        by_cases c3 : q.length + body.length - m1.toNat - m2.toNat < ts
        · rw [if_pos c3] at h; simp at h
        · rw [if_neg c3] at h
          by_cases c4 : ts % (if (t == big) = true then esB else esS) ≠ 0
          · rw [if_pos c4] at h; simp at h
          · rw [if_neg c4] at h
            by_cases c5 : q.length + body.length - m1.toNat - m2.toNat < ts + ds
            · rw [if_pos c5] at h; simp at h
            · rw [if_neg c5] at h
              simp only [Res.ok.injEq, Prod.mk.injEq] at h
              obtain ⟨hv, hn⟩ := h
              -- now the sizes are known: split `body` into data+table, data-size varint, table-size varint
              obtain ⟨b1, v1, hb1, hv1⟩ := split_at_end body m1.toNat (by omega)
              subst hb1
              have hv1ne : v1 ≠ [] := by intro h0; subst h0; simp at hv1; omega
              have e1 : List.take (q.length + (b1 ++ v1).length - m1.toNat) (q ++ (b1 ++ v1) ++ [t]) = q ++ b1 := by
                have : q ++ (b1 ++ v1) ++ [t] = (q ++ b1) ++ (v1 ++ [t]) := by simp
                rw [this]; apply List.take_left'; simp; omega
              rw [e1] at hd2
              simp only [List.length_append] at hn hS2 c3 c5 hv hS1
              obtain ⟨b2, v2, hb2, hv2⟩ := split_at_end b1 m2.toNat (by omega)
              subst hb2
              have hv2ne : v2 ≠ [] := by intro h0; subst h0; simp at hv2; omega
              simp only [List.length_append] at hn hS2 c3 c5 hv
              have hb2 : b2.length = ts + ds := by omega
              have k1 : (decodeSize ((q ++ (b2 ++ v2)) ++ v1)).2 = v1.length := by
                have : (q ++ (b2 ++ v2)) ++ v1 = q ++ (b2 ++ v2 ++ v1) := by simp
                rw [this, hd1]; simp; omega
              have hp1 : decodeSize (p ++ (b2 ++ v2 ++ v1)) = (ts, m1) := by
                have e : p ++ (b2 ++ v2 ++ v1) = (p ++ (b2 ++ v2)) ++ v1 := by simp
                rw [e, decodeSize_prefix (q ++ (b2 ++ v2)) (p ++ (b2 ++ v2)) v1 hv1ne k1]
                have : (q ++ (b2 ++ v2)) ++ v1 = q ++ (b2 ++ v2 ++ v1) := by simp
                rw [this, hd1]
              have k2 : (decodeSize ((q ++ b2) ++ v2)).2 = v2.length := by
                have : (q ++ b2) ++ v2 = q ++ (b2 ++ v2) := by simp
                rw [this, hd2]; simp; omega
              have hp2 : decodeSize (p ++ (b2 ++ v2)) = (ds, m2) := by
                have e : p ++ (b2 ++ v2) = (p ++ b2) ++ v2 := by simp
                rw [e, decodeSize_prefix (q ++ b2) (p ++ b2) v2 hv2ne k2]
                have : (q ++ b2) ++ v2 = q ++ (b2 ++ v2) := by simp
                rw [this, hd2]
              rw [hp1]
              simp only [c1, ↓reduceIte, List.length_append, List.length_singleton, Nat.add_sub_cancel]
              have e1p : List.take (p.length + (b2.length + v2.length + v1.length) - m1.toNat) (p ++ (b2 ++ v2 ++ v1) ++ [t]) = p ++ (b2 ++ v2) := by
                have : p ++ (b2 ++ v2 ++ v1) ++ [t] = (p ++ (b2 ++ v2)) ++ (v1 ++ [t]) := by simp
                rw [this]; apply List.take_left'; simp; omega
              rw [e1p, hp2]
              simp only [c2, ↓reduceIte]
              have hE2 : p.length + (b2.length + v2.length + v1.length) - m1.toNat - m2.toNat = p.length + b2.length := by omega
              have hE1 : q.length + (b2.length + v2.length + v1.length) - m1.toNat - m2.toNat = q.length + b2.length := by omega
              rw [hE2]
              rw [hE1] at hv
              have c3' : ¬ p.length + b2.length < ts := by omega
              have c5' : ¬ p.length + b2.length < ts + ds := by omega
              rw [if_neg c3', if_neg c4, if_neg c5']
              simp only [Res.ok.injEq, Prod.mk.injEq]
              refine ⟨?_, by omega⟩
              rw [← hv]
              congr 1
              obtain ⟨d0, tb, hd0, htb⟩ := split_at_end b2 ts (by omega)
              subst hd0
              have w1 : List.take (q.length + (d0 ++ tb).length) (q ++ (d0 ++ tb ++ v2 ++ v1) ++ [t]) = q ++ (d0 ++ tb) := by
                have : q ++ (d0 ++ tb ++ v2 ++ v1) ++ [t] = (q ++ (d0 ++ tb)) ++ (v2 ++ v1 ++ [t]) := by simp
                rw [this]; apply List.take_left'; simp
              have w2 : List.take (p.length + (d0 ++ tb).length) (p ++ (d0 ++ tb ++ v2 ++ v1) ++ [t]) = p ++ (d0 ++ tb) := by
                have : p ++ (d0 ++ tb ++ v2 ++ v1) ++ [t] = (p ++ (d0 ++ tb)) ++ (v2 ++ v1 ++ [t]) := by simp
                rw [this]; apply List.take_left'; simp
              rw [w1, w2]
              have x1 : q ++ (d0 ++ tb) = (q ++ d0) ++ tb := by simp
              have x2 : p ++ (d0 ++ tb) = (p ++ d0) ++ tb := by simp
              rw [x1, x2, List.drop_left' (by simp; omega), List.drop_left' (by simp; omega)]

end SpecVerif
