/-
Lemmas for the parser round trip: every parser function, run on the canonical tokens of a
well-formed subtree followed by arbitrary further tokens, returns that subtree and leaves exactly
the further tokens.
-/
import SpecVerif.Lang.Parser
namespace SpecVerif.Lang

/-! ### well-formedness: what the lexer can produce -/

/-- the text of an IDENT token: any string that is not a keyword -/
def IdName (s : String) : Prop := kwOf s = none

/-- a field / method / enum value name: an IDENT or one of the contextual keywords -/
def FName (s : String) : Prop := kwOf s = none ∨ ∃ k, kwOf s = some k ∧ k.isName = true

def BaseT.WF : BaseT → Prop
  | .name n => IdName n
  | .ref i n => IdName i ∧ IdName n
  | .any => True
  | .anyMessage => True

def Ty.WF : Ty → Prop
  | .base b => b.WF
  | .list b => b.WF

def Field.WF (f : Field) : Prop := FName f.name ∧ f.ty.WF
def SField.WF (f : SField) : Prop := FName f.name ∧ f.ty.WF
def EnumValue.WF (v : EnumValue) : Prop := FName v.name

def MInput.WF : MInput → Prop
  | .type b => b.WF
  | .fields fs => ∀ f ∈ fs, f.WF

def MOutput.WF : MOutput → Prop
  | .type b => b.WF
  | .fields fs => ∀ f ∈ fs, f.WF

def MChan.WF : MChan → Prop
  | .in_ t => t.WF
  | .out t => t.WF
  | .both i o => i.WF ∧ o.WF

def MTail.WF : MTail → Prop
  | .none => True
  | .oneway => True
  | .out o => o.WF
  | .chan c Option.none => c.WF
  | .chan c (Option.some o) => c.WF ∧ o.WF

def Method.WF (m : Method) : Prop := FName m.name ∧ m.input.WF ∧ m.tail.WF

def Def.WF : Def → Prop
  | .enum n vs => IdName n ∧ ∀ v ∈ vs, v.WF
  | .message n fs => IdName n ∧ ∀ f ∈ fs, f.WF
  | .struct n fs => IdName n ∧ ∀ f ∈ fs, f.WF
  | .service _ n ms => IdName n ∧ ∀ m ∈ ms, m.WF

def Import.WF (i : Import) : Prop := i.alias = "" ∨ IdName i.alias
def Opt.WF (o : Opt) : Prop := IdName o.name

def File.WF (f : File) : Prop :=
  (∀ i ∈ f.imports, i.WF) ∧ (∀ o ∈ f.options, o.WF) ∧ (∀ d ∈ f.defs, d.WF)

/-! ### tokens -/

theorem kwOf_text {s : String} {k : Kw} (h : kwOf s = some k) : k.text = s := by
  unfold kwOf at h
  have := List.find?_some h
  simpa using this

/-- the next token is not the punctuation `c` -/
def NotP (c : Char) : List Tok → Prop
  | .p d :: _ => d ≠ c
  | _ => True

@[simp] theorem expect_cons_self (c : Char) (r : List Tok) : expect c (.p c :: r) = some r := by
  simp [expect]

theorem expect_notP {c : Char} {r : List Tok} (h : NotP c r) : expect c r = none := by
  unfold expect
  split
  · rename_i d r'
    simp only [NotP] at h
    simp [h]
  · rfl

theorem fieldName_nameTok {s : String} (h : FName s) (r : List Tok) :
    fieldName (nameTok s :: r) = some (s, r) := by
  unfold nameTok
  rcases h with h | ⟨k, hk, hn⟩
  · simp [h, fieldName]
  · simp [hk, fieldName, hn, kwOf_text hk]

/-- the first token of a name is never punctuation -/
theorem nameTok_not_p (s : String) (c : Char) : nameTok s ≠ .p c := by
  unfold nameTok; split <;> simp

theorem baseType_toks (b : BaseT) (hb : b.WF) (r : List Tok) (hr : NotP '.' r) :
    baseType (b.toks ++ r) = some (b, r) := by
  cases b with
  | name n => simp [BaseT.toks, baseType, expect_notP hr]
  | ref i n => simp [BaseT.toks, baseType, identP]
  | any => simp [BaseT.toks, baseType]
  | anyMessage => simp [BaseT.toks, baseType]

/-- a base type starts with an identifier or keyword token -/
theorem baseT_toks_head (b : BaseT) : ∃ t rest, b.toks = t :: rest ∧ ∀ c, t ≠ .p c := by
  cases b <;> simp [BaseT.toks]

theorem type_toks (t : Ty) (ht : t.WF) (r : List Tok) (hr : NotP '.' r) :
    type_ (t.toks ++ r) = some (t, r) := by
  cases t with
  | base b =>
    obtain ⟨h, rest, e, hp⟩ := baseT_toks_head b
    have hb := baseType_toks b ht r hr
    simp only [Ty.toks, type_]
    have : expect '[' (b.toks ++ r) = none := by
      rw [e]; simp only [List.cons_append]
      cases h <;> simp_all [expect]
    simp [this, hb]
  | list b =>
    have hb := baseType_toks b ht r hr
    simp [Ty.toks, type_, hb]

/-- a type starts with an identifier, a keyword or '[' -/
theorem ty_toks_head (t : Ty) : ∃ h rest, t.toks = h :: rest ∧ (∀ c, h = .p c → c = '[') := by
  cases t with
  | base b =>
    obtain ⟨h, rest, e, hp⟩ := baseT_toks_head b
    exact ⟨h, rest, by simp [Ty.toks, e], fun c hc => absurd hc (hp c)⟩
  | list b => exact ⟨.p '[', .p ']' :: b.toks, by simp [Ty.toks], fun c hc => by cases hc; rfl⟩

theorem field_toks (f : Field) (hf : f.WF) (r : List Tok) : field (f.toks ++ r) = some (f, r) := by
  obtain ⟨hn, ht⟩ := hf
  simp only [Field.toks, List.append_assoc, List.cons_append, List.nil_append, field]
  rw [fieldName_nameTok hn]
  simp only [Option.bind_some]
  rw [type_toks f.ty ht (.int f.tag :: r) (by simp [NotP])]
  simp [int_]

/-! ### separated lists -/

theorem sepToks_cons (sep : Tok) (x : List Tok) (xs : List (List Tok)) :
    sepToks sep (x :: xs) = x ++ (xs.map fun y => sep :: y).flatten := by
  induction xs generalizing x with
  | nil => simp [sepToks]
  | cons y ys ih =>
    simp only [sepToks, List.map_cons, List.flatten_cons]
    rw [ih y]
    simp

/-- `field` fails on a punctuation token -/
theorem field_p (c : Char) (r : List Tok) : field (.p c :: r) = none := by
  simp [field, fieldName]

theorem fieldsRest_toks (sep : Char) (fs : List Field) (hfs : ∀ f ∈ fs, f.WF) (r : List Tok)
    (hr : NotP sep r) (fuel : Nat) (hfuel : fs.length < fuel) :
    fieldsRest sep fuel ((fs.map fun f => Tok.p sep :: f.toks).flatten ++ r) = some (fs, r) := by
  induction fs generalizing fuel with
  | nil =>
    cases fuel with
    | zero => omega
    | succ fuel => simp [fieldsRest, expect_notP hr]
  | cons f fs ih =>
    cases fuel with
    | zero => omega
    | succ fuel =>
      simp only [List.map_cons, List.flatten_cons, List.cons_append, List.append_assoc, fieldsRest,
        expect_cons_self]
      rw [field_toks f (hfs f (by simp))]
      simp only
      rw [ih (fun g hg => hfs g (by simp [hg])) fuel (by simpa using hfuel)]
      rfl

theorem fields_toks (sep : Char) (fs : List Field) (hfs : ∀ f ∈ fs, f.WF) (c : Char) (hc : c ≠ sep)
    (r : List Tok) (fuel : Nat) (hfuel : fs.length < fuel) :
    fields sep fuel (fieldsToks sep fs ++ .p c :: r) = some (fs, .p c :: r) := by
  have hr : NotP sep (.p c :: r) := by simpa [NotP] using hc
  cases fs with
  | nil =>
    have := fieldsRest_toks sep [] (by simp) (.p c :: r) hr fuel hfuel
    simp only [List.map_nil, List.flatten_nil, List.nil_append] at this
    simp [fields, fieldsToks, sepToks, field_p, this]
  | cons f fs =>
    simp only [fields, fieldsToks, List.map_cons, sepToks_cons, List.append_assoc]
    rw [field_toks f (hfs f (by simp))]
    simp only
    have := fieldsRest_toks sep fs (fun g hg => hfs g (by simp [hg])) (.p c :: r) hr fuel
      (by simp at hfuel; omega)
    simp only [List.map_map] at this ⊢
    have e : (fs.map ((fun y => Tok.p sep :: y) ∘ Field.toks)) = fs.map fun f => Tok.p sep :: f.toks := rfl
    rw [e, this]
    rfl

/-! ### repetition -/

theorem many_toks {α : Type} (p : P α) (pr : α → List Tok) (xs : List α) (r : List Tok)
    (hp : ∀ x ∈ xs, ∀ r', p (pr x ++ r') = some (x, r')) (hr : p r = none)
    (fuel : Nat) (hfuel : xs.length < fuel) :
    many p fuel ((xs.map pr).flatten ++ r) = some (xs, r) := by
  induction xs generalizing fuel with
  | nil =>
    cases fuel with
    | zero => omega
    | succ fuel => simp [many, hr]
  | cons x xs ih =>
    cases fuel with
    | zero => omega
    | succ fuel =>
      simp only [List.map_cons, List.flatten_cons, List.append_assoc, many]
      rw [hp x (by simp)]
      simp only
      rw [ih (fun y hy => hp y (by simp [hy])) fuel (by simpa using hfuel)]
      rfl

/-! ### elements -/

theorem enumValue_toks (v : EnumValue) (hv : v.WF) (r : List Tok) : enumValue (v.toks ++ r) = some (v, r) := by
  simp only [EnumValue.toks, List.cons_append, List.nil_append, enumValue]
  rw [fieldName_nameTok hv]
  simp [int_]

theorem sfield_toks (f : SField) (hf : f.WF) (r : List Tok) : sfield (f.toks ++ r) = some (f, r) := by
  obtain ⟨hn, ht⟩ := hf
  simp only [SField.toks, List.append_assoc, List.cons_append, List.nil_append, sfield]
  rw [fieldName_nameTok hn]
  simp only [Option.bind_some]
  rw [type_toks f.ty ht (.p ';' :: r) (by simp [NotP])]
  simp

theorem fieldName_p (c : Char) (r : List Tok) : fieldName (.p c :: r) = none := by simp [fieldName]

theorem importP_toks (i : Import) (hi : i.WF) (r : List Tok) : importP (i.toks ++ r) = some (i, r) := by
  unfold Import.toks
  split
  · rename_i h
    obtain ⟨a, id⟩ := i
    simp only at h
    subst h
    simp [importP, strP]
  · rename_i h
    simp [importP, strP, identP]

theorem optP_toks (o : Opt) (r : List Tok) : optP (o.toks ++ r) = some (o, r) := by
  simp [Opt.toks, optP, identP, strP]

/-! ### methods -/

/-- the tokens of a field list followed by a closing token: either just the closer, or a name
followed by the first token of a type -/
theorem fields_head (sep : Char) (fs : List Field) (c : Char) (rest : List Tok) :
    fieldsToks sep fs ++ .p c :: rest = .p c :: rest ∨
    ∃ n u tl, fieldsToks sep fs ++ .p c :: rest = nameTok n :: u :: tl ∧ (∀ d, u = .p d → d = '[') := by
  cases fs with
  | nil => left; simp [fieldsToks, sepToks]
  | cons f fs =>
    right
    obtain ⟨h, tl, e, hp⟩ := ty_toks_head f.ty
    refine ⟨f.name, h, tl ++ [.int f.tag] ++ ((fs.map Field.toks).map fun y => Tok.p sep :: y).flatten ++ .p c :: rest, ?_, hp⟩
    simp [fieldsToks, sepToks_cons, Field.toks, e]

/-- on a name followed by the start of a type, `baseType` consumes at most the name -/
theorem baseType_name_next (n : String) (u : Tok) (tl : List Tok) (hu : ∀ d, u = .p d → d = '[') :
    baseType (nameTok n :: u :: tl) = none ∨ ∃ b, baseType (nameTok n :: u :: tl) = some (b, u :: tl) := by
  have hd : expect '.' (u :: tl) = none := by
    cases u with
    | p d => have := hu d rfl; subst this; simp [expect]
    | _ => simp [expect]
  unfold nameTok
  split
  · rename_i k _
    simp only [baseType]
    split
    · exact Or.inr ⟨_, rfl⟩
    · split
      · exact Or.inr ⟨_, rfl⟩
      · exact Or.inl rfl
  · simp [baseType, hd]

theorem expect_typeStart (c : Char) (hc : c ≠ '[') (u : Tok) (tl : List Tok) (hu : ∀ d, u = .p d → d = '[') :
    expect c (u :: tl) = none := by
  cases u with
  | p d => have := hu d rfl; subst this; simp [expect]; exact fun h => hc h.symm
  | _ => simp [expect]

theorem parenFields_toks (fs : List Field) (hfs : ∀ f ∈ fs, f.WF) (r : List Tok) (fuel : Nat)
    (hfuel : fs.length < fuel) :
    parenFields fuel (.p '(' :: (fieldsToks ',' fs ++ .p ')' :: r)) = some (fs, r) := by
  simp only [parenFields, expect_cons_self, Option.bind_some]
  rw [fields_toks ',' fs hfs ')' (by decide) r fuel hfuel]
  simp

theorem parenBase_toks (b : BaseT) (hb : b.WF) (r : List Tok) :
    parenBase (.p '(' :: (b.toks ++ .p ')' :: r)) = some (b, r) := by
  simp only [parenBase, expect_cons_self, Option.bind_some]
  rw [baseType_toks b hb _ (by simp [NotP])]
  simp

/-- a parenthesised field list is not a parenthesised base type -/
theorem parenBase_fields (fs : List Field) (r : List Tok) :
    parenBase (.p '(' :: (fieldsToks ',' fs ++ .p ')' :: r)) = none := by
  simp only [parenBase, expect_cons_self, Option.bind_some]
  rcases fields_head ',' fs ')' r with e | ⟨n, u, tl, e, hu⟩
  · rw [e]; simp [baseType]
  · rw [e]
    rcases baseType_name_next n u tl hu with h | ⟨b, h⟩
    · simp [h]
    · simp [h, expect_typeStart ')' (by decide) u tl hu]

theorem mInput_toks (i : MInput) (hi : i.WF) (r : List Tok) (fuel : Nat)
    (hfuel : ∀ fs, i = .fields fs → fs.length < fuel) :
    mInput fuel (i.toks ++ r) = some (i, r) := by
  cases i with
  | type b =>
    simp only [MInput.toks, List.append_assoc, List.cons_append, List.nil_append, mInput]
    rw [parenBase_toks b hi]
  | fields fs =>
    simp only [MInput.toks, List.append_assoc, List.cons_append, List.nil_append, mInput]
    rw [parenBase_fields, parenFields_toks fs hi r fuel (hfuel fs rfl)]
    rfl

theorem mOutput_toks (o : MOutput) (ho : o.WF) (r : List Tok) (hr : NotP '.' r) (fuel : Nat)
    (hfuel : ∀ fs, o = .fields fs → fs.length < fuel) :
    mOutput fuel (o.toks ++ r) = some (o, r) := by
  cases o with
  | type b =>
    obtain ⟨h, rest, e, hp⟩ := baseT_toks_head b
    have hx : expect '(' (b.toks ++ r) = none := by
      rw [e]; simp only [List.cons_append]
      cases h <;> simp_all [expect]
    simp only [MOutput.toks, mOutput, hx]
    rw [baseType_toks b ho r hr]
    rfl
  | fields fs =>
    simp only [MOutput.toks, List.append_assoc, List.cons_append, List.nil_append, mOutput, expect_cons_self]
    rw [parenFields_toks fs ho r fuel (hfuel fs rfl)]
    rfl

theorem chanInP_toks (t : Ty) (ht : t.WF) (r : List Tok) (hr : NotP '.' r) :
    chanInP (chanIn t ++ r) = some (t, r) := by
  simp only [chanIn, List.append_assoc, List.cons_append, List.nil_append, chanInP, expect_cons_self,
    Option.bind_some]
  exact type_toks t ht r hr

theorem chanOutP_toks (t : Ty) (ht : t.WF) (r : List Tok) :
    chanOutP (chanOut t ++ r) = some (t, r) := by
  simp only [chanOut, List.append_assoc, List.cons_append, List.nil_append, chanOutP]
  rw [type_toks t ht _ (by simp [NotP])]
  simp

/-- a type does not start with '<' -/
theorem chanInP_typeStart (u : Tok) (tl : List Tok) (hu : ∀ d, u = .p d → d = '[') : chanInP (u :: tl) = none := by
  simp [chanInP, expect_typeStart '<' (by decide) u tl hu]

theorem mChan_toks (c : MChan) (hc : c.WF) (r : List Tok) : mChan (c.toks ++ r) = some (c, r) := by
  cases c with
  | in_ t =>
    simp only [MChan.toks, List.append_assoc, List.cons_append, List.nil_append, mChan, expect_cons_self,
      Option.bind_some]
    rw [chanInP_toks t hc _ (by simp [NotP])]
    simp [expect]
  | out t =>
    obtain ⟨h, tl, e, hp⟩ := ty_toks_head t
    simp only [MChan.toks, List.append_assoc, List.cons_append, List.nil_append, mChan, expect_cons_self,
      Option.bind_some]
    have h1 : chanInP (chanOut t ++ .p ')' :: r) = none := by
      simp only [chanOut, e, List.cons_append, List.append_assoc]
      exact chanInP_typeStart h _ hp
    rw [h1]
    simp only
    rw [chanOutP_toks t hc]
    simp
  | both i o =>
    simp only [MChan.toks, List.append_assoc, List.cons_append, List.nil_append, mChan, expect_cons_self,
      Option.bind_some]
    rw [chanInP_toks i hc.1 _ (by simp [NotP])]
    simp only [expect_cons_self]
    rw [chanOutP_toks o hc.2]
    simp

/-- a parenthesised field list is not a channel -/
theorem mChan_fields (fs : List Field) (r : List Tok) :
    mChan (.p '(' :: (fieldsToks ',' fs ++ .p ')' :: r)) = none := by
  simp only [mChan, expect_cons_self, Option.bind_some]
  rcases fields_head ',' fs ')' r with e | ⟨n, u, tl, e, hu⟩
  · rw [e]; simp [chanInP, chanOutP, type_, expect, baseType]
  · rw [e]
    have h1 : chanInP (nameTok n :: u :: tl) = none := by
      unfold nameTok; split <;> simp [chanInP, expect]
    have h2 : chanOutP (nameTok n :: u :: tl) = none := by
      have hb : expect '[' (nameTok n :: u :: tl) = none := by
        unfold nameTok; split <;> simp [expect]
      simp only [chanOutP, type_, hb, Option.bind_none]
      rcases baseType_name_next n u tl hu with h | ⟨b, h⟩
      · simp [h]
      · simp [h, expect_typeStart '-' (by decide) u tl hu]
    simp [h1, h2]

/-- the first token of an output is not ';', not the keyword `oneway` -/
theorem mOutput_head (o : MOutput) (ho : o.WF) :
    ∃ h tl, o.toks = h :: tl ∧ h ≠ .p ';' ∧ h ≠ .kw .oneway ∧ (h = .p '(' ↔ ∃ fs, o = .fields fs) := by
  cases o with
  | type b =>
    cases b with
    | name n =>
      refine ⟨.ident n, [], by simp [MOutput.toks, BaseT.toks], by simp, by simp, ?_⟩
      constructor
      · intro h; cases h
      · rintro ⟨fs, h⟩; cases h
    | ref i n =>
      refine ⟨.ident i, [.p '.', .ident n], by simp [MOutput.toks, BaseT.toks], by simp, by simp, ?_⟩
      constructor
      · intro h; cases h
      · rintro ⟨fs, h⟩; cases h
    | any =>
      refine ⟨.kw .any, [], by simp [MOutput.toks, BaseT.toks], by simp, by simp, ?_⟩
      constructor
      · intro h; cases h
      · rintro ⟨fs, h⟩; cases h
    | anyMessage =>
      refine ⟨.kw .message, [], by simp [MOutput.toks, BaseT.toks], by simp, by simp, ?_⟩
      constructor
      · intro h; cases h
      · rintro ⟨fs, h⟩; cases h
  | fields fs =>
    exact ⟨.p '(', fieldsToks ',' fs ++ [.p ')'], by simp [MOutput.toks], by simp, by simp, ⟨fun _ => ⟨fs, rfl⟩, fun _ => rfl⟩⟩

theorem mTail_toks (t : MTail) (ht : t.WF) (r : List Tok) (fuel : Nat)
    (hfuel : ∀ c o fs, (t = .out (.fields fs) ∨ t = .chan c (some (.fields fs))) → o = fs → fs.length < fuel) :
    mTail fuel (t.toks ++ .p ';' :: r) = some (t, r) := by
  cases t with
  | none => simp [MTail.toks, mTail]
  | oneway => simp [MTail.toks, mTail, expect]
  | out o =>
    obtain ⟨h, tl, e, h1, h2, h3⟩ := mOutput_head o ht
    have hs : expect ';' (o.toks ++ .p ';' :: r) = none := by
      rw [e]; simp only [List.cons_append]
      cases h <;> simp_all [expect]
    have hc : mChan (o.toks ++ .p ';' :: r) = none := by
      cases o with
      | type b =>
        have hx : expect '(' (h :: (tl ++ .p ';' :: r)) = none := by
          cases h with
          | p d =>
            have : ¬ (Tok.p d = .p '(') := fun hh => by
              obtain ⟨fs, hfs⟩ := h3.1 hh; cases hfs
            simp [expect]; intro hd; subst hd; exact this rfl
          | _ => simp [expect]
        rw [e]; simp only [List.cons_append, mChan, hx, Option.bind_none]
      | fields fs =>
        simp only [MOutput.toks, List.append_assoc, List.cons_append, List.nil_append]
        exact mChan_fields fs _
    have ho := mOutput_toks o ht (.p ';' :: r) (by simp [NotP]) fuel
      (fun fs hfs => hfuel (.in_ (.base .any)) fs fs (Or.inl (by rw [hfs])) rfl)
    simp only [MTail.toks, mTail, hs]
    have hk : ∀ r', o.toks ++ .p ';' :: r ≠ .kw .oneway :: r' := by
      intro r' hh; rw [e] at hh; simp only [List.cons_append] at hh
      exact h2 (List.cons.inj hh).1
    split
    · rename_i r' heq; exact absurd heq (hk r')
    · simp [hc, ho]
  | chan c o =>
    cases o with
    | none =>
      have hm := mChan_toks c ht (.p ';' :: r)
      have hs : expect ';' (c.toks ++ .p ';' :: r) = none := by cases c <;> simp [MChan.toks, expect]
      simp only [MTail.toks, mTail, hs]
      split
      · rename_i r' heq; cases c <;> simp [MChan.toks] at heq
      · simp [hm]
    | some o =>
      obtain ⟨h, tl, e, h1, h2, h3⟩ := mOutput_head o ht.2
      have hm := mChan_toks c ht.1 (o.toks ++ .p ';' :: r)
      have hs : expect ';' (c.toks ++ (o.toks ++ .p ';' :: r)) = none := by cases c <;> simp [MChan.toks, expect]
      have hs2 : expect ';' (o.toks ++ .p ';' :: r) = none := by
        rw [e]; simp only [List.cons_append]
        cases h <;> simp_all [expect]
      have ho := mOutput_toks o ht.2 (.p ';' :: r) (by simp [NotP]) fuel
        (fun fs hfs => hfuel c fs fs (Or.inr (by rw [hfs])) rfl)
      simp only [MTail.toks, List.append_assoc, mTail, hs]
      split
      · rename_i r' heq; cases c <;> simp [MChan.toks] at heq
      · simp [hm, hs2, ho]

/-! ### fuel: element counts are bounded by token counts -/

theorem flatten_length_ge {α : Type} (pr : α → List Tok) (xs : List α) (h : ∀ x ∈ xs, 1 ≤ (pr x).length) :
    xs.length ≤ ((xs.map pr).flatten).length := by
  induction xs with
  | nil => simp
  | cons x xs ih =>
    have := h x (by simp)
    have := ih (fun y hy => h y (by simp [hy]))
    simp only [List.map_cons, List.flatten_cons, List.length_cons, List.length_append]
    omega

theorem flatten_length_mem {α : Type} (pr : α → List Tok) (xs : List α) (x : α) (hx : x ∈ xs) :
    (pr x).length ≤ ((xs.map pr).flatten).length := by
  induction xs with
  | nil => cases hx
  | cons y ys ih =>
    simp only [List.map_cons, List.flatten_cons, List.length_append]
    rcases List.mem_cons.mp hx with h | h
    · subst h; omega
    · have := ih h; omega

theorem fieldsToks_length (sep : Char) (fs : List Field) : fs.length ≤ (fieldsToks sep fs).length := by
  cases fs with
  | nil => simp
  | cons f fs =>
    simp only [fieldsToks, List.map_cons, sepToks_cons, List.length_append, List.length_cons]
    have h1 : 1 ≤ f.toks.length := by simp [Field.toks]
    have h2 := flatten_length_ge (fun y : List Tok => Tok.p sep :: y) (fs.map Field.toks) (by simp)
    simp only [List.length_map] at h2
    omega

theorem mInput_toks' (i : MInput) (hi : i.WF) (r : List Tok) (fuel : Nat) (hfuel : i.toks.length < fuel) :
    mInput fuel (i.toks ++ r) = some (i, r) := by
  apply mInput_toks i hi r fuel
  intro fs hfs
  subst hfs
  have := fieldsToks_length ',' fs
  simp only [MInput.toks, List.length_append, List.length_cons, List.length_nil] at hfuel
  omega

theorem mOutput_fields_length (fs : List Field) : fs.length ≤ (MOutput.fields fs).toks.length := by
  have := fieldsToks_length ',' fs
  simp only [MOutput.toks, List.length_append, List.length_cons, List.length_nil]
  omega

theorem mTail_toks' (t : MTail) (ht : t.WF) (r : List Tok) (fuel : Nat) (hfuel : t.toks.length < fuel) :
    mTail fuel (t.toks ++ .p ';' :: r) = some (t, r) := by
  apply mTail_toks t ht r fuel
  intro c o fs h ho
  have := mOutput_fields_length fs
  rcases h with h | h
  · subst h
    simp only [MTail.toks] at hfuel
    omega
  · subst h
    simp only [MTail.toks, List.length_append] at hfuel
    omega

theorem method_toks (m : Method) (hm : m.WF) (r : List Tok) (fuel : Nat) (hfuel : m.toks.length < fuel) :
    method fuel (m.toks ++ r) = some (m, r) := by
  obtain ⟨hn, hi, ht⟩ := hm
  simp only [Method.toks, List.length_append, List.length_cons, List.length_nil] at hfuel
  simp only [Method.toks, List.append_assoc, List.cons_append, List.nil_append, method]
  rw [fieldName_nameTok hn]
  simp only [Option.bind_some]
  rw [mInput_toks' m.input hi _ fuel (by omega)]
  simp only [Option.bind_some]
  rw [mTail_toks' m.tail ht r fuel (by omega)]
  rfl

/-! ### definitions -/

theorem many_enum (vs : List EnumValue) (hvs : ∀ v ∈ vs, v.WF) (r : List Tok) (fuel : Nat)
    (hfuel : vs.length < fuel) :
    many enumValue fuel ((vs.map EnumValue.toks).flatten ++ .p '}' :: r) = some (vs, .p '}' :: r) :=
  many_toks enumValue EnumValue.toks vs _ (fun v hv r' => enumValue_toks v (hvs v hv) r')
    (by simp [enumValue, fieldName]) fuel hfuel

theorem many_sfield (fs : List SField) (hfs : ∀ f ∈ fs, f.WF) (r : List Tok) (fuel : Nat)
    (hfuel : fs.length < fuel) :
    many sfield fuel ((fs.map SField.toks).flatten ++ .p '}' :: r) = some (fs, .p '}' :: r) :=
  many_toks sfield SField.toks fs _ (fun f hf r' => sfield_toks f (hfs f hf) r')
    (by simp [sfield, fieldName]) fuel hfuel

theorem many_method (ms : List Method) (hms : ∀ m ∈ ms, m.WF) (r : List Tok) (fuel : Nat)
    (hfuel : ((ms.map Method.toks).flatten).length < fuel) :
    many (method fuel) fuel ((ms.map Method.toks).flatten ++ .p '}' :: r) = some (ms, .p '}' :: r) := by
  apply many_toks (method fuel) Method.toks ms _ _ (by simp [method, fieldName]) fuel
  · have := flatten_length_ge Method.toks ms (by intro m _; simp [Method.toks])
    omega
  · intro m hm r'
    have := flatten_length_mem Method.toks ms m hm
    exact method_toks m (hms m hm) r' fuel (by omega)

theorem definition_toks (d : Def) (hd : d.WF) (r : List Tok) (fuel : Nat) (hfuel : d.toks.length < fuel) :
    definition fuel (d.toks ++ r) = some (d, r) := by
  cases d with
  | enum n vs =>
    obtain ⟨hn, hvs⟩ := hd
    simp only [Def.toks, List.length_append, List.length_cons, List.length_nil] at hfuel
    have h1 := flatten_length_ge EnumValue.toks vs (by intro v _; simp [EnumValue.toks])
    simp only [Def.toks, List.append_assoc, List.cons_append, List.nil_append, definition, identP,
      Option.bind_some, braces, expect_cons_self]
    rw [many_enum vs hvs r fuel (by omega)]
    simp
  | message n fs =>
    obtain ⟨hn, hfs⟩ := hd
    simp only [Def.toks, List.length_append, List.length_cons, List.length_nil] at hfuel
    have h1 := fieldsToks_length ';' fs
    simp only [Def.toks, List.append_assoc, List.cons_append, List.nil_append, definition, identP,
      Option.bind_some, braces, expect_cons_self]
    rw [fields_toks ';' fs hfs '}' (by decide) r fuel (by omega)]
    simp
  | struct n fs =>
    obtain ⟨hn, hfs⟩ := hd
    simp only [Def.toks, List.length_append, List.length_cons, List.length_nil] at hfuel
    have h1 := flatten_length_ge SField.toks fs (by intro v _; simp [SField.toks])
    simp only [Def.toks, List.append_assoc, List.cons_append, List.nil_append, definition, identP,
      Option.bind_some, braces, expect_cons_self]
    rw [many_sfield fs hfs r fuel (by omega)]
    simp
  | service sub n ms =>
    obtain ⟨hn, hms⟩ := hd
    simp only [Def.toks, List.length_append, List.length_cons, List.length_nil] at hfuel
    cases sub
    · simp only [Def.toks, List.append_assoc, List.cons_append, List.nil_append, definition, identP,
        Option.bind_some, braces, expect_cons_self, Bool.false_eq_true, ↓reduceIte]
      rw [many_method ms hms r fuel (by omega)]
      simp
    · simp only [Def.toks, List.append_assoc, List.cons_append, List.nil_append, definition, identP,
        Option.bind_some, braces, expect_cons_self, ↓reduceIte]
      rw [many_method ms hms r fuel (by omega)]
      simp

theorem def_toks_ne_nil (d : Def) : ∃ t tl, d.toks = t :: tl := by
  cases d <;> simp [Def.toks]

theorem definitions_toks (ds : List Def) (hds : ∀ d ∈ ds, d.WF) (fuel k : Nat)
    (hfuel : ((ds.map Def.toks).flatten).length < fuel) (hk : ds.length < k) :
    definitions fuel k ((ds.map Def.toks).flatten) = some ds := by
  induction ds generalizing k with
  | nil =>
    cases k with
    | zero => omega
    | succ k => simp [definitions]
  | cons d ds ih =>
    cases k with
    | zero => omega
    | succ k =>
      obtain ⟨t, tl, e⟩ := def_toks_ne_nil d
      simp only [List.map_cons, List.flatten_cons, List.length_append] at hfuel
      have hd := definition_toks d (hds d (by simp)) ((ds.map Def.toks).flatten) fuel (by omega)
      simp only [List.map_cons, List.flatten_cons]
      rw [e] at hd ⊢
      simp only [List.cons_append, definitions] at hd ⊢
      rw [hd]
      simp only [Option.bind_some]
      rw [ih (fun x hx => hds x (by simp [hx])) k (by omega) (by simpa using hk)]
      rfl

end SpecVerif.Lang
