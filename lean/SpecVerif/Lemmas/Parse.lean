/-
C02 helper lemmas: the recursive parser never panics, terminates within its fuel and reports a
size within the input.
-/
import SpecVerif.Lemmas.Access
namespace SpecVerif
open Pinned

def SafeP (len : Nat) : Res Nat → Prop
  | .ok n => n ≤ len
  | .err _ n => n ≤ len
  | .panic => False

@[simp] theorem SafeP_ok (len n : Nat) : SafeP len (.ok n) = (n ≤ len) := rfl
@[simp] theorem SafeP_err (len : Nat) (e : Err) (n : Nat) : SafeP len (.err e n) = (n ≤ len) := rfl
@[simp] theorem SafeP_panic (len : Nat) : SafeP len .panic = False := rfl

theorem SafeP_bind {α} (len : Nat) (r : Res (α × Nat)) (h : SafeN len r) :
    SafeP len (r.bind fun x => .ok x.2) := by
  cases r with
  | ok a => obtain ⟨a, n⟩ := a; simpa [Res.bind] using h
  | err e n => simpa [Res.bind] using h
  | panic => simp at h

theorem SafeP_guard (len : Nat) (r : Res Nat) (h : SafeP len r) :
    SafeP len (guardSize len r) := by
  unfold guardSize
  cases r with
  | ok n => simp at h; simp; split <;> simp <;> omega
  | err e n => simpa using h
  | panic => simp at h

theorem SafeP_ite (len : Nat) (c : Prop) [Decidable c] (a b : Res Nat)
    (ha : c → SafeP len a) (hb : ¬ c → SafeP len b) : SafeP len (if c then a else b) := by
  split
  · exact ha ‹_›
  · exact hb ‹_›

theorem SafeP_mono (a b : Nat) (h : a ≤ b) (r : Res Nat) (hr : SafeP a r) : SafeP b r := by
  cases r <;> simp_all <;> omega

section
variable (F : FloatOps)

/-- the element loop of ParseList, given that values are parsed safely at this fuel -/
theorem parseListElems_safe (fuel : Nat) (L : Nat)
    (hV : ∀ b1 : Bytes, 2 * b1.length + 1 ≤ fuel → SafeP b1.length (parseValue F fuel b1))
    (l : ListV) (wf : l.WF) (size : Nat) (hs : size ≤ L) (hl : 2 * l.bytes.length ≤ fuel + 1) :
    ∀ k i, i + k = l.len → SafeP L (parseListElems F fuel l size k i) := by
  intro k
  induction k with
  | zero => intro i _; simp [parseListElems, hs]
  | succ k ih =>
    intro i hik
    obtain ⟨v, hv, hlen⟩ := getBytes_ok l wf i (by omega)
    simp only [parseListElems, hv]
    by_cases c : v.length = 0
    · simp only [c, ↓reduceIte]; exact ih (i + 1) (by omega)
    · simp only [c, ↓reduceIte]
      have := hV v (by omega)
      cases hp : parseValue F fuel v with
      | ok n => simp only; exact ih (i + 1) (by omega)
      | err e n => simp [hs]
      | panic => rw [hp] at this; simp at this

theorem parseMsgFields_safe (fuel : Nat) (L : Nat)
    (hV : ∀ b1 : Bytes, 2 * b1.length + 1 ≤ fuel → SafeP b1.length (parseValue F fuel b1))
    (m : MsgV) (wf : m.WF) (size : Nat) (hs : size ≤ L) (hl : 2 * m.bytes.length ≤ fuel + 1) :
    ∀ k i, SafeP L (parseMsgFields F fuel m size k i) := by
  intro k
  induction k with
  | zero => intro i; simp [parseMsgFields, hs]
  | succ k ih =>
    intro i
    obtain ⟨v, hv, hlen⟩ := fieldAtRaw_ok m wf i
    simp only [parseMsgFields, hv]
    by_cases c : v.length = 0
    · simp only [c, ↓reduceIte]; exact ih (i + 1)
    · simp only [c, ↓reduceIte]
      have := hV v (by omega)
      cases hp : parseValue F fuel v with
      | ok n => simp only; exact ih (i + 1)
      | err e n => simp [hs]
      | panic => rw [hp] at this; simp at this

theorem parseList_step (fuel : Nat)
    (hV : ∀ b1 : Bytes, 2 * b1.length + 1 ≤ fuel → SafeP b1.length (parseValue F fuel b1))
    (b : Bytes) (hb : 2 * b.length ≤ fuel + 1) : SafeP b.length (parseList F (fuel + 1) b) := by
  simp only [parseList]
  have hs := decodeTable_safe tList tBigList listElemSmall listElemBig b
  unfold decodeListTable
  generalize hd : decodeTable tList tBigList listElemSmall listElemBig b = r at hs
  match r, hd with
  | .ok (t, n), hd =>
    have ⟨hle, wf⟩ := wf_of_decodeTable _ _ _ _ b t n hd
    simp only [suffix_ok b n hle]
    have wfl : ListV.WF ⟨t, lastN n b⟩ := by
      unfold ListV.WF; simp only [lastN_length_le]; rw [Nat.min_eq_left hle]; exact wf
    exact parseListElems_safe F fuel b.length hV ⟨t, lastN n b⟩ wfl n hle (by simp; omega) _ 0 (by simp)
  | .err e k, _ => simp
  | .panic, _ => simp at hs

theorem parseMessage_step (fuel : Nat)
    (hV : ∀ b1 : Bytes, 2 * b1.length + 1 ≤ fuel → SafeP b1.length (parseValue F fuel b1))
    (b : Bytes) (hb : 2 * b.length ≤ fuel + 1) : SafeP b.length (parseMessage F (fuel + 1) b) := by
  simp only [parseMessage]
  have hs := decodeTable_safe tMessage tBigMessage msgFieldSmall msgFieldBig b
  unfold decodeMessageTable
  generalize hd : decodeTable tMessage tBigMessage msgFieldSmall msgFieldBig b = r at hs
  match r, hd with
  | .ok (t, n), hd =>
    have ⟨hle, wf⟩ := wf_of_decodeTable _ _ _ _ b t n hd
    simp only [suffix_ok b n hle]
    have wfl : MsgV.WF ⟨t, lastN n b⟩ := by
      unfold MsgV.WF; simp only [lastN_length_le]; rw [Nat.min_eq_left hle]; exact wf
    exact parseMsgFields_safe F fuel b.length hV ⟨t, lastN n b⟩ wfl n hle (by simp; omega) _ 0
  | .err e k, _ => simp
  | .panic, _ => simp at hs

/-- ParseValue never panics, terminates within `2·len + 1` units of fuel and reports `n ≤ len`. -/
theorem parseValue_safe : ∀ (fuel : Nat) (b : Bytes), 2 * b.length + 1 ≤ fuel →
    SafeP b.length (parseValue F fuel b) := by
  intro fuel
  induction fuel using Nat.strongRecOn with
  | _ fuel ih =>
    intro b hb
    cases fuel with
    | zero => omega
    | succ f =>
      simp only [parseValue]
      apply SafeP_guard
      have hT := decodeType_bound b
      -- containers need one more unit of fuel
      have hcont : ∀ (g : Nat → Bytes → Res Nat),
          (∀ f', f = f' + 1 → SafeP b.length (g f b)) → b.length ≠ 0 → SafeP b.length (g f b) := by
        intro g hg hne
        cases f with
        | zero => omega
        | succ f' => exact hg f' rfl
      repeat' (apply SafeP_ite <;> intro _)
      all_goals first
        | exact SafeP_bind _ _ (decodeByte_safe b)
        | exact SafeP_bind _ _ (decodeInt16_safe b)
        | exact SafeP_bind _ _ (decodeInt32_safe b)
        | exact SafeP_bind _ _ (decodeInt64_safe b)
        | exact SafeP_bind _ _ (decodeUint16_safe b)
        | exact SafeP_bind _ _ (decodeUint32_safe b)
        | exact SafeP_bind _ _ (decodeUint64_safe b)
        | exact SafeP_bind _ _ (decodeBin_safe _ _ b)
        | exact SafeP_bind _ _ (decodeFloat32_safe F b)
        | exact SafeP_bind _ _ (decodeFloat64_safe F b)
        | exact SafeP_bind _ _ (decodeBytes_safe b)
        | exact SafeP_bind _ _ (decodeString_safe b)
        | exact SafeP_bind _ _ (decodeStruct_safe b)
        | (simp only [SafeP_ok, SafeP_err]; omega)
        | skip
      · -- list
        rename_i hty
        have hne : b.length ≠ 0 := by
          intro h0
          have : b = [] := List.eq_nil_of_length_eq_zero h0
          subst this; revert hty; decide
        apply hcont (fun f b => parseList F f b) _ hne
        intro f' hf'
        subst hf'
        exact parseList_step F f' (fun b1 h1 => ih f' (by omega) b1 h1) b (by omega)
      · -- message
        rename_i hty
        have hne : b.length ≠ 0 := by
          intro h0
          have : b = [] := List.eq_nil_of_length_eq_zero h0
          subst this; revert hty; decide
        apply hcont (fun f b => parseMessage F f b) _ hne
        intro f' hf'
        subst hf'
        exact parseMessage_step F f' (fun b1 h1 => ih f' (by omega) b1 h1) b (by omega)

end
end SpecVerif
