/-
C13 helper lemmas: decoding is local — a decoder that accepts `q ++ s` and reports size `|s|`
(with `s` non-empty) gives the same answer on `p ++ s` for every prefix `p`.
-/
import SpecVerif.Lemmas.Safe
namespace SpecVerif
open Pinned

theorem exists_snoc (s : Bytes) (h : s ≠ []) : ∃ body t, s = body ++ [t] :=
  ⟨s.dropLast, s.getLast h, (List.dropLast_concat_getLast h).symm⟩

theorem lastN_take_snoc (x : Bytes) (f : UInt8) (k : Nat) (h : k ≤ x.length) :
    (lastN (k + 1) (x ++ [f])).take k = lastN k x := by
  have hx : x = dropLastN k x ++ lastN k x := (dropLastN_lastN k x).symm
  have hl : (lastN k x).length = k := by simp; omega
  rw [hx, List.append_assoc, lastN_append' _ (lastN k x ++ [f]) (k + 1) (by simp [hl])]
  rw [List.take_left' hl]
  rw [← hx]

/-- ReverseUint32 on a buffer ending in `f`. -/
theorem revU32_snoc (x : Bytes) (f : UInt8) :
    revU32 (x ++ [f]) =
      if f = 0xfd then (if x.length < 2 then (0, 0) else (be (lastN 2 x), 3))
      else if f = 0xfe then (if x.length < 4 then (0, 0) else (be (lastN 4 x), 5))
      else if f = 0xff then (0, -1)
      else (f.toNat, 1) := by
  unfold revU32
  simp only [List.getLast?_append, List.getLast?_singleton, Option.some_or, List.length_append,
    List.length_singleton]
  by_cases c1 : f = 0xfd
  · simp only [c1, ↓reduceIte]
    by_cases c2 : x.length < 2
    · have : x.length + 1 < 3 := by omega
      simp [c2, this]
    · have : ¬ x.length + 1 < 3 := by omega
      simp only [c2, this, ↓reduceIte]
      rw [lastN_take_snoc x 0xfd 2 (by omega)]
  · simp only [c1, ↓reduceIte]
    by_cases c3 : f = 0xfe
    · simp only [c3, ↓reduceIte]
      by_cases c2 : x.length < 4
      · have : x.length + 1 < 5 := by omega
        simp [c2, this]
      · have : ¬ x.length + 1 < 5 := by omega
        simp only [c2, this, ↓reduceIte]
        rw [lastN_take_snoc x 0xfe 4 (by omega)]
    · simp only [c3, ↓reduceIte]

theorem revU64_snoc (x : Bytes) (f : UInt8) :
    revU64 (x ++ [f]) =
      if f = 0xfd then (if x.length < 2 then (0, 0) else (be (lastN 2 x), 3))
      else if f = 0xfe then (if x.length < 4 then (0, 0) else (be (lastN 4 x), 5))
      else if f = 0xff then (if x.length < 8 then (0, 0) else (be (lastN 8 x), 9))
      else (f.toNat, 1) := by
  unfold revU64
  simp only [List.getLast?_append, List.getLast?_singleton, Option.some_or, List.length_append,
    List.length_singleton]
  by_cases c1 : f = 0xfd
  · simp only [c1, ↓reduceIte]
    by_cases c2 : x.length < 2
    · have : x.length + 1 < 3 := by omega
      simp [c2, this]
    · have : ¬ x.length + 1 < 3 := by omega
      simp only [c2, this, ↓reduceIte]
      rw [lastN_take_snoc x 0xfd 2 (by omega)]
  · simp only [c1, ↓reduceIte]
    by_cases c3 : f = 0xfe
    · simp only [c3, ↓reduceIte]
      by_cases c2 : x.length < 4
      · have : x.length + 1 < 5 := by omega
        simp [c2, this]
      · have : ¬ x.length + 1 < 5 := by omega
        simp only [c2, this, ↓reduceIte]
        rw [lastN_take_snoc x 0xfe 4 (by omega)]
    · simp only [c3, ↓reduceIte]
      by_cases c4 : f = 0xff
      · simp only [c4, ↓reduceIte]
        by_cases c2 : x.length < 8
        · have : x.length + 1 < 9 := by omega
          simp [c2, this]
        · have : ¬ x.length + 1 < 9 := by omega
          simp only [c2, this, ↓reduceIte]
          rw [lastN_take_snoc x 0xff 8 (by omega)]
      · simp only [c4, ↓reduceIte]

theorem lastN_prefix_eq (q p body : Bytes) (k : Nat) (h : body.length = k) :
    lastN k (q ++ body) = lastN k (p ++ body) := by
  rw [lastN_append' q body k h, lastN_append' p body k h]

/-- ReverseUint32 only looks at the bytes it consumes. -/
theorem revU32_prefix (q p s : Bytes) (hs : s ≠ []) (hm : (revU32 (q ++ s)).2 = s.length) :
    revU32 (p ++ s) = revU32 (q ++ s) := by
  obtain ⟨body, f, rfl⟩ := exists_snoc s hs
  rw [← List.append_assoc, ← List.append_assoc, revU32_snoc, revU32_snoc] at *
  simp only [List.length_append, List.length_singleton] at hm ⊢
  by_cases c1 : f = 0xfd
  · simp only [c1, ↓reduceIte] at hm ⊢
    by_cases c2 : q.length + body.length < 2
    · simp [c2] at hm; omega
    · simp only [c2, ↓reduceIte] at hm
      have hb : body.length = 2 := by omega
      have c3 : ¬ p.length + body.length < 2 := by omega
      simp only [c2, c3, ↓reduceIte, lastN_prefix_eq q p body 2 hb]
  · simp only [c1, ↓reduceIte] at hm ⊢
    by_cases c4 : f = 0xfe
    · simp only [c4, ↓reduceIte] at hm ⊢
      by_cases c2 : q.length + body.length < 4
      · simp [c2] at hm; omega
      · simp only [c2, ↓reduceIte] at hm
        have hb : body.length = 4 := by omega
        have c3 : ¬ p.length + body.length < 4 := by omega
        simp only [c2, c3, ↓reduceIte, lastN_prefix_eq q p body 4 hb]
    · simp only [c4, ↓reduceIte] at hm ⊢

theorem revU64_prefix (q p s : Bytes) (hs : s ≠ []) (hm : (revU64 (q ++ s)).2 = s.length) :
    revU64 (p ++ s) = revU64 (q ++ s) := by
  obtain ⟨body, f, rfl⟩ := exists_snoc s hs
  rw [← List.append_assoc, ← List.append_assoc, revU64_snoc, revU64_snoc] at *
  simp only [List.length_append, List.length_singleton] at hm ⊢
  by_cases c1 : f = 0xfd
  · simp only [c1, ↓reduceIte] at hm ⊢
    by_cases c2 : q.length + body.length < 2
    · simp [c2] at hm; omega
    · simp only [c2, ↓reduceIte] at hm
      have hb : body.length = 2 := by omega
      have c3 : ¬ p.length + body.length < 2 := by omega
      simp only [c2, c3, ↓reduceIte, lastN_prefix_eq q p body 2 hb]
  · simp only [c1, ↓reduceIte] at hm ⊢
    by_cases c4 : f = 0xfe
    · simp only [c4, ↓reduceIte] at hm ⊢
      by_cases c2 : q.length + body.length < 4
      · simp [c2] at hm; omega
      · simp only [c2, ↓reduceIte] at hm
        have hb : body.length = 4 := by omega
        have c3 : ¬ p.length + body.length < 4 := by omega
        simp only [c2, c3, ↓reduceIte, lastN_prefix_eq q p body 4 hb]
    · simp only [c4, ↓reduceIte] at hm ⊢
      by_cases c5 : f = 0xff
      · simp only [c5, ↓reduceIte] at hm ⊢
        by_cases c2 : q.length + body.length < 8
        · simp [c2] at hm; omega
        · simp only [c2, ↓reduceIte] at hm
          have hb : body.length = 8 := by omega
          have c3 : ¬ p.length + body.length < 8 := by omega
          simp only [c2, c3, ↓reduceIte, lastN_prefix_eq q p body 8 hb]
      · simp only [c5, ↓reduceIte] at hm ⊢

theorem revI32_prefix (q p s : Bytes) (hs : s ≠ []) (hm : (revI32 (q ++ s)).2 = s.length) :
    revI32 (p ++ s) = revI32 (q ++ s) := by
  have hpos : 0 < s.length := List.length_pos_iff.mpr hs
  unfold revI32 at hm ⊢
  have key : (revU32 (q ++ s)).2 = s.length := by
    generalize revU32 (q ++ s) = r at hm ⊢
    obtain ⟨u, n⟩ := r
    simp only at hm ⊢
    split at hm <;> simp at hm <;> omega
  rw [revU32_prefix q p s hs key]

theorem revI64_prefix (q p s : Bytes) (hs : s ≠ []) (hm : (revI64 (q ++ s)).2 = s.length) :
    revI64 (p ++ s) = revI64 (q ++ s) := by
  have hpos : 0 < s.length := List.length_pos_iff.mpr hs
  unfold revI64 at hm ⊢
  have key : (revU64 (q ++ s)).2 = s.length := by
    generalize revU64 (q ++ s) = r at hm ⊢
    obtain ⟨u, n⟩ := r
    simp only at hm ⊢
    split at hm <;> simp at hm <;> omega
  rw [revU64_prefix q p s hs key]

theorem decodeSize_prefix (q p s : Bytes) (hs : s ≠ []) (hm : (decodeSize (q ++ s)).2 = s.length) :
    decodeSize (p ++ s) = decodeSize (q ++ s) := by
  have hpos : 0 < s.length := List.length_pos_iff.mpr hs
  unfold decodeSize at hm ⊢
  have key : (revU32 (q ++ s)).2 = s.length := by
    generalize revU32 (q ++ s) = r at hm ⊢
    obtain ⟨u, n⟩ := r
    simp only at hm ⊢
    split at hm <;> simp at hm <;> omega
  rw [revU32_prefix q p s hs key]

end SpecVerif
