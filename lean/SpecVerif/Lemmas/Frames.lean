import SpecVerif.Mpx.Frame
namespace SpecVerif.Mpx.Frame
open SpecVerif

theorem readOne_frame (m rest : Bytes) (h : m.length < 2 ^ 32) :
    readOne (frame m ++ rest) = .msg m rest := by
  unfold readOne frame
  have h4 : ¬ (toBE 4 m.length ++ m ++ rest).length < 4 := by simp
  simp only [h4, ↓reduceIte]
  have ht : (toBE 4 m.length ++ m ++ rest).take 4 = toBE 4 m.length := by
    rw [List.append_assoc]; exact List.take_left' (by simp)
  have hd : (toBE 4 m.length ++ m ++ rest).drop 4 = m ++ rest := by
    rw [List.append_assoc]; exact List.drop_left' (by simp)
  rw [ht, hd, be_toBE 4 _ (by omega)]
  have : ¬ (m ++ rest).length < m.length := by simp
  simp only [this, ↓reduceIte]
  rw [List.take_left' rfl, List.drop_left' rfl]

/-- a strict prefix of a frame never yields a message -/
theorem readOne_partial (m : Bytes) (k : Nat) (hk : k < (frame m).length) (h : m.length < 2 ^ 32) :
    readOne ((frame m).take k) = .needMore := by
  unfold readOne
  by_cases c : ((frame m).take k).length < 4
  · rw [if_pos c]
  · rw [if_neg c]
    have hk4 : 4 ≤ k := by simp [frame] at c hk; omega
    have ht : ((frame m).take k).take 4 = toBE 4 m.length := by
      rw [List.take_take, Nat.min_eq_left hk4]
      unfold frame; exact List.take_left' (by simp)
    rw [ht, be_toBE 4 _ (by omega)]
    have : (((frame m).take k).drop 4).length < m.length := by
      simp [frame] at hk ⊢; omega
    rw [if_pos this]

theorem stream_cons (m : Bytes) (ms : List Bytes) : stream (m :: ms) = frame m ++ stream ms := by
  simp [stream]

/-- the reader returns exactly the messages that were written, in order, with nothing left over -/
theorem readAll_stream (ms : List Bytes) (hm : ∀ m ∈ ms, m.length < 2 ^ 32) (fuel : Nat)
    (hf : ms.length < fuel) (tail : Bytes) (ht : readOne tail = .needMore) :
    readAll fuel (stream ms ++ tail) = (ms, tail) := by
  induction ms generalizing fuel with
  | nil =>
    cases fuel with
    | zero => omega
    | succ f => simp [readAll, stream, ht]
  | cons m ms ih =>
    cases fuel with
    | zero => omega
    | succ f =>
      rw [stream_cons, List.append_assoc]
      simp only [readAll, readOne_frame m _ (hm m (by simp))]
      rw [ih (fun x hx => hm x (by simp [hx])) f (by simp at hf; omega)]

end SpecVerif.Mpx.Frame

namespace SpecVerif.Mpx.Frame
open SpecVerif

theorem frame_length (m : Bytes) : (frame m).length = 4 + m.length := by simp [frame]

/-- Cutting the byte stream anywhere delivers a prefix of the messages that were written and never a
partial frame: for every cut offset `k` there is `j` such that exactly the first `j` messages are
delivered. -/
theorem cut_delivers_prefix (ms : List Bytes) (hm : ∀ m ∈ ms, m.length < 2 ^ 32) (k : Nat) (fuel : Nat)
    (hf : ms.length < fuel) :
    ∃ j, (readAll fuel ((stream ms).take k)).1 = ms.take j := by
  induction ms generalizing k fuel with
  | nil =>
    refine ⟨0, ?_⟩
    cases fuel with
    | zero => omega
    | succ f => simp [stream, readAll, readOne]
  | cons m ms ih =>
    cases fuel with
    | zero => omega
    | succ f =>
      rw [stream_cons]
      by_cases c : k < (frame m).length
      · -- the cut falls inside the first frame: nothing is delivered
        refine ⟨0, ?_⟩
        have : (frame m ++ stream ms).take k = (frame m).take k := by
          rw [List.take_append_of_le_length (by omega)]
        rw [this]
        simp only [readAll, readOne_partial m k c (hm m (by simp)), List.take_zero]
      · -- the first frame is complete: it is delivered and the rest is cut
        have hk : (frame m ++ stream ms).take k = frame m ++ (stream ms).take (k - (frame m).length) := by
          rw [List.take_append]
          congr 1
          exact List.take_of_length_le (by omega)
        rw [hk]
        simp only [readAll, readOne_frame m _ (hm m (by simp))]
        obtain ⟨j, hj⟩ := ih (fun x hx => hm x (by simp [hx])) (k - (frame m).length) f (by simp at hf; omega)
        exact ⟨j + 1, by simp [hj]⟩

end SpecVerif.Mpx.Frame
