/-
Copy / Merge from ARBITRARY source bytes keeps the writer invariant and never panics: the opened
source's index accessors are total (C02.message_accessors_safe), the destination operations are
(Lemmas/WriterInv.lean). With it `no_panic` holds for every program over the whole call alphabet.
-/
import SpecVerif.Lemmas.WriterInv
import SpecVerif.Props.C02
namespace SpecVerif.Writer
open SpecVerif

/-- the index accessors of `M` are total -/
def IndexSafe (M : MsgV) : Prop :=
  ∀ i, (∃ r, M.tagAt i = .ok r) ∧ (∃ v, M.fieldAt i = .ok v)

theorem copyLoop_good (M : MsgV) (hM : IndexSafe M) (idx : Nat) :
    ∀ (k i : Nat) (w : W), WInv w → Good (copyLoop M idx k i w) := by
  intro k
  induction k with
  | zero => intro i w hw; unfold copyLoop; exact ⟨hw, by simp⟩
  | succ k ih =>
    intro i w hw
    obtain ⟨⟨r, hr⟩, ⟨v, hv⟩⟩ := hM i
    unfold copyLoop
    rw [hr]
    cases r with
    | none => exact ih (i + 1) w hw
    | some tag =>
      simp only
      have hh := hasField_good w tag hw
      cases hb : hasField w tag with
      | panic => exact absurd hb hh
      | bool b =>
        cases b with
        | true => exact ih (i + 1) w hw
        | false =>
          simp only
          rw [hv]
          simp only
          have hg := fieldAny_good w idx tag v hw
          cases hf : fieldAny w idx tag v with
          | mk w1 o =>
            rw [hf] at hg
            cases o with
            | ok => exact ih (i + 1) w1 hg.1
            | panic => exact absurd rfl hg.2
            | built b => exact hg
            | err e => exact hg
            | bool b => exact hg
            | nat n => exact hg
            | badop => exact hg
      | ok =>
        simp only
        rw [hv]
        simp only
        have hg := fieldAny_good w idx tag v hw
        cases hf : fieldAny w idx tag v with
        | mk w1 o =>
          rw [hf] at hg
          cases o with
          | ok => exact ih (i + 1) w1 hg.1
          | panic => exact absurd rfl hg.2
          | built b => exact hg
          | err e => exact hg
          | bool b => exact hg
          | nat n => exact hg
          | badop => exact hg
      | built b =>
        simp only
        rw [hv]
        simp only
        have hg := fieldAny_good w idx tag v hw
        cases hf : fieldAny w idx tag v with
        | mk w1 o =>
          rw [hf] at hg
          cases o with
          | ok => exact ih (i + 1) w1 hg.1
          | panic => exact absurd rfl hg.2
          | built b => exact hg
          | err e => exact hg
          | bool b => exact hg
          | nat n => exact hg
          | badop => exact hg
      | err e =>
        simp only
        rw [hv]
        simp only
        have hg := fieldAny_good w idx tag v hw
        cases hf : fieldAny w idx tag v with
        | mk w1 o =>
          rw [hf] at hg
          cases o with
          | ok => exact ih (i + 1) w1 hg.1
          | panic => exact absurd rfl hg.2
          | built b => exact hg
          | err e => exact hg
          | bool b => exact hg
          | nat n => exact hg
          | badop => exact hg
      | nat n =>
        simp only
        rw [hv]
        simp only
        have hg := fieldAny_good w idx tag v hw
        cases hf : fieldAny w idx tag v with
        | mk w1 o =>
          rw [hf] at hg
          cases o with
          | ok => exact ih (i + 1) w1 hg.1
          | panic => exact absurd rfl hg.2
          | built b => exact hg
          | err e => exact hg
          | bool b => exact hg
          | nat n => exact hg
          | badop => exact hg
      | badop =>
        simp only
        rw [hv]
        simp only
        have hg := fieldAny_good w idx tag v hw
        cases hf : fieldAny w idx tag v with
        | mk w1 o =>
          rw [hf] at hg
          cases o with
          | ok => exact ih (i + 1) w1 hg.1
          | panic => exact absurd rfl hg.2
          | built b => exact hg
          | err e => exact hg
          | bool b => exact hg
          | nat n => exact hg
          | badop => exact hg


/-- `Copy`/`Merge` from any bytes: the source opens (or is treated as empty), every accessor the
loop uses is total, the destination stays consistent -/
theorem copyMsg_good (w : W) (idx : Nat) (src : Bytes) (hw : WInv w) : Good (copyMsg w idx src) := by
  unfold copyMsg
  rcases C02.message_accessors_safe src with ⟨e, he⟩ | ⟨m, hm, _, _, hidx⟩
  · have : openMessage src = .ok ⟨Table.empty, []⟩ := by unfold openMessage; rw [he]
    rw [this]
    simp only
    have h0 : MsgV.fields ⟨Table.empty, []⟩ = 0 := by decide
    rw [h0]
    unfold copyLoop
    exact ⟨hw, by simp⟩
  · have : openMessage src = .ok m := by unfold openMessage; rw [hm]
    rw [this]
    simp only
    exact copyLoop_good m (fun i => ⟨(hidx i).2.1, by obtain ⟨v, hv, _⟩ := (hidx i).2.2; exact ⟨v, hv⟩⟩) idx _ _ w hw

/-- every call of the alphabet keeps the invariant and does not panic -/
theorem step_good_all (s : Sess) (idx : Nat) (c : Call) (hs : WInv s.w) :
    WInv (step s idx c).1.w ∧ (step s idx c).2 ≠ .panic := by
  cases hc : c.noCopy with
  | true => exact step_good s idx c hs hc
  | false =>
    cases c with
    | copy h src =>
      simp only [step]
      split
      · exact ⟨hs, by simp⟩
      · exact onHandle_good s _ _ hs (fun w hw => copyMsg_good w idx src hw)
    | _ => simp [Call.noCopy] at hc

theorem runFrom_no_panic_all (s : Sess) (idx : Nat) (cs : List Call) (hs : WInv s.w) :
    ∀ o ∈ (runFrom s idx cs).2, o ≠ .panic := by
  induction cs generalizing s idx with
  | nil => intro o ho; simp [runFrom] at ho
  | cons c cs ih =>
    intro o ho
    simp only [runFrom] at ho
    have hg := step_good_all s idx c hs
    rcases List.mem_cons.mp ho with h | h
    · rw [h]; exact hg.2
    · exact ih _ _ hg.1 o h

end SpecVerif.Writer
