import SpecVerif.Wire.Varint
namespace SpecVerif

theorem getLast?_append_singleton (p : Bytes) (x : UInt8) : (p ++ [x]).getLast? = some x := by
  simp

theorem u8_ofNat_toNat (v : Nat) (h : v < 256) : (UInt8.ofNat v).toNat = v := by
  simp [UInt8.toNat_ofNat']; omega

theorem u8_ofNat_ne (v : Nat) (c : UInt8) (h : v < 256) (hc : v ≠ c.toNat) : UInt8.ofNat v ≠ c := by
  intro h2
  apply hc
  rw [← h2, u8_ofNat_toNat v h]

theorem putRevU32_length (v : Nat) :
    (putRevU32 v).length = if v ≤ 0xfc then 1 else if v ≤ 0xffff then 3 else 5 := by
  unfold putRevU32; repeat' split
  all_goals simp

theorem putRevU64_length (v : Nat) :
    (putRevU64 v).length =
      if v ≤ 0xfc then 1 else if v ≤ 0xffff then 3 else if v ≤ 0xffffffff then 5 else 9 := by
  unfold putRevU64; repeat' split
  all_goals simp

theorem putRevU32_pos (v : Nat) : 0 < (putRevU32 v).length := by
  rw [putRevU32_length]; repeat' split
  all_goals omega

theorem putRevU64_pos (v : Nat) : 0 < (putRevU64 v).length := by
  rw [putRevU64_length]; repeat' split
  all_goals omega

private theorem lastN_take (p s : Bytes) (m : UInt8) (k : Nat) (h : s.length = k) :
    (lastN (k + 1) (p ++ (s ++ [m]))).take k = s := by
  rw [← List.append_assoc, List.append_assoc p s [m], lastN_append' p (s ++ [m]) (k + 1) (by simp [h])]
  simp [h]

/-- Reading back a 32-bit reverse varint behind an arbitrary prefix. -/
theorem revU32_put (p : Bytes) (v : Nat) (h : v < 2 ^ 32) :
    revU32 (p ++ putRevU32 v) = (v, ((putRevU32 v).length : Int)) := by
  unfold putRevU32
  split
  · rename_i h1
    have hv : (UInt8.ofNat v).toNat = v := u8_ofNat_toNat v (by omega)
    unfold revU32
    rw [getLast?_append_singleton]
    have n1 : UInt8.ofNat v ≠ 0xfd := u8_ofNat_ne v _ (by omega) (by simp; omega)
    have n2 : UInt8.ofNat v ≠ 0xfe := u8_ofNat_ne v _ (by omega) (by simp; omega)
    have n3 : UInt8.ofNat v ≠ 0xff := u8_ofNat_ne v _ (by omega) (by simp; omega)
    simp [n1, n2, n3, hv]
  · split
    · rename_i h1 h2
      unfold revU32
      rw [← List.append_assoc, getLast?_append_singleton]
      simp only [↓reduceIte, List.append_assoc]
      have hl : ¬ (p ++ (toBE 2 v ++ [0xfd])).length < 3 := by simp
      rw [if_neg hl, lastN_take p (toBE 2 v) 0xfd 2 (by simp), be_toBE 2 v (by omega)]
      simp
    · rename_i h1 h2
      unfold revU32
      rw [← List.append_assoc, getLast?_append_singleton]
      have c1 : ((0xfe : UInt8) = 0xfd) = False := by decide
      simp only [c1, ↓reduceIte, List.append_assoc]
      have hl : ¬ (p ++ (toBE 4 v ++ [0xfe])).length < 5 := by simp
      rw [if_neg hl, lastN_take p (toBE 4 v) 0xfe 4 (by simp), be_toBE 4 v (by omega)]
      simp

theorem revU64_put (p : Bytes) (v : Nat) (h : v < 2 ^ 64) :
    revU64 (p ++ putRevU64 v) = (v, ((putRevU64 v).length : Int)) := by
  unfold putRevU64
  split
  · rename_i h1
    have hv : (UInt8.ofNat v).toNat = v := u8_ofNat_toNat v (by omega)
    unfold revU64
    rw [getLast?_append_singleton]
    have n1 : UInt8.ofNat v ≠ 0xfd := u8_ofNat_ne v _ (by omega) (by simp; omega)
    have n2 : UInt8.ofNat v ≠ 0xfe := u8_ofNat_ne v _ (by omega) (by simp; omega)
    have n3 : UInt8.ofNat v ≠ 0xff := u8_ofNat_ne v _ (by omega) (by simp; omega)
    simp [n1, n2, n3, hv]
  · split
    · rename_i h1 h2
      unfold revU64
      rw [← List.append_assoc, getLast?_append_singleton]
      simp only [↓reduceIte, List.append_assoc]
      have hl : ¬ (p ++ (toBE 2 v ++ [0xfd])).length < 3 := by simp
      rw [if_neg hl, lastN_take p (toBE 2 v) 0xfd 2 (by simp), be_toBE 2 v (by omega)]
      simp
    · split
      · rename_i h1 h2 h3
        unfold revU64
        rw [← List.append_assoc, getLast?_append_singleton]
        have c1 : ((0xfe : UInt8) = 0xfd) = False := by decide
        simp only [c1, ↓reduceIte, List.append_assoc]
        have hl : ¬ (p ++ (toBE 4 v ++ [0xfe])).length < 5 := by simp
        rw [if_neg hl, lastN_take p (toBE 4 v) 0xfe 4 (by simp), be_toBE 4 v (by omega)]
        simp
      · rename_i h1 h2 h3
        unfold revU64
        rw [← List.append_assoc, getLast?_append_singleton]
        have c1 : ((0xff : UInt8) = 0xfd) = False := by decide
        have c2 : ((0xff : UInt8) = 0xfe) = False := by decide
        simp only [c1, c2, ↓reduceIte, List.append_assoc]
        have hl : ¬ (p ++ (toBE 8 v ++ [0xff])).length < 9 := by simp
        rw [if_neg hl, lastN_take p (toBE 8 v) 0xff 8 (by simp), be_toBE 8 v (by omega)]
        simp

theorem unzig_zigzag (v : Int) : unzig (zigzag v) = v := by
  unfold unzig zigzag
  split <;> split <;> omega

theorem zigzag_unzig (u : Nat) : zigzag (unzig u) = u := by
  unfold unzig zigzag
  split <;> split <;> omega

theorem zigzag_lt32 (v : Int) (h1 : -2147483648 ≤ v) (h2 : v ≤ 2147483647) : zigzag v < 2 ^ 32 := by
  unfold zigzag; split <;> omega

theorem zigzag_lt64 (v : Int) (h1 : -9223372036854775808 ≤ v) (h2 : v ≤ 9223372036854775807) :
    zigzag v < 2 ^ 64 := by
  unfold zigzag; split <;> omega

theorem revI32_put (p : Bytes) (v : Int) (h1 : -2147483648 ≤ v) (h2 : v ≤ 2147483647) :
    revI32 (p ++ putRevI32 v) = (v, ((putRevI32 v).length : Int)) := by
  unfold revI32 putRevI32
  rw [revU32_put p _ (zigzag_lt32 v h1 h2)]
  have := putRevU32_pos (zigzag v)
  simp only [unzig_zigzag]
  split
  · omega
  · rfl

theorem revI64_put (p : Bytes) (v : Int) (h1 : -9223372036854775808 ≤ v) (h2 : v ≤ 9223372036854775807) :
    revI64 (p ++ putRevI64 v) = (v, ((putRevI64 v).length : Int)) := by
  unfold revI64 putRevI64
  rw [revU64_put p _ (zigzag_lt64 v h1 h2)]
  have := putRevU64_pos (zigzag v)
  simp only [unzig_zigzag]
  split
  · omega
  · rfl

end SpecVerif
