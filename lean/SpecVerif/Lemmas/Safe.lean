/-
C02 helper lemmas: every decoder returns normally and reports a size within the input.
-/
import SpecVerif.Wire.Types
namespace SpecVerif
open Pinned

/-- The outcome is not a panic and the reported size (with a value or with an error) is within `len`. -/
def SafeN {α : Type} (len : Nat) : Res (α × Nat) → Prop
  | .ok (_, n) => n ≤ len
  | .err _ n => n ≤ len
  | .panic => False

@[simp] theorem SafeN_ok {α} (len : Nat) (a : α) (n : Nat) : SafeN len (.ok (a, n)) = (n ≤ len) := rfl
@[simp] theorem SafeN_err {α} (len : Nat) (e : Err) (n : Nat) : SafeN (α := α) len (.err e n) = (n ≤ len) := rfl
@[simp] theorem SafeN_panic {α} (len : Nat) : SafeN (α := α) len .panic = False := rfl

theorem getLast?_some_length (b : Bytes) (f : UInt8) (h : b.getLast? = some f) : 0 < b.length := by
  cases b with
  | nil => simp at h
  | cons x xs => simp

theorem revU32_bound (b : Bytes) : (revU32 b).2 ≤ b.length ∧ -1 ≤ (revU32 b).2 := by
  unfold revU32
  split
  · simp
  · rename_i f hf
    have := getLast?_some_length b f hf
    repeat' split
    all_goals (simp; try omega)

theorem revU64_bound (b : Bytes) : (revU64 b).2 ≤ b.length ∧ -1 ≤ (revU64 b).2 := by
  unfold revU64
  split
  · simp
  · rename_i f hf
    have := getLast?_some_length b f hf
    repeat' split
    all_goals (simp; try omega)

theorem revI32_bound (b : Bytes) : (revI32 b).2 ≤ b.length ∧ -1 ≤ (revI32 b).2 := by
  have := revU32_bound b
  unfold revI32
  split
  rename_i u n h
  rw [h] at this
  split <;> simpa using this

theorem revI64_bound (b : Bytes) : (revI64 b).2 ≤ b.length ∧ -1 ≤ (revI64 b).2 := by
  have := revU64_bound b
  unfold revI64
  split
  rename_i u n h
  rw [h] at this
  split <;> simpa using this

theorem revSize_bound (b : Bytes) : revSize b ≤ b.length := by
  unfold revSize
  split
  · simp
  · rename_i f hf
    have := getLast?_some_length b f hf
    repeat' split
    all_goals omega

theorem decodeSize_bound (b : Bytes) : (decodeSize b).2 ≤ b.length ∧ -1 ≤ (decodeSize b).2 ∧ (decodeSize b).2 ≠ 0 := by
  have := revU32_bound b
  unfold decodeSize
  split
  rename_i v n h
  rw [h] at this
  split
  · simp
  · simp at this ⊢; omega

theorem decodeType_bound (b : Bytes) : (decodeType b).2 ≤ b.length ∧ ((decodeType b).2 = 1 ∨ b.length = 0) := by
  unfold decodeType
  split
  · rename_i h; simp at h; simp [h]
  · rename_i f hf
    have := getLast?_some_length b f hf
    simp; omega

@[simp] theorem dropLastN_length (n : Nat) (b : Bytes) : (dropLastN n b).length = b.length - n := by
  simp [dropLastN]

theorem decodeBool_safe (b : Bytes) : SafeN b.length (decodeBool b) := by
  unfold decodeBool
  split
  · simp
  · have := decodeType_bound b
    split; rename_i t n h; rw [h] at this
    simp; omega

theorem decodeByte_safe (b : Bytes) : SafeN b.length (decodeByte b) := by
  unfold decodeByte
  repeat' split
  all_goals (simp; try omega)

macro "int_safe" b:ident : tactic => `(tactic| (
  have hT := decodeType_bound $b
  have h32 := revI32_bound (dropLastN (decodeType $b).2 $b)
  have h64 := revI64_bound (dropLastN (decodeType $b).2 $b)
  have u32 := revU32_bound (dropLastN (decodeType $b).2 $b)
  have u64 := revU64_bound (dropLastN (decodeType $b).2 $b)
  simp only [dropLastN_length] at h32 h64 u32 u64
  simp only [apply_ite (SafeN (List.length $b)), SafeN_ok, SafeN_err, SafeN_panic]
  repeat' split
  all_goals (try simp_all)
  all_goals (try omega)))

theorem decodeInt16_safe (b : Bytes) : SafeN b.length (decodeInt16 b) := by
  unfold decodeInt16; int_safe b
theorem decodeInt32_safe (b : Bytes) : SafeN b.length (decodeInt32 b) := by
  unfold decodeInt32; int_safe b
theorem decodeInt64_safe (b : Bytes) : SafeN b.length (decodeInt64 b) := by
  unfold decodeInt64; int_safe b
theorem decodeUint16_safe (b : Bytes) : SafeN b.length (decodeUint16 b) := by
  unfold decodeUint16; int_safe b
theorem decodeUint32_safe (b : Bytes) : SafeN b.length (decodeUint32 b) := by
  unfold decodeUint32; int_safe b
theorem decodeUint64_safe (b : Bytes) : SafeN b.length (decodeUint64 b) := by
  unfold decodeUint64; int_safe b

theorem decodeFloat64'_bound (F : FloatOps) (b : Bytes) (v n : Nat)
    (h : decodeFloat64' F b = some (v, n)) : n ≤ b.length := by
  unfold decodeFloat64' at h
  by_cases h1 : (decodeType b).1 = tFloat32
  · simp only [h1, ↓reduceIte] at h
    by_cases h2 : b.length < 5 <;> simp [h2] at h
    omega
  · simp only [h1, ↓reduceIte] at h
    by_cases h3 : (decodeType b).1 = tFloat64
    · simp only [h3, ↓reduceIte] at h
      by_cases h2 : b.length < 9 <;> simp [h2] at h
      omega
    · simp [h3] at h

theorem decodeFloat32_safe (F : FloatOps) (b : Bytes) : SafeN b.length (decodeFloat32 F b) := by
  unfold decodeFloat32
  split
  · simp
  · split
    · simp
    · rename_i v n he
      have h := decodeFloat64'_bound F b v n he
      simp only [apply_ite (SafeN (List.length b)), SafeN_ok, SafeN_err]
      repeat' split
      all_goals (first | exact h | omega)

theorem decodeFloat64_safe (F : FloatOps) (b : Bytes) : SafeN b.length (decodeFloat64 F b) := by
  unfold decodeFloat64
  split
  · simp
  · split
    · simp
    · rename_i v n he
      have h := decodeFloat64'_bound F b v n he
      simpa using h

theorem decodeBin_safe (k : Nat) (c : UInt8) (b : Bytes) : SafeN b.length (decodeBin k c b) := by
  have hT := decodeType_bound b
  unfold decodeBin
  simp only [apply_ite (SafeN (List.length b)), SafeN_ok, SafeN_err]
  repeat' split
  all_goals (try simp_all)
  all_goals (try omega)

theorem decodeBytes_safe (b : Bytes) : SafeN b.length (decodeBytes b) := by
  have hT := decodeType_bound b
  have hS := decodeSize_bound (b.take (b.length - (decodeType b).2))
  unfold decodeBytes
  simp only [apply_ite (SafeN (List.length b)), SafeN_ok, SafeN_err, SafeN_panic]
  repeat' split
  all_goals (try simp_all)
  all_goals (try omega)

theorem decodeString_safe (b : Bytes) : SafeN b.length (decodeString b) := by
  have hT := decodeType_bound b
  have hS := decodeSize_bound (b.take (b.length - (decodeType b).2))
  unfold decodeString
  simp only [apply_ite (SafeN (List.length b)), SafeN_ok, SafeN_err, SafeN_panic]
  repeat' split
  all_goals (try simp_all)
  all_goals (try omega)

theorem decodeStruct_safe (b : Bytes) : SafeN b.length (decodeStruct b) := by
  have hT := decodeType_bound b
  have hS := decodeSize_bound (b.take (b.length - (decodeType b).2))
  unfold decodeStruct
  simp only [apply_ite (SafeN (List.length b)), SafeN_ok, SafeN_err, SafeN_panic]
  repeat' split
  all_goals (try simp_all)
  all_goals (try omega)

/-- What a successfully decoded table guarantees. -/
structure TableOK (esS esB : Nat) (b : Bytes) (t : Table) (size : Nat) : Prop where
  size_le : size ≤ b.length
  aligned : t.table.length % (if t.big then esB else esS) = 0
  room : t.data + t.table.length + 3 ≤ size

theorem decodeTable_ok (small big : UInt8) (esS esB : Nat) (b : Bytes) (t : Table) (size : Nat)
    (h : decodeTable small big esS esB b = .ok (t, size)) :
    (size = 0 ∧ t = Table.empty) ∨ TableOK esS esB b t size := by
  have hT := decodeType_bound b
  unfold decodeTable at h
  by_cases h0 : b.length = 0
  · simp [h0] at h
    left; exact ⟨h.2.symm, h.1.symm⟩
  · right
    simp only [h0, ↓reduceIte] at h
    have hn : (decodeType b).2 = 1 := by omega
    generalize ht : (decodeType b).1 = ty at h
    simp only [hn] at h
    have hS1 := decodeSize_bound (b.take (b.length - 1))
    generalize hd1 : decodeSize (b.take (b.length - 1)) = d1 at h hS1
    obtain ⟨ts, m1⟩ := d1
    simp only at h hS1
    by_cases c0 : ty ≠ small ∧ ty ≠ big
    · simp [c0] at h
    · simp only [c0, ↓reduceIte] at h
      by_cases c1 : m1 < 0
      · simp [c1] at h
      · simp only [c1, ↓reduceIte] at h
        have hS2 := decodeSize_bound (b.take (b.length - 1 - m1.toNat))
        generalize hd2 : decodeSize (b.take (b.length - 1 - m1.toNat)) = d2 at h hS2
        obtain ⟨ds, m2⟩ := d2
        simp only at h hS2
        by_cases c2 : m2 < 0
        · simp [c2] at h
        · simp only [c2, ↓reduceIte] at h
          by_cases c3 : b.length - 1 - m1.toNat - m2.toNat < ts
          · simp [c3] at h
          · simp only [c3, ↓reduceIte] at h
            by_cases c4 : (ts % if (ty == big) = true then esB else esS) ≠ 0
            · rw [if_pos c4] at h; simp at h
            · rw [if_neg c4] at h
              simp only [ne_eq, Decidable.not_not] at c4
              by_cases c5 : b.length - 1 - m1.toNat - m2.toNat < ts + ds
              · simp [c5] at h
              · simp only [c5, ↓reduceIte, Res.ok.injEq, Prod.mk.injEq] at h
                obtain ⟨h1, h2⟩ := h
                subst h1
                simp only [List.length_take] at hS1 hS2
                refine ⟨?_, ?_, ?_⟩
                · omega
                · simp only [List.length_drop, List.length_take]
                  have : min (b.length - 1 - m1.toNat - m2.toNat) b.length - (b.length - 1 - m1.toNat - m2.toNat - ts) = ts := by omega
                  rw [this]; exact c4
                · simp only [List.length_drop, List.length_take]
                  omega

theorem decodeTable_safe (small big : UInt8) (esS esB : Nat) (b : Bytes) :
    SafeN b.length (decodeTable small big esS esB b) := by
  have hT := decodeType_bound b
  have hS1 := decodeSize_bound (b.take (b.length - (decodeType b).2))
  have hS2 := decodeSize_bound (b.take (b.length - (decodeType b).2 - (decodeSize (b.take (b.length - (decodeType b).2))).2.toNat))
  simp only [List.length_take] at hS1 hS2
  unfold decodeTable
  simp only [apply_ite (SafeN (List.length b)), SafeN_ok, SafeN_err]
  repeat' split
  all_goals (try simp_all)
  all_goals (try omega)

theorem decodeTypeSize_safe (b : Bytes) : SafeN b.length (decodeTypeSize b) := by
  have hT := decodeType_bound b
  have hR := revSize_bound (b.take (b.length - (decodeType b).2))
  have hS1 := decodeSize_bound (b.take (b.length - (decodeType b).2))
  simp only [List.length_take] at hR hS1
  unfold decodeTypeSize
  simp only [apply_ite (SafeN (List.length b)), SafeN_ok, SafeN_err]
  repeat' split
  all_goals (try simp_all)
  all_goals (try omega)
  all_goals (intros; repeat' split)
  all_goals (intros; try omega)

end SpecVerif
