/-
Well-formed value trees (valid leaves, distinct tags below 2^16, sizes below the 32-bit limits) have
`Valid` layout bytes, so everything C01 proves about `Valid` bytes holds for what the writer builds.
-/
import SpecVerif.Lemmas.WriterProgram
import SpecVerif.Lemmas.Valid
namespace SpecVerif.Writer
open SpecVerif

mutual
/-- a tree the writer API accepts without error and the format can carry -/
def Node.OK : Node → Prop
  | .leaf b => Valid b
  | .list es => es.OK ∧ es.encs.flatten.length + 4 * es.encs.length < 2 ^ 32
  | .msg fs => fs.OK ∧ MsgWF fs.encs
def Nodes.OK : Nodes → Prop
  | .nil => True
  | .cons n ns => n.OK ∧ ns.OK
def Flds.OK : Flds → Prop
  | .nil => True
  | .cons _ n fs => n.OK ∧ fs.OK
end

mutual
theorem Node.valid : (n : Node) → n.OK → Valid n.enc
  | .leaf b, h => by unfold Node.OK at h; exact h
  | .list es, h => by
    unfold Node.OK at h
    exact Valid.list es.encs (Nodes.valid es h.1) h.2
  | .msg fs, h => by
    unfold Node.OK at h
    exact Valid.msg fs.encs (Flds.valid fs h.1) h.2
theorem Nodes.valid : (ns : Nodes) → ns.OK → ∀ e ∈ ns.encs, Valid e
  | .nil, _ => by intro e he; simp [Nodes.encs] at he
  | .cons n ns, h => by
    unfold Nodes.OK at h
    intro e he
    simp only [Nodes.encs, List.mem_cons] at he
    rcases he with he | he
    · subst he; exact Node.valid n h.1
    · exact Nodes.valid ns h.2 e he
theorem Flds.valid : (fs : Flds) → fs.OK → ∀ f ∈ fs.encs, Valid f.2
  | .nil, _ => by intro e he; simp [Flds.encs] at he
  | .cons t n fs, h => by
    unfold Flds.OK at h
    intro e he
    simp only [Flds.encs, List.mem_cons] at he
    rcases he with he | he
    · subst he; exact Node.valid n h.1
    · exact Flds.valid fs h.2 e he
end


end SpecVerif.Writer
