/-
Lemmas for the lexer model: lexemes, separators (white space and comments) and how the state
machine of Lang/Lexer.lean moves over them.
-/
import SpecVerif.Lang.Lexer
namespace SpecVerif.Lang

def run (s : LS) (cs : List Char) : LS := cs.foldl step s

theorem run_append (s : LS) (a b : List Char) : run s (a ++ b) = run (run s a) b := by
  simp [run, List.foldl_append]

theorem run_cons (s : LS) (c : Char) (cs : List Char) : run s (c :: cs) = run (step s c) cs := rfl

theorem run_nil (s : LS) : run s [] = s := rfl

/-- NUL-free ASCII -/
def okc (c : Char) : Bool := !(c.toNat = 0 || 128 ≤ c.toNat)

theorem step_ok {c : Char} (h : okc c = true) (s : LS) :
    step s c = (match s.mode with
      | .bad => s
      | .start => startChar s.out c
      | .word acc => if isIdChar c then ⟨.word (c :: acc), s.out⟩ else startChar (wordTok acc :: s.out) c
      | .num acc =>
        if isDigit c then ⟨.num (c :: acc), s.out⟩
        else if isLetter c || c == '.' then ⟨.bad, s.out⟩
        else match intTok acc with
          | some t => startChar (t :: s.out) c
          | none => ⟨.bad, s.out⟩
      | .str acc =>
        if c == '"' then ⟨.start, .str (String.ofList acc.reverse) :: s.out⟩
        else if isStrChar c then ⟨.str (c :: acc), s.out⟩
        else ⟨.bad, s.out⟩
      | .slash =>
        if c == '/' then ⟨.line, s.out⟩
        else if c == '*' then ⟨.block, s.out⟩
        else startChar (.p '/' :: s.out) c
      | .dot => if isDigit c then ⟨.bad, s.out⟩ else startChar (.p '.' :: s.out) c
      | .line => if c == '\n' then ⟨.start, s.out⟩ else s
      | .block => if c == '*' then ⟨.blockStar, s.out⟩ else s
      | .blockStar =>
        if c == '/' then ⟨.start, s.out⟩ else if c == '*' then s else ⟨.block, s.out⟩) := by
  unfold step
  have hn : ¬ ((decide (c.toNat = 0) || decide (128 ≤ c.toNat)) = true) := by
    unfold okc at h
    simpa using h
  rw [if_neg hn]
  obtain ⟨mode, out⟩ := s
  cases mode <;> rfl

private theorem nat_a : 'a'.toNat = 97 := by decide
private theorem nat_z : 'z'.toNat = 122 := by decide
private theorem nat_A : 'A'.toNat = 65 := by decide
private theorem nat_Z : 'Z'.toNat = 90 := by decide
private theorem nat_0 : '0'.toNat = 48 := by decide
private theorem nat_9 : '9'.toNat = 57 := by decide

theorem isLetter_iff (c : Char) : isLetter c = true ↔
    (97 ≤ c.toNat ∧ c.toNat ≤ 122) ∨ (65 ≤ c.toNat ∧ c.toNat ≤ 90) ∨ c = '_' := by
  unfold isLetter
  simp only [nat_a, nat_z, nat_A, nat_Z, Bool.or_eq_true, Bool.and_eq_true, decide_eq_true_eq, beq_iff_eq]
  constructor
  · rintro ((h | h) | h)
    · exact Or.inl h
    · exact Or.inr (Or.inl h)
    · exact Or.inr (Or.inr h)
  · rintro (h | h | h)
    · exact Or.inl (Or.inl h)
    · exact Or.inl (Or.inr h)
    · exact Or.inr h

theorem isDigit_iff (c : Char) : isDigit c = true ↔ 48 ≤ c.toNat ∧ c.toNat ≤ 57 := by
  unfold isDigit
  simp [nat_0, nat_9]

theorem char_eq_of_toNat {c d : Char} (h : c.toNat = d.toNat) : c = d := by
  apply Char.ext
  apply UInt32.toNat_inj.mp
  exact h

theorem okc_letter {c : Char} (h : isLetter c = true) : okc c = true := by
  rw [isLetter_iff] at h
  unfold okc
  rcases h with h | h | h
  · simp; omega
  · simp; omega
  · subst h; decide

theorem okc_digit {c : Char} (h : isDigit c = true) : okc c = true := by
  rw [isDigit_iff] at h
  unfold okc; simp; omega

theorem okc_idChar {c : Char} (h : isIdChar c = true) : okc c = true := by
  unfold isIdChar at h
  rcases Bool.or_eq_true _ _ |>.mp h with h | h
  · exact okc_letter h
  · exact okc_digit h

theorem okc_ws {c : Char} (h : isWs c = true) : okc c = true := by
  simp only [isWs, Bool.or_eq_true, beq_iff_eq] at h
  rcases h with ((h | h) | h) | h <;> subst h <;> decide

theorem okc_punct {c : Char} (h : isPunct c = true) : okc c = true := by
  unfold isPunct at h
  simp only [Bool.and_eq_true, decide_eq_true_eq] at h
  unfold okc; simp; omega

theorem okc_strChar {c : Char} (h : isStrChar c = true) : okc c = true := by
  unfold isStrChar at h
  simp only [Bool.and_eq_true, decide_eq_true_eq] at h
  unfold okc; simp; omega

/-- letters and digits are disjoint -/
theorem not_digit_of_letter {c : Char} (h : isLetter c = true) : isDigit c = false := by
  rw [isLetter_iff] at h
  cases hd : isDigit c
  · rfl
  · rw [isDigit_iff] at hd
    rcases h with h | h | h
    · omega
    · omega
    · subst h; revert hd; decide

theorem not_letter_of_digit {c : Char} (h : isDigit c = true) : isLetter c = false := by
  cases hl : isLetter c
  · rfl
  · rw [not_digit_of_letter hl] at h; cases h

theorem not_ws_of_letter {c : Char} (h : isLetter c = true) : isWs c = false := by
  cases hw : isWs c
  · rfl
  · simp only [isWs, Bool.or_eq_true, beq_iff_eq] at hw
    rcases hw with ((hw | hw) | hw) | hw <;> subst hw <;> revert h <;> decide

theorem not_ws_of_digit {c : Char} (h : isDigit c = true) : isWs c = false := by
  cases hw : isWs c
  · rfl
  · simp only [isWs, Bool.or_eq_true, beq_iff_eq] at hw
    rcases hw with ((hw | hw) | hw) | hw <;> subst hw <;> revert h <;> decide

/-! ### the start state -/

theorem startChar_ws {c : Char} (h : isWs c = true) (out : List Tok) : startChar out c = ⟨.start, out⟩ := by
  simp [startChar, h]

theorem startChar_letter {c : Char} (h : isLetter c = true) (out : List Tok) :
    startChar out c = ⟨.word [c], out⟩ := by
  simp [startChar, h, not_ws_of_letter h]

theorem startChar_digit {c : Char} (h : isDigit c = true) (out : List Tok) :
    startChar out c = ⟨.num [c], out⟩ := by
  simp [startChar, h, not_ws_of_digit h, not_letter_of_digit h]

theorem startChar_quote (out : List Tok) : startChar out '"' = ⟨.str [], out⟩ := by
  have h1 : isWs '"' = false := by decide
  have h2 : isLetter '"' = false := by decide
  have h3 : isDigit '"' = false := by decide
  simp [startChar, h1, h2, h3]

theorem startChar_slash (out : List Tok) : startChar out '/' = ⟨.slash, out⟩ := by
  have h1 : isWs '/' = false := by decide
  have h2 : isLetter '/' = false := by decide
  have h3 : isDigit '/' = false := by decide
  simp [startChar, h1, h2, h3]

theorem startChar_dot (out : List Tok) : startChar out '.' = ⟨.dot, out⟩ := by
  have h1 : isWs '.' = false := by decide
  have h2 : isLetter '.' = false := by decide
  have h3 : isDigit '.' = false := by decide
  simp [startChar, h1, h2, h3]

theorem punct_facts {c : Char} (h : isPunct c = true) :
    isWs c = false ∧ isLetter c = false ∧ isDigit c = false ∧ c ≠ '"' ∧ c ≠ '/' ∧ c ≠ '.' := by
  unfold isPunct at h
  simp only [Bool.and_eq_true, decide_eq_true_eq, Bool.not_eq_true', bne_iff_ne, ne_eq] at h
  obtain ⟨⟨⟨⟨⟨⟨⟨⟨⟨h1, h2⟩, h3⟩, h4⟩, h5⟩, _⟩, _⟩, h8⟩, h9⟩, _⟩ := h
  refine ⟨?_, h3, h4, h5, h8, h9⟩
  cases hw : isWs c
  · rfl
  · simp only [isWs, Bool.or_eq_true, beq_iff_eq] at hw
    rcases hw with ((hw | hw) | hw) | hw <;> subst hw <;> revert h1 <;> decide

theorem startChar_punct {c : Char} (h : isPunct c = true) (out : List Tok) :
    startChar out c = ⟨.start, .p c :: out⟩ := by
  obtain ⟨h1, h2, h3, h4, h5, h6⟩ := punct_facts h
  simp [startChar, h1, h2, h3, h4, h5, h6, h]

/-! ### lexemes -/

/-- the character sequence of one token -/
inductive Lexeme
  | word (c : Char) (cs : List Char)
  | num (ds : List Char) (t : Tok)
  | str (cs : List Char)
  | punct (c : Char)
  | dot

def Lexeme.chars : Lexeme → List Char
  | .word c cs => c :: cs
  | .num ds _ => ds
  | .str cs => '"' :: (cs ++ ['"'])
  | .punct c => [c]
  | .dot => ['.']

def Lexeme.OK : Lexeme → Prop
  | .word c cs => isLetter c = true ∧ ∀ d ∈ cs, isIdChar d = true
  | .num ds t => ds ≠ [] ∧ (∀ d ∈ ds, isDigit d = true) ∧ intTok ds.reverse = some t
  | .str cs => ∀ d ∈ cs, isStrChar d = true
  | .punct c => isPunct c = true
  | .dot => True

def Lexeme.tok : Lexeme → Tok
  | .word c cs => wordTok (c :: cs).reverse
  | .num _ t => t
  | .str cs => .str (String.ofList cs)
  | .punct c => .p c
  | .dot => .p '.'

/-- the state right after the characters of a lexeme, read from the start state -/
def pend (out : List Tok) : Lexeme → LS
  | .word c cs => ⟨.word (c :: cs).reverse, out⟩
  | .num ds _ => ⟨.num ds.reverse, out⟩
  | .str cs => ⟨.start, .str (String.ofList cs) :: out⟩
  | .punct c => ⟨.start, .p c :: out⟩
  | .dot => ⟨.dot, out⟩

theorem run_word (acc cs : List Char) (out : List Tok) (h : ∀ d ∈ cs, isIdChar d = true) :
    run ⟨.word acc, out⟩ cs = ⟨.word (cs.reverse ++ acc), out⟩ := by
  induction cs generalizing acc with
  | nil => rfl
  | cons c cs ih =>
    have hc := h c (by simp)
    rw [run_cons, step_ok (okc_idChar hc)]
    simp only [hc, ↓reduceIte]
    rw [ih _ (fun d hd => h d (by simp [hd]))]
    simp

theorem run_num (acc ds : List Char) (out : List Tok) (h : ∀ d ∈ ds, isDigit d = true) :
    run ⟨.num acc, out⟩ ds = ⟨.num (ds.reverse ++ acc), out⟩ := by
  induction ds generalizing acc with
  | nil => rfl
  | cons c cs ih =>
    have hc := h c (by simp)
    rw [run_cons, step_ok (okc_digit hc)]
    simp only [hc, ↓reduceIte]
    rw [ih _ (fun d hd => h d (by simp [hd]))]
    simp

theorem strChar_not_quote {c : Char} (h : isStrChar c = true) : (c == '"') = false := by
  unfold isStrChar at h
  simp only [Bool.and_eq_true, bne_iff_ne, ne_eq] at h
  simp [h.1.2]

theorem run_str (acc cs : List Char) (out : List Tok) (h : ∀ d ∈ cs, isStrChar d = true) :
    run ⟨.str acc, out⟩ cs = ⟨.str (cs.reverse ++ acc), out⟩ := by
  induction cs generalizing acc with
  | nil => rfl
  | cons c cs ih =>
    have hc := h c (by simp)
    rw [run_cons, step_ok (okc_strChar hc)]
    simp only [strChar_not_quote hc, hc, ↓reduceIte, Bool.false_eq_true]
    rw [ih _ (fun d hd => h d (by simp [hd]))]
    simp

theorem okc_quote : okc '"' = true := by decide
theorem okc_dot : okc '.' = true := by decide
theorem okc_slash : okc '/' = true := by decide
theorem okc_star : okc '*' = true := by decide
theorem okc_nl : okc '\n' = true := by decide

/-- reading a lexeme from the start state -/
theorem run_lexeme (l : Lexeme) (hl : l.OK) (out : List Tok) : run ⟨.start, out⟩ l.chars = pend out l := by
  cases l with
  | word c cs =>
    obtain ⟨hc, hcs⟩ := hl
    simp only [Lexeme.chars, run_cons, step_ok (okc_letter hc), startChar_letter hc]
    rw [run_word [c] cs out hcs]
    simp [pend]
  | num ds t =>
    obtain ⟨hne, hds, _⟩ := hl
    cases ds with
    | nil => exact absurd rfl hne
    | cons d ds =>
      have hd := hds d (by simp)
      simp only [Lexeme.chars, run_cons, step_ok (okc_digit hd), startChar_digit hd]
      rw [run_num [d] ds out (fun x hx => hds x (by simp [hx]))]
      simp [pend]
  | str cs =>
    simp only [Lexeme.chars, run_cons, step_ok okc_quote, startChar_quote, run_append]
    rw [run_str [] cs out hl]
    simp only [List.append_nil, run_cons, step_ok okc_quote, run_nil]
    simp [pend]
  | punct c =>
    simp only [Lexeme.chars, run_cons, step_ok (okc_punct hl), startChar_punct hl, run_nil, pend]
  | dot =>
    simp only [Lexeme.chars, run_cons, step_ok okc_dot, startChar_dot, run_nil, pend]

/-- the characters after which a pending lexeme is complete -/
def boundary : Lexeme → Char → Prop
  | .word _ _, c => isIdChar c = false
  | .num _ _, c => isDigit c = false ∧ isLetter c = false ∧ c ≠ '.'
  | .dot, c => isDigit c = false
  | _, _ => True

theorem step_pend (l : Lexeme) (hl : l.OK) (out : List Tok) (c : Char) (hc : okc c = true)
    (hb : boundary l c) : step (pend out l) c = step ⟨.start, l.tok :: out⟩ c := by
  cases l with
  | word a cs =>
    simp only [boundary] at hb
    rw [step_ok hc, step_ok hc]
    simp [pend, hb, Lexeme.tok]
  | num ds t =>
    obtain ⟨h1, h2, h3⟩ := hb
    rw [step_ok hc, step_ok hc]
    simp [pend, h1, h2, h3, hl.2.2, Lexeme.tok]
  | str cs => rfl
  | punct a => rfl
  | dot =>
    simp only [boundary] at hb
    rw [step_ok hc, step_ok hc]
    simp [pend, hb, Lexeme.tok]

theorem finish_pend (l : Lexeme) (hl : l.OK) (out : List Tok) :
    finish (pend out l) = some (l.tok :: out).reverse := by
  cases l with
  | word c cs => rfl
  | num ds t => simp [pend, finish, hl.2.2, Lexeme.tok]
  | str cs => rfl
  | punct c => rfl
  | dot => rfl

/-! ### separators -/

inductive SepElem
  | ws (c : Char)
  | line (body : List Char)       -- //body newline
  | block (body : List Char)      -- /*body*/

def SepElem.chars : SepElem → List Char
  | .ws c => [c]
  | .line b => '/' :: '/' :: (b ++ ['\n'])
  | .block b => '/' :: '*' :: (b ++ ['*', '/'])

/-- the body of a block comment does not contain the closing sequence (`star`: the previous
character was '*') -/
def okBlock : Bool → List Char → Bool
  | _, [] => true
  | star, c :: cs => if star && c == '/' then false else okBlock (c == '*') cs

def SepElem.OK : SepElem → Prop
  | .ws c => isWs c = true
  | .line b => ∀ d ∈ b, okc d = true ∧ d ≠ '\n'
  | .block b => (∀ d ∈ b, okc d = true) ∧ okBlock false b = true

theorem run_line (b : List Char) (out : List Tok) (h : ∀ d ∈ b, okc d = true ∧ d ≠ '\n') :
    run ⟨.line, out⟩ b = ⟨.line, out⟩ := by
  induction b with
  | nil => rfl
  | cons c cs ih =>
    obtain ⟨h1, h2⟩ := h c (by simp)
    rw [run_cons, step_ok h1]
    simp only [beq_iff_eq, h2, ↓reduceIte]
    exact ih (fun d hd => h d (by simp [hd]))

theorem run_block (star : Bool) (b : List Char) (out : List Tok) (h : ∀ d ∈ b, okc d = true)
    (hb : okBlock star b = true) :
    run ⟨if star then .blockStar else .block, out⟩ (b ++ ['*', '/']) = ⟨.start, out⟩ := by
  induction b generalizing star with
  | nil =>
    cases star
    · simp only [Bool.false_eq_true, ↓reduceIte, List.nil_append, run_cons, step_ok okc_star, step_ok okc_slash, run_nil]
      simp
    · simp only [↓reduceIte, List.nil_append, run_cons, step_ok okc_star, step_ok okc_slash, run_nil]
      simp
  | cons c cs ih =>
    have hc := h c (by simp)
    simp only [okBlock] at hb
    cases star
    · simp only [Bool.false_and, Bool.false_eq_true, ↓reduceIte] at hb ⊢
      rw [List.cons_append, run_cons, step_ok hc]
      simp only
      have := ih (c == '*') (fun d hd => h d (by simp [hd])) hb
      cases hs : (c == '*')
      · simp only [hs, Bool.false_eq_true, ↓reduceIte] at this ⊢; exact this
      · simp only [hs, ↓reduceIte] at this ⊢; exact this
    · simp only [Bool.true_and, ↓reduceIte] at hb ⊢
      have hns : (c == '/') = false := by
        cases hx : (c == '/')
        · rfl
        · simp [hx] at hb
      simp only [hns, Bool.false_eq_true, ↓reduceIte] at hb
      rw [List.cons_append, run_cons, step_ok hc]
      simp only [hns, Bool.false_eq_true, ↓reduceIte]
      have := ih (c == '*') (fun d hd => h d (by simp [hd])) hb
      cases hs : (c == '*')
      · simp only [hs, Bool.false_eq_true, ↓reduceIte] at this ⊢; exact this
      · simp only [hs, ↓reduceIte] at this ⊢; exact this

theorem run_sepElem (e : SepElem) (he : e.OK) (out : List Tok) : run ⟨.start, out⟩ e.chars = ⟨.start, out⟩ := by
  cases e with
  | ws c => simp only [SepElem.chars, run_cons, step_ok (okc_ws he), startChar_ws he, run_nil]
  | line b =>
    simp only [SepElem.chars, run_cons, step_ok okc_slash, startChar_slash, run_append]
    simp only [beq_self_eq_true, ↓reduceIte]
    rw [run_line b out he]
    simp only [run_cons, step_ok okc_nl, run_nil]
    simp
  | block b =>
    simp only [SepElem.chars, run_cons, step_ok okc_slash, startChar_slash, step_ok okc_star]
    have : (('*' : Char) == '/') = false := by decide
    simp only [this, Bool.false_eq_true, ↓reduceIte, beq_self_eq_true]
    exact run_block false b out he.1 he.2

def sepChars (sep : List SepElem) : List Char := (sep.map SepElem.chars).flatten

theorem run_sep (sep : List SepElem) (hs : ∀ e ∈ sep, e.OK) (out : List Tok) :
    run ⟨.start, out⟩ (sepChars sep) = ⟨.start, out⟩ := by
  induction sep with
  | nil => rfl
  | cons e es ih =>
    simp only [sepChars, List.map_cons, List.flatten_cons, run_append]
    rw [run_sepElem e (hs e (by simp))]
    exact ih (fun x hx => hs x (by simp [hx]))

/-- a separator element starts with white space or '/', after which every lexeme is complete -/
theorem boundary_of (l : Lexeme) (c : Char) (h1 : isIdChar c = false) (h2 : isDigit c = false)
    (h3 : isLetter c = false) (h4 : c ≠ '.') : boundary l c := by
  cases l with
  | word a cs => exact h1
  | num ds t => exact ⟨h2, h3, h4⟩
  | str cs => trivial
  | punct a => trivial
  | dot => exact h2

theorem sepElem_head (e : SepElem) (he : e.OK) :
    ∃ c cs, e.chars = c :: cs ∧ okc c = true ∧ ∀ l : Lexeme, boundary l c := by
  have hslash : ∀ l : Lexeme, boundary l '/' :=
    fun l => boundary_of l '/' (by decide) (by decide) (by decide) (by decide)
  cases e with
  | ws c =>
    refine ⟨c, [], rfl, okc_ws he, ?_⟩
    intro l
    simp only [SepElem.OK, isWs, Bool.or_eq_true, beq_iff_eq] at he
    rcases he with ((h | h) | h) | h <;> subst h <;>
      exact boundary_of l _ (by decide) (by decide) (by decide) (by decide)
  | line b => exact ⟨'/', _, rfl, okc_slash, hslash⟩
  | block b => exact ⟨'/', _, rfl, okc_slash, hslash⟩

theorem lexeme_head (l : Lexeme) (hl : l.OK) : ∃ c cs, l.chars = c :: cs ∧ okc c = true := by
  cases l with
  | word c cs => exact ⟨c, cs, rfl, okc_letter hl.1⟩
  | num ds t =>
    obtain ⟨hne, hds, _⟩ := hl
    cases ds with
    | nil => exact absurd rfl hne
    | cons d ds => exact ⟨d, ds, rfl, okc_digit (hds d (by simp))⟩
  | str cs => exact ⟨'"', _, rfl, okc_quote⟩
  | punct c => exact ⟨c, [], rfl, okc_punct hl⟩
  | dot => exact ⟨'.', [], rfl, okc_dot⟩

/-- from a pending lexeme over a separator (non-empty, or the next lexeme starts with a boundary
character) and the next lexeme -/
theorem run_pend_next (l l' : Lexeme) (hl : l.OK) (hl' : l'.OK) (sep : List SepElem) (hs : ∀ e ∈ sep, e.OK)
    (hb : sep ≠ [] ∨ ∀ c cs, l'.chars = c :: cs → boundary l c) (out : List Tok) :
    run (pend out l) (sepChars sep ++ l'.chars) = pend (l.tok :: out) l' := by
  cases sep with
  | nil =>
    obtain ⟨c, cs, e, hc⟩ := lexeme_head l' hl'
    have hbc : boundary l c := by
      rcases hb with h | h
      · exact absurd rfl h
      · exact h c cs e
    simp only [sepChars, List.map_nil, List.flatten_nil, List.nil_append]
    rw [e, run_cons, step_pend l hl out c hc hbc, ← run_cons, ← e]
    exact run_lexeme l' hl' _
  | cons s ss =>
    obtain ⟨c, cs, e, hc, hbd⟩ := sepElem_head s (hs s (by simp))
    have h1 : sepChars (s :: ss) = c :: (cs ++ sepChars ss) := by
      simp [sepChars, e]
    rw [h1, List.cons_append, run_cons, step_pend l hl out c hc (hbd l), ← run_cons, ← List.cons_append, ← h1,
      run_append, run_sep (s :: ss) hs]
    exact run_lexeme l' hl' _

theorem run_pend_sep (l : Lexeme) (hl : l.OK) (sep : List SepElem) (hs : ∀ e ∈ sep, e.OK) (out : List Tok) :
    finish (run (pend out l) (sepChars sep)) = some (l.tok :: out).reverse := by
  cases sep with
  | nil => exact finish_pend l hl out
  | cons s ss =>
    obtain ⟨c, cs, e, hc, hbd⟩ := sepElem_head s (hs s (by simp))
    have h1 : sepChars (s :: ss) = c :: (cs ++ sepChars ss) := by
      simp [sepChars, e]
    rw [h1, run_cons, step_pend l hl out c hc (hbd l), ← run_cons, ← h1, run_sep (s :: ss) hs]
    rfl

end SpecVerif.Lang
