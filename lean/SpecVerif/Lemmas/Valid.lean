/-
C01 helper lemmas: the set of byte strings the encoders produce (`Valid`), closed under the
containers; every valid encoding is delimited exactly by the probe and accepted by the parser
with exactly its own size, behind any prefix.
-/
import SpecVerif.Lemmas.Probe2
import SpecVerif.Lemmas.Parse
import SpecVerif.Props.C10
namespace SpecVerif
open Pinned

inductive Valid : Bytes → Prop
  | bool (v : Bool) : Valid (encBool v)
  | byte (v : UInt8) : Valid (encByte v)
  | i16 (v : Int) (h : -32768 ≤ v ∧ v ≤ 32767) : Valid (encInt16 v)
  | i32 (v : Int) (h : -2147483648 ≤ v ∧ v ≤ 2147483647) : Valid (encInt32 v)
  | i64 (v : Int) (h : -9223372036854775808 ≤ v ∧ v ≤ 9223372036854775807) : Valid (encInt64 v)
  | u16 (v : Nat) (h : v ≤ 65535) : Valid (encUint16 v)
  | u32 (v : Nat) (h : v ≤ 4294967295) : Valid (encUint32 v)
  | u64 (v : Nat) (h : v ≤ 18446744073709551615) : Valid (encUint64 v)
  | f32 (x : Nat) (h : x < 2 ^ 32) : Valid (encFloat32 x)
  | f64 (x : Nat) (h : x < 2 ^ 64) : Valid (encFloat64 x)
  | bin64 (b : Bytes) (h : b.length = 8) : Valid (encBin64 b)
  | bin128 (b : Bytes) (h : b.length = 16) : Valid (encBin128 b)
  | bin256 (b : Bytes) (h : b.length = 32) : Valid (encBin256 b)
  | bytes (b : Bytes) (h : b.length < 2 ^ 32) : Valid (encBytes b)
  | str (b : Bytes) (h : b.length < 2 ^ 32) : Valid (encString b)
  | list (es : List Bytes) (h : ∀ e ∈ es, Valid e) (hsz : es.flatten.length + 4 * es.length < 2 ^ 32) :
      Valid (encList es)
  | msg (fs : List (Nat × Bytes)) (h : ∀ f ∈ fs, Valid f.2) (wf : MsgWF fs) : Valid (encMsg fs)

theorem encList_shape (es : List Bytes) :
    ∃ big : Bool, encList es = es.flatten ++ encListTable big (endOffsets 0 es) ++ putRevU32 es.flatten.length ++
      putRevU32 (encListTable big (endOffsets 0 es)).length ++ [if big then tBigList else tList] :=
  ⟨isBigList (endOffsets 0 es), rfl⟩

theorem encMsg_shape (fs : List (Nat × Bytes)) :
    ∃ (big : Bool) (tb : Bytes), encMsg fs = (fs.map (·.2)).flatten ++ tb ++ putRevU32 ((fs.map (·.2)).flatten).length ++
      putRevU32 tb.length ++ [if big then tBigMessage else tMessage] ∧
      tb.length = fs.length * (if big then msgFieldBig else msgFieldSmall) := by
  refine ⟨isBigMessage (sortedEntries (msgPairs fs)), encMsgTable (isBigMessage (sortedEntries (msgPairs fs))) (sortedEntries (msgPairs fs)), rfl, ?_⟩
  rw [encMsgTable_length, (sortedEntries_perm _).length_eq]
  unfold msgPairs; simp

/-- every valid encoding is delimited exactly by the probe -/
theorem valid_delim (b : Bytes) (h : Valid b) : Delim b := by
  cases h with
  | bool v => exact delim_bool v
  | byte v => exact delim_byte v
  | i16 v h => exact delim_varint32 _ _ (Or.inl rfl)
  | i32 v h => exact delim_varint32 _ _ (Or.inr (Or.inl rfl))
  | i64 v h => exact delim_varint64 _ _ (Or.inl rfl)
  | u16 v h => exact delim_varint32 _ _ (Or.inr (Or.inr (Or.inl rfl)))
  | u32 v h => exact delim_varint32 _ _ (Or.inr (Or.inr (Or.inr rfl)))
  | u64 v h => exact delim_varint64 _ _ (Or.inr rfl)
  | f32 x h => exact delim_fixed _ _ 4 (by simp) (Or.inl ⟨rfl, rfl⟩)
  | f64 x h => exact delim_fixed _ _ 8 (by simp) (Or.inr (Or.inl ⟨rfl, rfl⟩))
  | bin64 b h => exact delim_fixed _ _ 8 h (Or.inr (Or.inr (Or.inl ⟨rfl, rfl⟩)))
  | bin128 b h => exact delim_fixed _ _ 16 h (Or.inr (Or.inr (Or.inr (Or.inl ⟨rfl, rfl⟩))))
  | bin256 b h => exact delim_fixed _ _ 32 h (Or.inr (Or.inr (Or.inr (Or.inr ⟨rfl, rfl⟩))))
  | bytes b h => exact delim_bytes b h
  | str b h => exact delim_string b h
  | list es h hsz =>
    obtain ⟨big, he⟩ := encList_shape es
    rw [he]
    have htl : (encListTable big (endOffsets 0 es)).length = es.length * (if big then listElemBig else listElemSmall) := by
      rw [encListTable_length, endOffsets_length]
    exact delim_container _ _ _ (by cases big <;> simp) (by omega)
      (by rw [htl]; cases big <;> simp only [listElemBig, listElemSmall, ↓reduceIte, Bool.false_eq_true] <;> omega)
  | msg fs h wf =>
    obtain ⟨big, tb, he, hl⟩ := encMsg_shape fs
    rw [he]
    have := wf.size
    exact delim_container _ _ _ (by cases big <;> simp) (by omega)
      (by rw [hl]; cases big <;> simp only [msgFieldBig, msgFieldSmall, ↓reduceIte, Bool.false_eq_true] <;> omega)

theorem valid_ne_nil (b : Bytes) (h : Valid b) : b ≠ [] := (valid_delim b h).1

end SpecVerif

namespace SpecVerif
open Pinned

/-- a written `(tag, end offset)` pair comes from a field at some split point -/
theorem pair_split (fs : List (Nat × Bytes)) (tag off : Nat) (h : (tag, off) ∈ msgPairs fs) :
    ∃ l v r, fs = l ++ (tag, v) :: r ∧ off = (l.map (·.2)).flatten.length + v.length := by
  unfold msgPairs at h
  obtain ⟨j, hj, hget⟩ := List.getElem_of_mem h
  have hj1 : j < fs.length := by simpa using hj
  have hz := List.getElem_zip (l := fs.map (·.1)) (l' := endOffsets 0 (fs.map (·.2))) (i := j) (h := hj)
  rw [hget] at hz
  simp only [List.getElem_map, Prod.mk.injEq] at hz
  obtain ⟨htag, hoff⟩ := hz
  refine ⟨fs.take j, (fs[j]).2, fs.drop (j + 1), ?_, ?_⟩
  · have : fs = fs.take j ++ fs[j] :: fs.drop (j + 1) := by
      rw [List.getElem_cons_drop_succ_eq_drop hj1, List.take_append_drop]
    have e : fs[j] = (tag, (fs[j]).2) := by rw [htag]
    rw [← e]; exact this
  · have hs := endOffsets_split 0 ((fs.take j).map (·.2)) (fs[j]).2 ((fs.drop (j + 1)).map (·.2))
    have e : (fs.take j).map (·.2) ++ (fs[j]).2 :: (fs.drop (j + 1)).map (·.2) = fs.map (·.2) := by
      have : fs = fs.take j ++ fs[j] :: fs.drop (j + 1) := by
        rw [List.getElem_cons_drop_succ_eq_drop hj1, List.take_append_drop]
      have h3 : ((fs.take j).map (·.2) ++ (fs[j]).2 :: (fs.drop (j + 1)).map (·.2)) =
          (fs.take j ++ fs[j] :: fs.drop (j + 1)).map (·.2) := by
        rw [List.map_append, List.map_cons]
      rw [h3, ← this]
    rw [e] at hs
    simp only [List.length_map, List.length_take, Nat.zero_add] at hs
    have hmin : min j fs.length = j := by omega
    rw [hmin] at hs
    have hj2 : j < (endOffsets 0 (fs.map (·.2))).length := by simpa using hj1
    rw [List.getElem?_eq_getElem hj2] at hs
    have := Option.some.inj hs
    omega

end SpecVerif
