/-
C01/C16 helper lemmas: the binary search of the message table is correct on a strictly sorted table.
-/
import SpecVerif.Lemmas.Container
namespace SpecVerif
open Pinned

/-- Abstract view of a serialized message table: entry `i` holds `tags[i]` and `offs[i]`. -/
structure TableView (tb : Bytes) (es tw : Nat) (tags offs : List Nat) : Prop where
  len : tags.length = offs.length
  tagAt : ∀ i (h : i < tags.length), readBE tb (i * es) tw = some tags[i]
  offAt : ∀ i (h : i < offs.length), readBE tb (i * es + tw) (es - tw) = some offs[i]

def StrictSorted (tags : List Nat) : Prop :=
  ∀ i j (hi : i < tags.length) (hj : j < tags.length), i < j → tags[i] < tags[j]

/-- the loop invariant: everything left of `left` is smaller, everything right of `right` larger -/
theorem bsearch_spec (tb : Bytes) (es tw tag : Nat) (tags offs : List Nat)
    (V : TableView tb es tw tags offs) (S : StrictSorted tags) :
    ∀ (fuel : Nat) (left right : Int), 0 ≤ left → right < tags.length → left ≤ right + 1 →
      right - left + 2 ≤ fuel →
      (∀ i (h : i < tags.length), (i : Int) < left → tags[i] < tag) →
      (∀ i (h : i < tags.length), right < (i : Int) → tag < tags[i]) →
      (∃ i, ∃ h : i < tags.length, tags[i] = tag ∧
          bsearch tb es tw tag fuel left right = .ok (some (offs[i]'(by rw [← V.len]; exact h)))) ∨
      ((∀ i (h : i < tags.length), tags[i] ≠ tag) ∧ bsearch tb es tw tag fuel left right = .ok none) := by
  intro fuel
  induction fuel with
  | zero => intro left right h0 h1 h2 h3; omega
  | succ fuel ih =>
    intro left right h0 h1 h2 h3 hL hR
    unfold bsearch
    by_cases c : left > right
    · right
      simp only [c, ↓reduceIte, and_true]
      intro i hi heq
      by_cases c2 : (i : Int) < left
      · have := hL i hi c2; omega
      · have := hR i hi (by omega); omega
    · simp only [c, ↓reduceIte]
      have hmid : ((left + right) / 2).toNat < tags.length := by omega
      have hml : left ≤ ((left + right) / 2).toNat := by omega
      have hmr : (((left + right) / 2).toNat : Int) ≤ right := by omega
      rw [V.tagAt _ hmid]
      simp only
      by_cases c1 : tags[((left + right) / 2).toNat] < tag
      · simp only [c1, ↓reduceIte]
        apply ih _ _ (by omega) h1 (by omega) (by omega)
        · intro i hi hlt
          by_cases ce : i = ((left + right) / 2).toNat
          · subst ce; exact c1
          · have : i < ((left + right) / 2).toNat := by omega
            have := S i _ hi hmid this
            omega
        · exact hR
      · simp only [c1, ↓reduceIte]
        by_cases c2 : tags[((left + right) / 2).toNat] > tag
        · simp only [c2, ↓reduceIte]
          apply ih _ _ h0 (by omega) (by omega) (by omega)
          · exact hL
          · intro i hi hgt
            by_cases ce : i = ((left + right) / 2).toNat
            · subst ce; exact c2
            · have : ((left + right) / 2).toNat < i := by omega
              have := S _ i hmid hi this
              omega
        · simp only [c2, ↓reduceIte]
          left
          have heq : tags[((left + right) / 2).toNat] = tag := by omega
          have hmo : ((left + right) / 2).toNat < offs.length := by rw [← V.len]; exact hmid
          refine ⟨_, hmid, heq, ?_⟩
          rw [V.offAt _ hmo]

end SpecVerif
