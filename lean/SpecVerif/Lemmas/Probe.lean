/-
C13 helper lemmas: the type-and-size probe agrees with every decoder the parser dispatches to.
-/
import SpecVerif.Lemmas.ParseLocal
namespace SpecVerif
open Pinned

theorem revSize_of_u32 (x : Bytes) (h : 0 < (revU32 x).2) : (revSize x : Int) = (revU32 x).2 := by
  unfold revSize revU32 at *
  cases hx : x.getLast? with
  | none => simp [hx] at h
  | some f =>
    simp only [hx] at h ⊢
    repeat' split
    all_goals simp_all

theorem revSize_of_u64 (x : Bytes) (h : 0 < (revU64 x).2) : (revSize x : Int) = (revU64 x).2 := by
  unfold revSize revU64 at *
  cases hx : x.getLast? with
  | none => simp [hx] at h
  | some f =>
    simp only [hx] at h ⊢
    repeat' split
    all_goals simp_all

theorem revSize_of_i32 (x : Bytes) (h : 0 < (revI32 x).2) : (revSize x : Int) = (revI32 x).2 := by
  unfold revI32 at h ⊢
  generalize hr : revU32 x = r at h ⊢
  obtain ⟨u, n⟩ := r
  simp only at h ⊢
  have : 0 < (revU32 x).2 := by rw [hr]; simp only; split at h <;> simp at h ⊢ <;> omega
  rw [revSize_of_u32 x this, hr]
  simp only; split <;> simp

theorem revSize_of_i64 (x : Bytes) (h : 0 < (revI64 x).2) : (revSize x : Int) = (revI64 x).2 := by
  unfold revI64 at h ⊢
  generalize hr : revU64 x = r at h ⊢
  obtain ⟨u, n⟩ := r
  simp only at h ⊢
  have : 0 < (revU64 x).2 := by rw [hr]; simp only; split at h <;> simp at h ⊢ <;> omega
  rw [revSize_of_u64 x this, hr]
  simp only; split <;> simp

end SpecVerif

