/-
C13 helper lemmas at the parser level: the recursive parser is local (prefix-independent) and its
answers do not depend on the fuel once it is sufficient.
-/
import SpecVerif.Lemmas.Local2
import SpecVerif.Lemmas.Parse
namespace SpecVerif
open Pinned

section
variable (F : FloatOps)

theorem parseListElems_size (fuel : Nat) (l : ListV) (size n : Nat) :
    ∀ k i, parseListElems F fuel l size k i = .ok n → n = size := by
  intro k
  induction k with
  | zero => intro i h; simp [parseListElems] at h; exact h.symm
  | succ k ih =>
    intro i h
    simp only [parseListElems] at h
    repeat' split at h
    all_goals first | exact ih _ h | simp at h

theorem parseMsgFields_size (fuel : Nat) (m : MsgV) (size n : Nat) :
    ∀ k i, parseMsgFields F fuel m size k i = .ok n → n = size := by
  intro k
  induction k with
  | zero => intro i h; simp [parseMsgFields] at h; exact h.symm
  | succ k ih =>
    intro i h
    simp only [parseMsgFields] at h
    repeat' split at h
    all_goals first | exact ih _ h | simp at h

theorem suffix_append (q s : Bytes) : suffix (q ++ s) s.length = .ok s := by
  rw [suffix_ok _ _ (by simp), lastN_append]

theorem parseList_local (fuel : Nat) (q p s : Bytes) (hs : s ≠ [])
    (h : parseList F fuel (q ++ s) = .ok s.length) : parseList F fuel (p ++ s) = .ok s.length := by
  cases fuel with
  | zero => simp [parseList] at h
  | succ f =>
    simp only [parseList] at h ⊢
    unfold decodeListTable at h ⊢
    cases hd : decodeTable tList tBigList listElemSmall listElemBig (q ++ s) with
    | panic => simp [hd] at h
    | err e n => simp [hd] at h
    | ok a =>
      obtain ⟨t, size⟩ := a
      simp only [hd] at h
      have hsz : size ≤ (q ++ s).length := by
        have := decodeTable_safe tList tBigList listElemSmall listElemBig (q ++ s)
        rw [hd] at this; simpa using this
      rw [suffix_ok _ _ hsz] at h
      simp only at h
      have := parseListElems_size F f _ _ _ _ _ h
      subst this
      rw [lastN_append] at h
      rw [decodeTable_local _ _ _ _ q p s t hs hd]
      simp only [suffix_append]
      exact h

theorem parseMessage_local (fuel : Nat) (q p s : Bytes) (hs : s ≠ [])
    (h : parseMessage F fuel (q ++ s) = .ok s.length) : parseMessage F fuel (p ++ s) = .ok s.length := by
  cases fuel with
  | zero => simp [parseMessage] at h
  | succ f =>
    simp only [parseMessage] at h ⊢
    unfold decodeMessageTable at h ⊢
    cases hd : decodeTable tMessage tBigMessage msgFieldSmall msgFieldBig (q ++ s) with
    | panic => simp [hd] at h
    | err e n => simp [hd] at h
    | ok a =>
      obtain ⟨t, size⟩ := a
      simp only [hd] at h
      have hsz : size ≤ (q ++ s).length := by
        have := decodeTable_safe tMessage tBigMessage msgFieldSmall msgFieldBig (q ++ s)
        rw [hd] at this; simpa using this
      rw [suffix_ok _ _ hsz] at h
      simp only at h
      have := parseMsgFields_size F f _ _ _ _ _ h
      subst this
      rw [lastN_append] at h
      rw [decodeTable_local _ _ _ _ q p s t hs hd]
      simp only [suffix_append]
      exact h

theorem bind_ok_inv {α} (r : Res (α × Nat)) (n : Nat) (h : (r.bind fun x => Res.ok x.2) = .ok n) :
    ∃ v, r = .ok (v, n) := by
  cases r with
  | ok a => obtain ⟨v, m⟩ := a; simp [Res.bind] at h; exact ⟨v, by rw [h]⟩
  | err e k => simp [Res.bind] at h
  | panic => simp [Res.bind] at h

theorem guardSize_ok_inv (len : Nat) (r : Res Nat) (n : Nat) (h : guardSize len r = .ok n) :
    r = .ok n ∧ n ≤ len := by
  unfold guardSize at h
  cases r with
  | ok m => simp only at h; split at h <;> simp at h; subst h; exact ⟨rfl, by omega⟩
  | err e k => simp at h
  | panic => simp at h

theorem local_bind {α} (d : Bytes → Res (α × Nat)) (hd : LocalDec d) (q p s : Bytes) (hs : s ≠ [])
    (h : ((d (q ++ s)).bind fun x => Res.ok x.2) = .ok s.length) :
    ((d (p ++ s)).bind fun x => Res.ok x.2) = .ok s.length := by
  obtain ⟨v, hv⟩ := bind_ok_inv _ _ h
  rw [hd q p s v hs hv]; rfl

/-- ParseValue is local: with the same fuel, the answer for a value does not depend on the bytes in
front of it. -/
theorem parseValue_local (fuel : Nat) (q p s : Bytes) (hs : s ≠ [])
    (h : parseValue F fuel (q ++ s) = .ok s.length) : parseValue F fuel (p ++ s) = .ok s.length := by
  cases fuel with
  | zero => simp [parseValue] at h
  | succ f =>
    obtain ⟨body, t, rfl⟩ := exists_snoc s hs
    simp only [parseValue] at h ⊢
    obtain ⟨hr, _⟩ := guardSize_ok_inv _ _ _ h
    have hty : ∀ x : Bytes, decodeType (x ++ (body ++ [t])) = (t, 1) := by
      intro x; rw [← List.append_assoc]; exact decodeType_snoc _ _
    simp only [hty] at hr ⊢
    have goal : ∀ r : Res Nat, r = .ok (body ++ [t]).length →
        guardSize (p ++ (body ++ [t])).length r = .ok (body ++ [t]).length := by
      intro r hr; subst hr; unfold guardSize; simp
    apply goal
    by_cases c0 : t = tTrue ∨ t = tFalse
    · simp only [c0, ↓reduceIte] at hr ⊢
      exact hr
    simp only [c0, ↓reduceIte] at hr ⊢
    by_cases c1 : t = tByte
    · simp only [c1, ↓reduceIte] at hr ⊢
      exact local_bind _ decodeByte_local q p _ (by simp) hr
    simp only [c1, ↓reduceIte] at hr ⊢
    by_cases c2 : t = tInt16
    · simp only [c2, ↓reduceIte] at hr ⊢
      exact local_bind _ decodeInt16_local q p _ (by simp) hr
    simp only [c2, ↓reduceIte] at hr ⊢
    by_cases c3 : t = tInt32
    · simp only [c3, ↓reduceIte] at hr ⊢
      exact local_bind _ decodeInt32_local q p _ (by simp) hr
    simp only [c3, ↓reduceIte] at hr ⊢
    by_cases c4 : t = tInt64
    · simp only [c4, ↓reduceIte] at hr ⊢
      exact local_bind _ decodeInt64_local q p _ (by simp) hr
    simp only [c4, ↓reduceIte] at hr ⊢
    by_cases c5 : t = tUint16
    · simp only [c5, ↓reduceIte] at hr ⊢
      exact local_bind _ decodeUint16_local q p _ (by simp) hr
    simp only [c5, ↓reduceIte] at hr ⊢
    by_cases c6 : t = tUint32
    · simp only [c6, ↓reduceIte] at hr ⊢
      exact local_bind _ decodeUint32_local q p _ (by simp) hr
    simp only [c6, ↓reduceIte] at hr ⊢
    by_cases c7 : t = tUint64
    · simp only [c7, ↓reduceIte] at hr ⊢
      exact local_bind _ decodeUint64_local q p _ (by simp) hr
    simp only [c7, ↓reduceIte] at hr ⊢
    by_cases c8 : t = tBin64
    · simp only [c8, ↓reduceIte] at hr ⊢
      exact local_bind _ (decodeBin_local _ _) q p _ (by simp) hr
    simp only [c8, ↓reduceIte] at hr ⊢
    by_cases c9 : t = tBin128
    · simp only [c9, ↓reduceIte] at hr ⊢
      exact local_bind _ (decodeBin_local _ _) q p _ (by simp) hr
    simp only [c9, ↓reduceIte] at hr ⊢
    by_cases c10 : t = tBin256
    · simp only [c10, ↓reduceIte] at hr ⊢
      exact local_bind _ (decodeBin_local _ _) q p _ (by simp) hr
    simp only [c10, ↓reduceIte] at hr ⊢
    by_cases c11 : t = tFloat32
    · simp only [c11, ↓reduceIte] at hr ⊢
      exact local_bind _ (decodeFloat32_local F) q p _ (by simp) hr
    simp only [c11, ↓reduceIte] at hr ⊢
    by_cases c12 : t = tFloat64
    · simp only [c12, ↓reduceIte] at hr ⊢
      exact local_bind _ (decodeFloat64_local F) q p _ (by simp) hr
    simp only [c12, ↓reduceIte] at hr ⊢
    by_cases c13 : t = tBytes
    · simp only [c13, ↓reduceIte] at hr ⊢
      exact local_bind _ decodeBytes_local q p _ (by simp) hr
    simp only [c13, ↓reduceIte] at hr ⊢
    by_cases c14 : t = tString
    · simp only [c14, ↓reduceIte] at hr ⊢
      exact local_bind _ decodeString_local q p _ (by simp) hr
    simp only [c14, ↓reduceIte] at hr ⊢
    by_cases c15 : t = tList ∨ t = tBigList
    · simp only [c15, ↓reduceIte] at hr ⊢
      exact parseList_local F f q p _ (by simp) hr
    simp only [c15, ↓reduceIte] at hr ⊢
    by_cases c16 : t = tMessage ∨ t = tBigMessage
    · simp only [c16, ↓reduceIte] at hr ⊢
      exact parseMessage_local F f q p _ (by simp) hr
    simp only [c16, ↓reduceIte] at hr ⊢
    by_cases c17 : t = tStruct
    · simp only [c17, ↓reduceIte] at hr ⊢
      exact local_bind _ decodeStruct_local q p _ (by simp) hr
    simp only [c17, ↓reduceIte] at hr ⊢
    simp at hr


/-! ### fuel: any non-panic answer is the same under any larger fuel -/

def Stable (g : Nat → Bytes → Res Nat) (f : Nat) : Prop :=
  ∀ b r, g f b = r → r ≠ .panic → g (f + 1) b = r

theorem parseListElems_mono (f : Nat) (hV : Stable (parseValue F) f) (l : ListV) (size : Nat) :
    ∀ k i r, parseListElems F f l size k i = r → r ≠ .panic → parseListElems F (f + 1) l size k i = r := by
  intro k
  induction k with
  | zero => intro i r h _; simpa [parseListElems] using h
  | succ k ih =>
    intro i r h hne
    simp only [parseListElems] at h ⊢
    cases hg : l.getBytes i with
    | panic => simp only [hg] at h; exact absurd h.symm hne
    | err e m => simpa [hg] using h
    | ok b1 =>
      simp only [hg] at h ⊢
      by_cases c : b1.length = 0
      · simp only [c, ↓reduceIte] at h ⊢; exact ih _ _ h hne
      · simp only [c, ↓reduceIte] at h ⊢
        cases hp : parseValue F f b1 with
        | panic => simp only [hp] at h; exact absurd h.symm hne
        | err e m =>
          simp only [hp] at h
          rw [hV b1 _ hp (by simp)]
          exact h
        | ok m =>
          simp only [hp] at h
          rw [hV b1 _ hp (by simp)]
          exact ih _ _ h hne

theorem parseMsgFields_mono (f : Nat) (hV : Stable (parseValue F) f) (m : MsgV) (size : Nat) :
    ∀ k i r, parseMsgFields F f m size k i = r → r ≠ .panic → parseMsgFields F (f + 1) m size k i = r := by
  intro k
  induction k with
  | zero => intro i r h _; simpa [parseMsgFields] using h
  | succ k ih =>
    intro i r h hne
    simp only [parseMsgFields] at h ⊢
    cases hg : m.fieldAtRaw i with
    | panic => simp only [hg] at h; exact absurd h.symm hne
    | err e j => simpa [hg] using h
    | ok b1 =>
      simp only [hg] at h ⊢
      by_cases c : b1.length = 0
      · simp only [c, ↓reduceIte] at h ⊢; exact ih _ _ h hne
      · simp only [c, ↓reduceIte] at h ⊢
        cases hp : parseValue F f b1 with
        | panic => simp only [hp] at h; exact absurd h.symm hne
        | err e j =>
          simp only [hp] at h
          rw [hV b1 _ hp (by simp)]
          exact h
        | ok j =>
          simp only [hp] at h
          rw [hV b1 _ hp (by simp)]
          exact ih _ _ h hne

theorem parseList_mono_step (f : Nat) (hV : Stable (parseValue F) f) : Stable (parseList F) (f + 1) := by
  intro b r h hne
  simp only [parseList] at h ⊢
  cases hd : decodeListTable b with
  | panic => simp only [hd] at h; exact absurd h.symm hne
  | err e m => simpa [hd] using h
  | ok a =>
    obtain ⟨t, size⟩ := a
    simp only [hd] at h ⊢
    cases hs : suffix b size with
    | panic => simp only [hs] at h; exact absurd h.symm hne
    | err e m => simpa [hs] using h
    | ok bytes =>
      simp only [hs] at h ⊢
      exact parseListElems_mono F f hV _ _ _ _ _ h hne

theorem parseMessage_mono_step (f : Nat) (hV : Stable (parseValue F) f) : Stable (parseMessage F) (f + 1) := by
  intro b r h hne
  simp only [parseMessage] at h ⊢
  cases hd : decodeMessageTable b with
  | panic => simp only [hd] at h; exact absurd h.symm hne
  | err e m => simpa [hd] using h
  | ok a =>
    obtain ⟨t, size⟩ := a
    simp only [hd] at h ⊢
    cases hs : suffix b size with
    | panic => simp only [hs] at h; exact absurd h.symm hne
    | err e m => simpa [hs] using h
    | ok bytes =>
      simp only [hs] at h ⊢
      exact parseMsgFields_mono F f hV _ _ _ _ _ h hne

theorem guardSize_panic (len : Nat) : guardSize len .panic = .panic := rfl

theorem guard_congr (len : Nat) (x y r : Res Nat) (hxy : x ≠ .panic → y = x)
    (h : guardSize len x = r) (hne : r ≠ .panic) : guardSize len y = r := by
  by_cases c : x = .panic
  · subst c; rw [guardSize_panic] at h; exact absurd h.symm hne
  · rw [hxy c]; exact h

theorem parseValue_mono_step (f : Nat) (hL : Stable (parseList F) f) (hM : Stable (parseMessage F) f) :
    Stable (parseValue F) (f + 1) := by
  intro b r h hne
  simp only [parseValue] at h ⊢
  generalize (decodeType b).1 = t at h ⊢
  generalize (decodeType b).2 = n0 at h ⊢
  have hL' : parseList F f b ≠ .panic → parseList F (f + 1) b = parseList F f b := fun hx => hL b _ rfl hx
  have hM' : parseMessage F f b ≠ .panic → parseMessage F (f + 1) b = parseMessage F f b := fun hx => hM b _ rfl hx
  revert h
  intro hr
  by_cases c0 : t = tTrue ∨ t = tFalse
  · simp only [c0, ↓reduceIte] at hr ⊢
    exact hr
  simp only [c0, ↓reduceIte] at hr ⊢
  by_cases c1 : t = tByte
  · simp only [c1, ↓reduceIte] at hr ⊢
    exact hr
  simp only [c1, ↓reduceIte] at hr ⊢
  by_cases c2 : t = tInt16
  · simp only [c2, ↓reduceIte] at hr ⊢
    exact hr
  simp only [c2, ↓reduceIte] at hr ⊢
  by_cases c3 : t = tInt32
  · simp only [c3, ↓reduceIte] at hr ⊢
    exact hr
  simp only [c3, ↓reduceIte] at hr ⊢
  by_cases c4 : t = tInt64
  · simp only [c4, ↓reduceIte] at hr ⊢
    exact hr
  simp only [c4, ↓reduceIte] at hr ⊢
  by_cases c5 : t = tUint16
  · simp only [c5, ↓reduceIte] at hr ⊢
    exact hr
  simp only [c5, ↓reduceIte] at hr ⊢
  by_cases c6 : t = tUint32
  · simp only [c6, ↓reduceIte] at hr ⊢
    exact hr
  simp only [c6, ↓reduceIte] at hr ⊢
  by_cases c7 : t = tUint64
  · simp only [c7, ↓reduceIte] at hr ⊢
    exact hr
  simp only [c7, ↓reduceIte] at hr ⊢
  by_cases c8 : t = tBin64
  · simp only [c8, ↓reduceIte] at hr ⊢
    exact hr
  simp only [c8, ↓reduceIte] at hr ⊢
  by_cases c9 : t = tBin128
  · simp only [c9, ↓reduceIte] at hr ⊢
    exact hr
  simp only [c9, ↓reduceIte] at hr ⊢
  by_cases c10 : t = tBin256
  · simp only [c10, ↓reduceIte] at hr ⊢
    exact hr
  simp only [c10, ↓reduceIte] at hr ⊢
  by_cases c11 : t = tFloat32
  · simp only [c11, ↓reduceIte] at hr ⊢
    exact hr
  simp only [c11, ↓reduceIte] at hr ⊢
  by_cases c12 : t = tFloat64
  · simp only [c12, ↓reduceIte] at hr ⊢
    exact hr
  simp only [c12, ↓reduceIte] at hr ⊢
  by_cases c13 : t = tBytes
  · simp only [c13, ↓reduceIte] at hr ⊢
    exact hr
  simp only [c13, ↓reduceIte] at hr ⊢
  by_cases c14 : t = tString
  · simp only [c14, ↓reduceIte] at hr ⊢
    exact hr
  simp only [c14, ↓reduceIte] at hr ⊢
  by_cases c15 : t = tList ∨ t = tBigList
  · simp only [c15, ↓reduceIte] at hr ⊢
    exact guard_congr _ _ _ _ hL' hr hne
  simp only [c15, ↓reduceIte] at hr ⊢
  by_cases c16 : t = tMessage ∨ t = tBigMessage
  · simp only [c16, ↓reduceIte] at hr ⊢
    exact guard_congr _ _ _ _ hM' hr hne
  simp only [c16, ↓reduceIte] at hr ⊢
  by_cases c17 : t = tStruct
  · simp only [c17, ↓reduceIte] at hr ⊢
    exact hr
  simp only [c17, ↓reduceIte] at hr ⊢
  exact hr

theorem parse_mono_all : ∀ f,
    Stable (parseValue F) f ∧ Stable (parseList F) f ∧ Stable (parseMessage F) f := by
  intro f
  induction f with
  | zero =>
    refine ⟨?_, ?_, ?_⟩ <;> intro b r h hne
    · simp only [parseValue] at h; exact absurd h.symm hne
    · simp only [parseList] at h; exact absurd h.symm hne
    · simp only [parseMessage] at h; exact absurd h.symm hne
  | succ f ih =>
    obtain ⟨hV, hL, hM⟩ := ih
    exact ⟨parseValue_mono_step F f hL hM, parseList_mono_step F f hV, parseMessage_mono_step F f hV⟩

/-- Fuel independence: once the parser answers (value or error) the answer is the same for every
larger fuel. -/
theorem parseValue_fuel_mono (f g : Nat) (hfg : f ≤ g) (b : Bytes) (r : Res Nat)
    (h : parseValue F f b = r) (hne : r ≠ .panic) : parseValue F g b = r := by
  induction g with
  | zero => have : f = 0 := by omega
            subst this; exact h
  | succ g ih =>
    by_cases c : f = g + 1
    · subst c; exact h
    · exact (parse_mono_all F g).1 b r (ih (by omega)) hne

end
end SpecVerif
