/-
The writer API program that writes a value tree (`compRoot`: the calls a user of the public API makes,
with the handle numbering of the line protocol) and the proof that running it through the session
model `run` of Writer/Api.lean — the function the differential stream compares with the Go writer
call by call — answers `ok` to every call and returns exactly `Node.enc` of the tree from the final
`Build`. Same mutual induction as Lemmas/WriterRefine.lean, one level up (handles, call indices).
-/
import SpecVerif.Lemmas.WriterRefine
namespace SpecVerif.Writer
open SpecVerif

mutual
/-- the handles a tree creates, in creation order, as they are left behind: list handles stay
usable, message handles are dead after their `End` -/
def Node.handles : Node → List Handle
  | .leaf _ => []
  | .list es => ⟨.L, false⟩ :: es.handles
  | .msg fs => ⟨.M, true⟩ :: fs.handles
def Nodes.handles : Nodes → List Handle
  | .nil => []
  | .cons n ns => n.handles ++ ns.handles
def Flds.handles : Flds → List Handle
  | .nil => []
  | .cons _ n fs => n.handles ++ fs.handles
end

mutual
/-- the calls writing `n` as a child of handle `h` (`k` = number of handles created so far) -/
def compChild (h : Nat) (tag : Option Nat) (k : Nat) : Node → List Call
  | .leaf b => [match tag with | none => Call.e h b | some t => Call.f h t b]
  | .list es =>
    (match tag with | none => Call.elist h | some t => Call.flist h t) :: (compElems k (k + 1) es ++ [Call.end_ k])
  | .msg fs =>
    (match tag with | none => Call.emsg h | some t => Call.fmsg h t) :: (compFlds k (k + 1) fs ++ [Call.end_ k])
def compElems (h k : Nat) : Nodes → List Call
  | .nil => []
  | .cons n ns => compChild h none k n ++ compElems h (k + n.handles.length) ns
def compFlds (h k : Nat) : Flds → List Call
  | .nil => []
  | .cons t n fs => compChild h (some t) k n ++ compFlds h (k + n.handles.length) fs
end

/-- the whole program for a root value -/
def compRoot : Node → List Call
  | .leaf b => [.v b, .vbuild]
  | .list es => Call.list :: (compElems 0 1 es ++ [Call.build 0])
  | .msg fs => Call.msg :: (compFlds 0 1 fs ++ [Call.build 0])

theorem runFrom_append (s : Sess) (idx : Nat) (a b : List Call) :
    runFrom s idx (a ++ b) =
      ((runFrom (runFrom s idx a).1 (idx + a.length) b).1,
       (runFrom s idx a).2 ++ (runFrom (runFrom s idx a).1 (idx + a.length) b).2) := by
  induction a generalizing s idx with
  | nil => simp [runFrom]
  | cons c cs ih =>
    simp only [List.cons_append, runFrom, List.length_cons]
    rw [ih]
    have : idx + 1 + cs.length = idx + (cs.length + 1) := by omega
    rw [this]

theorem runFrom_single (s : Sess) (idx : Nat) (c : Call) :
    runFrom s idx [c] = ((step s idx c).1, [(step s idx c).2]) := by
  simp [runFrom]

theorem runFrom_cons (s : Sess) (idx : Nat) (c : Call) (cs : List Call) :
    runFrom s idx (c :: cs) =
      ((runFrom (step s idx c).1 (idx + 1) cs).1, (step s idx c).2 :: (runFrom (step s idx c).1 (idx + 1) cs).2) := by
  simp [runFrom]

theorem handle_prefix (hs extra : List Handle) (h : Nat) (hd : Handle) (hh : hs[h]? = some hd) :
    (hs ++ extra)[h]? = some hd := by
  have := (List.getElem?_eq_some_iff.mp hh).1
  rw [List.getElem?_append_left this]; exact hh

theorem handle_new (hs : List Handle) (x : Handle) (extra : List Handle) :
    (hs ++ x :: extra)[hs.length]? = some x := by
  simp

/-! ### single calls on a live session -/

/-- the state after a child with bytes `b` was written into the list `l` / the message `m` -/
def addElem (st : WState) (b : Bytes) (l : Entry) : WState :=
  { st with buf := st.buf ++ b, elements := st.elements ++ [(st.buf ++ b).length - l.start] }

def addFld (st : WState) (b : Bytes) (tag : Nat) (m : Entry) : WState :=
  { st with buf := st.buf ++ b,
            fields := st.fields.take m.tableStart ++
              insertField (tag, (st.buf ++ b).length - m.start) (st.fields.drop m.tableStart) }

/-- the state after a container was begun under the marker entry `mk` -/
def opened (st : WState) (base : List Entry) (p mk c : Entry) : WState :=
  { st with stack := base ++ [p, mk] ++ [c] }

/-- the session after a sub-program: writer state `st'`, new handles appended, nothing built -/
def After (s : Sess) (st' : WState) (hs : List Handle) : Sess :=
  { s with w := setSt s.w st', handles := s.handles ++ hs }

@[simp] theorem After_w (s : Sess) (st' : WState) (hs : List Handle) : (After s st' hs).w = setSt s.w st' := rfl
@[simp] theorem After_handles (s : Sess) (st' : WState) (hs : List Handle) :
    (After s st' hs).handles = s.handles ++ hs := rfl
@[simp] theorem After_built (s : Sess) (st' : WState) (hs : List Handle) : (After s st' hs).built = s.built := rfl
theorem After_After (s : Sess) (a b : WState) (h1 h2 : List Handle) :
    After (After s a h1) b h2 = After s b (h1 ++ h2) := by
  simp [After]

theorem step_e (s : Sess) (idx h : Nat) (enc : Bytes) (st : WState) (base : List Entry) (l : Entry)
    (he : s.w.err = none) (hs : s.w.st = some st) (hst : st.stack = base ++ [l]) (hl : l.type_ = .list)
    (hh : s.handles[h]? = some ⟨.L, false⟩) :
    step s idx (.e h enc) =
      ({ s with w := setSt s.w (addElem st enc l) }, .ok) := by
  unfold step getHandle onHandle addElem
  simp only [hh, ↓reduceIte, Bool.false_eq_true]
  rw [writeValue_live s.w st idx enc base l he hs hst (by rw [hl]; simp)]
  simp only
  rw [element_live (setSt s.w _) _ idx base l st.buf.length (st.buf ++ enc).length (by simpa using he) rfl rfl hl]
  simp [hst]

theorem step_f (s : Sess) (idx h tag : Nat) (enc : Bytes) (st : WState) (base : List Entry) (m : Entry)
    (he : s.w.err = none) (hs : s.w.st = some st) (hst : st.stack = base ++ [m]) (hm : m.type_ = .message)
    (hts : m.tableStart ≤ st.fields.length) (hh : s.handles[h]? = some ⟨.M, false⟩) :
    step s idx (.f h tag enc) =
      ({ s with w := setSt s.w (addFld st enc tag m) }, .ok) := by
  unfold step getHandle onHandle addFld
  simp only [hh, ↓reduceIte, Bool.false_eq_true]
  rw [writeValue_live s.w st idx enc base m he hs hst (by rw [hm]; simp)]
  simp only
  rw [field_live (setSt s.w _) _ idx tag base m st.buf.length (st.buf ++ enc).length (by simpa using he) rfl rfl hm
    (by exact hts)]
  simp [hst]

theorem step_elist (s : Sess) (idx h : Nat) (st : WState) (base : List Entry) (l : Entry)
    (he : s.w.err = none) (hs : s.w.st = some st) (hst : st.stack = base ++ [l]) (hl : l.type_ = .list)
    (hh : s.handles[h]? = some ⟨.L, false⟩) :
    step s idx (.elist h) =
      (After s (opened st base l ⟨st.buf.length, 0, .element⟩ ⟨st.buf.length, st.elements.length, .list⟩) [⟨.L, false⟩], .ok) := by
  unfold step getHandle addHandle opened After
  simp only [hh, ↓reduceIte, Bool.false_eq_true]
  rw [beginElement_live s.w st idx base l he hs hst hl]
  rw [beginList_live (setSt s.w _) _ (by simpa using he) rfl]
  simp

theorem step_emsg (s : Sess) (idx h : Nat) (st : WState) (base : List Entry) (l : Entry)
    (he : s.w.err = none) (hs : s.w.st = some st) (hst : st.stack = base ++ [l]) (hl : l.type_ = .list)
    (hh : s.handles[h]? = some ⟨.L, false⟩) :
    step s idx (.emsg h) =
      (After s (opened st base l ⟨st.buf.length, 0, .element⟩ ⟨st.buf.length, st.fields.length, .message⟩) [⟨.M, false⟩], .ok) := by
  unfold step getHandle addHandle opened After
  simp only [hh, ↓reduceIte, Bool.false_eq_true]
  rw [beginElement_live s.w st idx base l he hs hst hl]
  rw [beginMessage_live (setSt s.w _) _ (by simpa using he) rfl]
  simp

theorem step_flist (s : Sess) (idx h tag : Nat) (st : WState) (base : List Entry) (m : Entry)
    (he : s.w.err = none) (hs : s.w.st = some st) (hst : st.stack = base ++ [m]) (hm : m.type_ = .message)
    (hh : s.handles[h]? = some ⟨.M, false⟩) :
    step s idx (.flist h tag) =
      (After s (opened st base m ⟨st.buf.length, tag, .field⟩ ⟨st.buf.length, st.elements.length, .list⟩) [⟨.L, false⟩], .ok) := by
  unfold step getHandle addHandle opened After
  simp only [hh, ↓reduceIte, Bool.false_eq_true]
  rw [beginField_live s.w st idx tag base m he hs hst hm]
  rw [beginList_live (setSt s.w _) _ (by simpa using he) rfl]
  simp

theorem step_fmsg (s : Sess) (idx h tag : Nat) (st : WState) (base : List Entry) (m : Entry)
    (he : s.w.err = none) (hs : s.w.st = some st) (hst : st.stack = base ++ [m]) (hm : m.type_ = .message)
    (hh : s.handles[h]? = some ⟨.M, false⟩) :
    step s idx (.fmsg h tag) =
      (After s (opened st base m ⟨st.buf.length, tag, .field⟩ ⟨st.buf.length, st.fields.length, .message⟩) [⟨.M, false⟩], .ok) := by
  unfold step getHandle addHandle opened After
  simp only [hh, ↓reduceIte, Bool.false_eq_true]
  rw [beginField_live s.w st idx tag base m he hs hst hm]
  rw [beginMessage_live (setSt s.w _) _ (by simpa using he) rfl]
  simp


/-- `End` through a live handle when the writer's `end` succeeds -/
theorem step_end_ok (s : Sess) (idx k : Nat) (hd : Handle) (w' : W) (b : Bytes)
    (hh : s.handles[k]? = some hd) (hdead : hd.dead = false) (hend : end_ s.w idx = (w', .built b)) :
    step s idx (.end_ k) =
      ((if hd.kind = .M then killHandle { s with w := w' } k else { s with w := w' }), .ok) := by
  unfold step onHandle
  simp only [hh, hdead, Bool.false_eq_true, ↓reduceIte, hend]

theorem step_build_ok (s : Sess) (idx k : Nat) (hd : Handle) (w' : W) (b : Bytes)
    (hh : s.handles[k]? = some hd) (hdead : hd.dead = false) (hend : end_ s.w idx = (w', .built b)) :
    (step s idx (.build k)).2 = .built b ∧ (step s idx (.build k)).1.built = some b := by
  unfold step onHandle
  simp only [hh, hdead, Bool.false_eq_true, ↓reduceIte, hend]
  constructor
  · trivial
  · split <;> simp [recordBuilt, killHandle]

def AllOk (os : List Out) : Prop := ∀ o ∈ os, o = .ok

theorem AllOk_nil : AllOk [] := by intro o ho; cases ho
theorem AllOk_cons (os : List Out) (h : AllOk os) : AllOk (.ok :: os) := by
  intro o ho; simp at ho; rcases ho with h1 | h1
  · exact h1
  · exact h o h1
theorem AllOk_append (a b : List Out) (ha : AllOk a) (hb : AllOk b) : AllOk (a ++ b) := by
  intro o ho; simp at ho; rcases ho with h1 | h1
  · exact ha o h1
  · exact hb o h1

theorem set_new (hs : List Handle) (x y : Handle) (extra : List Handle) :
    (hs ++ x :: extra).set hs.length y = hs ++ y :: extra := by
  induction hs with
  | nil => rfl
  | cons a t ih => simp [ih]

mutual
theorem runChild_elem : (n : Node) → (s : Sess) → (idx h k : Nat) → (st : WState) → (base : List Entry) →
    (l : Entry) → s.w.err = none → s.w.st = some st → st.stack = base ++ [l] → l.type_ = .list →
    s.handles[h]? = some ⟨.L, false⟩ → s.handles.length = k →
    ∃ st', (runFrom s idx (compChild h none k n)).1 = After s st' n.handles ∧
      st'.buf = st.buf ++ n.enc ∧ st'.stack = st.stack ∧
      st'.elements = st.elements ++ [(st.buf ++ n.enc).length - l.start] ∧ st'.fields = st.fields ∧
      AllOk (runFrom s idx (compChild h none k n)).2
  | .leaf b, s, idx, h, k, st, base, l, he, hs, hst, hl, hh, hk => by
    unfold compChild
    simp only
    rw [runFrom_single, step_e s idx h b st base l he hs hst hl hh]
    exact ⟨addElem st b l, by simp [After, Node.handles], rfl, rfl, rfl, rfl, AllOk_cons _ AllOk_nil⟩
  | .list es, s, idx, h, k, st, base, l, he, hs, hst, hl, hh, hk => by
    obtain ⟨st2, hrun, hb2, hst2, hel2, hf2, hok⟩ := runElems es
      (After s (opened st base l ⟨st.buf.length, 0, .element⟩ ⟨st.buf.length, st.elements.length, .list⟩) [⟨.L, false⟩])
      (idx + 1) k (k + 1)
      (opened st base l ⟨st.buf.length, 0, .element⟩ ⟨st.buf.length, st.elements.length, .list⟩)
      (base ++ [l, ⟨st.buf.length, 0, .element⟩]) ⟨st.buf.length, st.elements.length, .list⟩
      (by simpa using he) rfl rfl rfl (Nat.le_refl _) (by rw [← hk]; simp) (by simp [hk])
    have hend := end_list_in_element (setSt s.w st2) st2 (idx + 1 + (compElems k (k + 1) es).length)
      base l st.buf es.encs.flatten st.elements (endOffsets 0 es.encs)
      (by simpa using he) rfl (by rw [hst2]; simp [opened]) hl (by rw [hb2]; rfl)
      (by rw [hel2]; simp [opened])
    unfold compChild
    simp only
    rw [runFrom_cons, step_elist s idx h st base l he hs hst hl hh]
    simp only
    rw [runFrom_append, runFrom_single]
    simp only
    rw [hrun, After_After]
    rw [step_end_ok _ _ k ⟨.L, false⟩ _ _ (by simp [← hk]) rfl (by simpa using hend)]
    refine ⟨⟨st.buf ++ (es.encs.flatten ++ listTrailer es.encs.flatten.length (endOffsets 0 es.encs)), base ++ [l],
      st.elements ++ [(st.buf ++ (es.encs.flatten ++ listTrailer es.encs.flatten.length (endOffsets 0 es.encs))).length - l.start],
      st2.fields⟩, ?_, ?_, hst.symm, ?_, ?_, ?_⟩
    · simp [After, Node.handles]
    · show st.buf ++ (_ ++ listTrailer _ _) = st.buf ++ encList es.encs
      rw [listTrailer_enc]
    · show st.elements ++ [(st.buf ++ (_ ++ listTrailer _ _)).length - l.start] =
        st.elements ++ [(st.buf ++ encList es.encs).length - l.start]
      rw [listTrailer_enc]
    · simp [hf2, opened]
    · exact AllOk_cons _ (AllOk_append _ _ hok (AllOk_cons _ AllOk_nil))
  | .msg fs, s, idx, h, k, st, base, l, he, hs, hst, hl, hh, hk => by
    obtain ⟨st2, hrun, hb2, hst2, hel2, hf2, hok⟩ := runFlds fs
      (After s (opened st base l ⟨st.buf.length, 0, .element⟩ ⟨st.buf.length, st.fields.length, .message⟩) [⟨.M, false⟩])
      (idx + 1) k (k + 1)
      (opened st base l ⟨st.buf.length, 0, .element⟩ ⟨st.buf.length, st.fields.length, .message⟩)
      (base ++ [l, ⟨st.buf.length, 0, .element⟩]) ⟨st.buf.length, st.fields.length, .message⟩
      (by simpa using he) rfl rfl rfl (Nat.le_refl _) (Nat.le_refl _) (by rw [← hk]; simp) (by simp [hk])
    have hend := end_msg_in_element (setSt s.w st2) st2 (idx + 1 + (compFlds k (k + 1) fs).length)
      base l st.buf (fs.encs.map (·.2)).flatten st.fields
      (sortedEntries ((fs.encs.map (·.1)).zip (endOffsets 0 (fs.encs.map (·.2)))))
      (by simpa using he) rfl (by rw [hst2]; simp [opened]) hl (by rw [hb2]; rfl)
      (by rw [hf2]; simp [opened, sortedEntries])
    unfold compChild
    simp only
    rw [runFrom_cons, step_emsg s idx h st base l he hs hst hl hh]
    simp only
    rw [runFrom_append, runFrom_single]
    simp only
    rw [hrun, After_After]
    rw [step_end_ok _ _ k ⟨.M, false⟩ _ _ (by simp [← hk]) rfl hend]
    refine ⟨⟨st.buf ++ ((fs.encs.map (·.2)).flatten ++ msgTrailer (fs.encs.map (·.2)).flatten.length
        (sortedEntries ((fs.encs.map (·.1)).zip (endOffsets 0 (fs.encs.map (·.2)))))), base ++ [l],
      st2.elements ++ [(st.buf ++ ((fs.encs.map (·.2)).flatten ++ msgTrailer (fs.encs.map (·.2)).flatten.length
        (sortedEntries ((fs.encs.map (·.1)).zip (endOffsets 0 (fs.encs.map (·.2))))))).length - l.start],
      st.fields⟩, ?_, ?_, hst.symm, ?_, rfl, ?_⟩
    · simp only [↓reduceIte, killHandle, After, Node.handles, setSt_setSt]
      rw [← hk]
      simp only [List.singleton_append, set_new]
    · show st.buf ++ (_ ++ msgTrailer _ _) = st.buf ++ encMsg fs.encs
      rw [msgTrailer_enc]
    · show st2.elements ++ [(st.buf ++ (_ ++ msgTrailer _ _)).length - l.start] =
        st.elements ++ [(st.buf ++ encMsg fs.encs).length - l.start]
      rw [msgTrailer_enc, hel2]; rfl
    · exact AllOk_cons _ (AllOk_append _ _ hok (AllOk_cons _ AllOk_nil))

theorem runChild_fld : (n : Node) → (s : Sess) → (idx h k tag : Nat) → (st : WState) → (base : List Entry) →
    (m : Entry) → s.w.err = none → s.w.st = some st → st.stack = base ++ [m] → m.type_ = .message →
    m.tableStart ≤ st.fields.length →
    s.handles[h]? = some ⟨.M, false⟩ → s.handles.length = k →
    ∃ st', (runFrom s idx (compChild h (some tag) k n)).1 = After s st' n.handles ∧
      st'.buf = st.buf ++ n.enc ∧ st'.stack = st.stack ∧ st'.elements = st.elements ∧
      st'.fields = st.fields.take m.tableStart ++
        insertField (tag, (st.buf ++ n.enc).length - m.start) (st.fields.drop m.tableStart) ∧
      AllOk (runFrom s idx (compChild h (some tag) k n)).2
  | .leaf b, s, idx, h, k, tag, st, base, m, he, hs, hst, hm, hts, hh, hk => by
    unfold compChild
    simp only
    rw [runFrom_single, step_f s idx h tag b st base m he hs hst hm hts hh]
    exact ⟨addFld st b tag m, by simp [After, Node.handles], rfl, rfl, rfl, rfl, AllOk_cons _ AllOk_nil⟩
  | .list es, s, idx, h, k, tag, st, base, m, he, hs, hst, hm, hts, hh, hk => by
    obtain ⟨st2, hrun, hb2, hst2, hel2, hf2, hok⟩ := runElems es
      (After s (opened st base m ⟨st.buf.length, tag, .field⟩ ⟨st.buf.length, st.elements.length, .list⟩) [⟨.L, false⟩])
      (idx + 1) k (k + 1)
      (opened st base m ⟨st.buf.length, tag, .field⟩ ⟨st.buf.length, st.elements.length, .list⟩)
      (base ++ [m, ⟨st.buf.length, tag, .field⟩]) ⟨st.buf.length, st.elements.length, .list⟩
      (by simpa using he) rfl rfl rfl (Nat.le_refl _) (by rw [← hk]; simp) (by simp [hk])
    have hend := end_list_in_field (setSt s.w st2) st2 (idx + 1 + (compElems k (k + 1) es).length) tag
      base m st.buf es.encs.flatten st.elements (endOffsets 0 es.encs)
      (by simpa using he) rfl (by rw [hst2]; simp [opened]) hm (by rw [hf2]; exact hts) (by rw [hb2]; rfl)
      (by rw [hel2]; simp [opened])
    unfold compChild
    simp only
    rw [runFrom_cons, step_flist s idx h tag st base m he hs hst hm hh]
    simp only
    rw [runFrom_append, runFrom_single]
    simp only
    rw [hrun, After_After]
    rw [step_end_ok _ _ k ⟨.L, false⟩ _ _ (by simp [← hk]) rfl (by simpa using hend)]
    refine ⟨⟨st.buf ++ (es.encs.flatten ++ listTrailer es.encs.flatten.length (endOffsets 0 es.encs)), base ++ [m],
      st.elements,
      st2.fields.take m.tableStart ++ insertField (tag, (st.buf ++ (es.encs.flatten ++
        listTrailer es.encs.flatten.length (endOffsets 0 es.encs))).length - m.start) (st2.fields.drop m.tableStart)⟩,
      ?_, ?_, hst.symm, rfl, ?_, ?_⟩
    · simp [After, Node.handles]
    · show st.buf ++ (_ ++ listTrailer _ _) = st.buf ++ encList es.encs
      rw [listTrailer_enc]
    · show st2.fields.take m.tableStart ++ insertField (tag, (st.buf ++ (_ ++ listTrailer _ _)).length - m.start)
          (st2.fields.drop m.tableStart) =
        st.fields.take m.tableStart ++ insertField (tag, (st.buf ++ encList es.encs).length - m.start)
          (st.fields.drop m.tableStart)
      rw [listTrailer_enc, hf2]; rfl
    · exact AllOk_cons _ (AllOk_append _ _ hok (AllOk_cons _ AllOk_nil))
  | .msg fs, s, idx, h, k, tag, st, base, m, he, hs, hst, hm, hts, hh, hk => by
    obtain ⟨st2, hrun, hb2, hst2, hel2, hf2, hok⟩ := runFlds fs
      (After s (opened st base m ⟨st.buf.length, tag, .field⟩ ⟨st.buf.length, st.fields.length, .message⟩) [⟨.M, false⟩])
      (idx + 1) k (k + 1)
      (opened st base m ⟨st.buf.length, tag, .field⟩ ⟨st.buf.length, st.fields.length, .message⟩)
      (base ++ [m, ⟨st.buf.length, tag, .field⟩]) ⟨st.buf.length, st.fields.length, .message⟩
      (by simpa using he) rfl rfl rfl (Nat.le_refl _) (Nat.le_refl _) (by rw [← hk]; simp) (by simp [hk])
    have hend := end_msg_in_field (setSt s.w st2) st2 (idx + 1 + (compFlds k (k + 1) fs).length) tag
      base m st.buf (fs.encs.map (·.2)).flatten st.fields
      (sortedEntries ((fs.encs.map (·.1)).zip (endOffsets 0 (fs.encs.map (·.2)))))
      (by simpa using he) rfl (by rw [hst2]; simp [opened]) hm hts (by rw [hb2]; rfl)
      (by rw [hf2]; simp [opened, sortedEntries])
    unfold compChild
    simp only
    rw [runFrom_cons, step_fmsg s idx h tag st base m he hs hst hm hh]
    simp only
    rw [runFrom_append, runFrom_single]
    simp only
    rw [hrun, After_After]
    rw [step_end_ok _ _ k ⟨.M, false⟩ _ _ (by simp [← hk]) rfl hend]
    refine ⟨⟨st.buf ++ ((fs.encs.map (·.2)).flatten ++ msgTrailer (fs.encs.map (·.2)).flatten.length
        (sortedEntries ((fs.encs.map (·.1)).zip (endOffsets 0 (fs.encs.map (·.2)))))), base ++ [m],
      st2.elements,
      st.fields.take m.tableStart ++ insertField (tag, (st.buf ++ ((fs.encs.map (·.2)).flatten ++
        msgTrailer (fs.encs.map (·.2)).flatten.length
        (sortedEntries ((fs.encs.map (·.1)).zip (endOffsets 0 (fs.encs.map (·.2))))))).length - m.start)
        (st.fields.drop m.tableStart)⟩,
      ?_, ?_, hst.symm, ?_, ?_, ?_⟩
    · simp only [↓reduceIte, killHandle, After, Node.handles, setSt_setSt]
      rw [← hk]
      simp only [List.singleton_append, set_new]
    · show st.buf ++ (_ ++ msgTrailer _ _) = st.buf ++ encMsg fs.encs
      rw [msgTrailer_enc]
    · show st2.elements = st.elements
      rw [hel2]; rfl
    · show st.fields.take m.tableStart ++ insertField (tag, (st.buf ++ (_ ++ msgTrailer _ _)).length - m.start)
          (st.fields.drop m.tableStart) =
        st.fields.take m.tableStart ++ insertField (tag, (st.buf ++ encMsg fs.encs).length - m.start)
          (st.fields.drop m.tableStart)
      rw [msgTrailer_enc]
    · exact AllOk_cons _ (AllOk_append _ _ hok (AllOk_cons _ AllOk_nil))

theorem runElems : (ns : Nodes) → (s : Sess) → (idx h k : Nat) → (st : WState) → (base : List Entry) →
    (l : Entry) → s.w.err = none → s.w.st = some st → st.stack = base ++ [l] → l.type_ = .list →
    l.start ≤ st.buf.length → s.handles[h]? = some ⟨.L, false⟩ → s.handles.length = k →
    ∃ st', (runFrom s idx (compElems h k ns)).1 = After s st' ns.handles ∧
      st'.buf = st.buf ++ ns.encs.flatten ∧ st'.stack = st.stack ∧
      st'.elements = st.elements ++ endOffsets (st.buf.length - l.start) ns.encs ∧ st'.fields = st.fields ∧
      AllOk (runFrom s idx (compElems h k ns)).2
  | .nil, s, idx, h, k, st, base, l, he, hs, hst, hl, hle, hh, hk => by
    refine ⟨st, ?_, by simp [Nodes.encs], rfl, by simp [Nodes.encs, endOffsets], rfl, ?_⟩
    · unfold compElems
      simp only [runFrom, After, Nodes.handles, List.append_nil, setSt]
      cases s with
      | mk w hs' b => cases w; simp_all
    · unfold compElems; simp [runFrom, AllOk]
  | .cons n ns, s, idx, h, k, st, base, l, he, hs, hst, hl, hle, hh, hk => by
    obtain ⟨st1, hrun1, hb1, hst1, hel1, hf1, hok1⟩ :=
      runChild_elem n s idx h k st base l he hs hst hl hh hk
    obtain ⟨st2, hrun2, hb2, hst2, hel2, hf2, hok2⟩ :=
      runElems ns (After s st1 n.handles) (idx + (compChild h none k n).length) h (k + n.handles.length)
        st1 base l (by simpa using he) rfl (by rw [hst1]; exact hst) hl
        (by rw [hb1]; simp only [List.length_append]; omega)
        (handle_prefix _ _ _ _ hh) (by simp [hk])
    unfold compElems
    rw [runFrom_append]
    simp only
    rw [hrun1, hrun2, After_After]
    refine ⟨st2, by simp [Nodes.handles], ?_, by rw [hst2, hst1], ?_, by rw [hf2, hf1], AllOk_append _ _ hok1 hok2⟩
    · rw [hb2, hb1]; simp [Nodes.encs]
    · rw [hel2, hel1, hb1]
      simp only [Nodes.encs, endOffsets, List.length_append, List.append_assoc, List.singleton_append]
      have : st.buf.length + n.enc.length - l.start = st.buf.length - l.start + n.enc.length := by omega
      rw [this]

theorem runFlds : (fs : Flds) → (s : Sess) → (idx h k : Nat) → (st : WState) → (base : List Entry) →
    (m : Entry) → s.w.err = none → s.w.st = some st → st.stack = base ++ [m] → m.type_ = .message →
    m.start ≤ st.buf.length → m.tableStart ≤ st.fields.length →
    s.handles[h]? = some ⟨.M, false⟩ → s.handles.length = k →
    ∃ st', (runFrom s idx (compFlds h k fs)).1 = After s st' fs.handles ∧
      st'.buf = st.buf ++ (fs.encs.map (·.2)).flatten ∧ st'.stack = st.stack ∧
      st'.elements = st.elements ∧
      st'.fields = st.fields.take m.tableStart ++
        ((fs.encs.map (·.1)).zip (endOffsets (st.buf.length - m.start) (fs.encs.map (·.2)))).foldl
          (fun acc f => insertField f acc) (st.fields.drop m.tableStart) ∧
      AllOk (runFrom s idx (compFlds h k fs)).2
  | .nil, s, idx, h, k, st, base, m, he, hs, hst, hm, hle, hts, hh, hk => by
    refine ⟨st, ?_, by simp [Flds.encs], rfl, rfl, by simp [Flds.encs, endOffsets], ?_⟩
    · unfold compFlds
      simp only [runFrom, After, Flds.handles, List.append_nil, setSt]
      cases s with
      | mk w hs' b => cases w; simp_all
    · unfold compFlds; simp [runFrom, AllOk]
  | .cons t n fs, s, idx, h, k, st, base, m, he, hs, hst, hm, hle, hts, hh, hk => by
    obtain ⟨st1, hrun1, hb1, hst1, hel1, hf1, hok1⟩ :=
      runChild_fld n s idx h k t st base m he hs hst hm hts hh hk
    have hp := take_pre st.fields m.tableStart
      (insertField (t, (st.buf ++ n.enc).length - m.start) (st.fields.drop m.tableStart)) hts
    obtain ⟨st2, hrun2, hb2, hst2, hel2, hf2, hok2⟩ :=
      runFlds fs (After s st1 n.handles) (idx + (compChild h (some t) k n).length) h (k + n.handles.length)
        st1 base m (by simpa using he) rfl (by rw [hst1]; exact hst) hm
        (by rw [hb1]; simp only [List.length_append]; omega)
        (by rw [hf1]; simp only [List.length_append, List.length_take]; omega)
        (handle_prefix _ _ _ _ hh) (by simp [hk])
    unfold compFlds
    rw [runFrom_append]
    simp only
    rw [hrun1, hrun2, After_After]
    refine ⟨st2, by simp [Flds.handles], ?_, by rw [hst2, hst1], by rw [hel2, hel1], ?_, AllOk_append _ _ hok1 hok2⟩
    · rw [hb2, hb1]; simp [Flds.encs]
    · rw [hf2, hf1, hp.1, hp.2, hb1]
      simp only [Flds.encs, List.map_cons, endOffsets, List.length_append, List.zip_cons_cons, List.foldl_cons]
      have : st.buf.length + n.enc.length - m.start = st.buf.length - m.start + n.enc.length := by omega
      rw [this]
end


/-- what a program answered: `ok` to every call, then the bytes from the final `Build` -/
def BuiltLast (r : Sess × List Out) (b : Bytes) : Prop :=
  r.1.built = some b ∧ ∃ oks, r.2 = oks ++ [.built b] ∧ AllOk oks

theorem run_leaf (b buf : Bytes) : BuiltLast (run (compRoot (.leaf b)) buf) b := by
  unfold compRoot run Sess.init
  rw [runFrom_cons, runFrom_single]
  have h1 : step ⟨fresh buf, [], none⟩ 0 (.v b) =
      (⟨setSt (fresh buf) ⟨buf ++ b, [⟨buf.length, (buf ++ b).length, .data⟩], [], []⟩, [], none⟩, .ok) := by
    unfold step
    simp only
    rw [writeValue_root (fresh buf) ⟨buf, [], [], []⟩ 0 b rfl rfl rfl]
  have h2 := end_value_root (setSt (fresh buf) ⟨buf ++ b, [⟨buf.length, (buf ++ b).length, .data⟩], [], []⟩)
    _ (0 + 1) buf b rfl rfl rfl rfl
  rw [h1]
  simp only
  have h3 : ∀ s : Sess, ∀ idx : Nat, (end_ s.w idx).2 = .built b →
      (step s idx .vbuild).2 = .built b ∧ (step s idx .vbuild).1.built = some b := by
    intro s idx h
    unfold step
    simp only
    generalize end_ s.w idx = r at h
    obtain ⟨w1, o⟩ := r
    simp only at h
    subst h
    simp [recordBuilt]
  obtain ⟨ha, hb⟩ := h3 ⟨setSt (fresh buf) ⟨buf ++ b, [⟨buf.length, (buf ++ b).length, .data⟩], [], []⟩, [], none⟩ (0 + 1) h2
  exact ⟨hb, [.ok], by rw [ha]; rfl, AllOk_cons _ AllOk_nil⟩

theorem run_list (es : Nodes) (buf : Bytes) : BuiltLast (run (compRoot (.list es)) buf) (Node.list es).enc := by
  unfold compRoot run Sess.init
  rw [runFrom_cons]
  have h1 : step ⟨fresh buf, [], none⟩ 0 .list =
      (After ⟨fresh buf, [], none⟩ ⟨buf, [⟨buf.length, 0, .list⟩], [], []⟩ [⟨.L, false⟩], .ok) := by
    unfold step addHandle After
    simp only
    rw [beginList_live (fresh buf) ⟨buf, [], [], []⟩ rfl rfl]
    rfl
  rw [h1]
  simp only
  obtain ⟨st2, hrun, hb2, hst2, hel2, hf2, hok⟩ := runElems es
    (After ⟨fresh buf, [], none⟩ ⟨buf, [⟨buf.length, 0, .list⟩], [], []⟩ [⟨.L, false⟩]) (0 + 1) 0 1
    ⟨buf, [⟨buf.length, 0, .list⟩], [], []⟩ [] ⟨buf.length, 0, .list⟩ rfl rfl rfl rfl (Nat.le_refl _) rfl rfl
  rw [runFrom_append, runFrom_single]
  simp only
  rw [hrun, After_After]
  have hend := end_list_root (setSt (fresh buf) st2) st2 (0 + 1 + (compElems 0 1 es).length) buf es.encs.flatten []
    (endOffsets 0 es.encs) rfl rfl (hst2.trans rfl) (hb2.trans rfl) (by rw [hel2]; simp)
  rw [listTrailer_enc] at hend
  generalize hr : end_ (setSt (fresh buf) st2) (0 + 1 + (compElems 0 1 es).length) = r at hend
  obtain ⟨w', o⟩ := r
  simp only at hend
  subst hend
  obtain ⟨ha, hb⟩ := step_build_ok
    (After ⟨fresh buf, [], none⟩ st2 ([⟨.L, false⟩] ++ es.handles)) (0 + 1 + (compElems 0 1 es).length) 0 ⟨.L, false⟩
    w' (encList es.encs) rfl rfl hr
  exact ⟨hb, _, by rw [ha]; rfl, AllOk_cons _ hok⟩

theorem run_msg (fs : Flds) (buf : Bytes) : BuiltLast (run (compRoot (.msg fs)) buf) (Node.msg fs).enc := by
  unfold compRoot run Sess.init
  rw [runFrom_cons]
  have h1 : step ⟨fresh buf, [], none⟩ 0 .msg =
      (After ⟨fresh buf, [], none⟩ ⟨buf, [⟨buf.length, 0, .message⟩], [], []⟩ [⟨.M, false⟩], .ok) := by
    unfold step addHandle After
    simp only
    rw [beginMessage_live (fresh buf) ⟨buf, [], [], []⟩ rfl rfl]
    rfl
  rw [h1]
  simp only
  obtain ⟨st2, hrun, hb2, hst2, hel2, hf2, hok⟩ := runFlds fs
    (After ⟨fresh buf, [], none⟩ ⟨buf, [⟨buf.length, 0, .message⟩], [], []⟩ [⟨.M, false⟩]) (0 + 1) 0 1
    ⟨buf, [⟨buf.length, 0, .message⟩], [], []⟩ [] ⟨buf.length, 0, .message⟩ rfl rfl rfl rfl (Nat.le_refl _)
    (Nat.le_refl _) rfl rfl
  rw [runFrom_append, runFrom_single]
  simp only
  rw [hrun, After_After]
  have hend := end_msg_root (setSt (fresh buf) st2) st2 (0 + 1 + (compFlds 0 1 fs).length) buf
    (fs.encs.map (·.2)).flatten []
    (sortedEntries ((fs.encs.map (·.1)).zip (endOffsets 0 (fs.encs.map (·.2))))) rfl rfl (hst2.trans rfl) (hb2.trans rfl)
    (by rw [hf2]; simp [sortedEntries])
  rw [msgTrailer_enc] at hend
  generalize hr : end_ (setSt (fresh buf) st2) (0 + 1 + (compFlds 0 1 fs).length) = r at hend
  obtain ⟨w', o⟩ := r
  simp only at hend
  subst hend
  obtain ⟨ha, hb⟩ := step_build_ok
    (After ⟨fresh buf, [], none⟩ st2 ([⟨.M, false⟩] ++ fs.handles)) (0 + 1 + (compFlds 0 1 fs).length) 0 ⟨.M, false⟩
    w' (encMsg fs.encs) rfl rfl hr
  exact ⟨hb, _, by rw [ha]; rfl, AllOk_cons _ hok⟩

/-- the writer API, driven by the program of any value tree into a writer with any initial buffer
content, answers `ok` to every call and returns exactly the layout bytes of the tree -/
theorem run_compRoot (n : Node) (buf : Bytes) : BuiltLast (run (compRoot n) buf) n.enc := by
  cases n with
  | leaf b => exact run_leaf b buf
  | list es => exact run_list es buf
  | msg fs => exact run_msg fs buf

end SpecVerif.Writer
