/-
The writer state machine refines the pinned layout: emitting a value tree through the operations of
Writer/Model.lean (beginList / beginMessage / beginElement / beginField / writeValue / element /
field / end) appends exactly `enc` of the tree — `encList` / `encMsg` of the encoded children — to
the buffer, restores the stack and records the child in the parent's table. By mutual structural
induction over trees of every shape, width and depth.
-/
import SpecVerif.Writer.Api
import SpecVerif.Lemmas.MsgTable
namespace SpecVerif.Writer
open SpecVerif

mutual
/-- a value tree: leaves carry their encoded bytes (any scalar / string / bytes / struct value) -/
inductive Node where
  | leaf (b : Bytes)
  | list (es : Nodes)
  | msg (fs : Flds)
inductive Nodes where
  | nil
  | cons (n : Node) (ns : Nodes)
inductive Flds where
  | nil
  | cons (tag : Nat) (n : Node) (fs : Flds)
end

mutual
/-- the bytes the layout prescribes for a tree -/
def Node.enc : Node → Bytes
  | .leaf b => b
  | .list es => encList es.encs
  | .msg fs => encMsg fs.encs
def Nodes.encs : Nodes → List Bytes
  | .nil => []
  | .cons n ns => n.enc :: ns.encs
def Flds.encs : Flds → List (Nat × Bytes)
  | .nil => []
  | .cons t n fs => (t, n.enc) :: fs.encs
end

/-! ### emission through the state machine (`idx` only names errors) -/

mutual
/-- a child of a list (`tag = none`) or of a message (`tag = some t`) -/
def emitChild (idx : Nat) (tag : Option Nat) : Node → W → W
  | .leaf b, w =>
    let w1 := (writeValue w idx b).1
    match tag with
    | none => (element w1 idx).1
    | some t => (field w1 idx t).1
  | .list es, w =>
    let w1 := match tag with
      | none => beginElement w idx
      | some t => beginField w idx t
    (end_ (emitElems idx es (beginList w1)) idx).1
  | .msg fs, w =>
    let w1 := match tag with
      | none => beginElement w idx
      | some t => beginField w idx t
    (end_ (emitFlds idx fs (beginMessage w1)) idx).1
def emitElems (idx : Nat) : Nodes → W → W
  | .nil, w => w
  | .cons n ns, w => emitElems idx ns (emitChild idx none n w)
def emitFlds (idx : Nat) : Flds → W → W
  | .nil, w => w
  | .cons t n fs, w => emitFlds idx fs (emitChild idx (some t) n w)
end

/-- a root value: the final `End`/`Build` returns the bytes -/
def emitRoot (idx : Nat) : Node → W → W × Out
  | .leaf b, w => end_ (writeValue w idx b).1 idx
  | .list es, w => end_ (emitElems idx es (beginList w)) idx
  | .msg fs, w => end_ (emitFlds idx fs (beginMessage w)) idx

/-! ### single operations on a live writer with a known stack -/

def setSt (w : W) (s : WState) : W := { w with st := some s }

@[simp] theorem setSt_err (w : W) (s : WState) : (setSt w s).err = w.err := rfl
@[simp] theorem setSt_st (w : W) (s : WState) : (setSt w s).st = some s := rfl
@[simp] theorem setSt_setSt (w : W) (s t : WState) : setSt (setSt w s) t = setSt w t := rfl

theorem getLast?_snoc {α : Type} (l : List α) (x : α) : (l ++ [x]).getLast? = some x := by simp
theorem dropLast_snoc {α : Type} (l : List α) (x : α) : (l ++ [x]).dropLast = l := by simp

theorem writeValue_live (w : W) (s : WState) (idx : Nat) (enc : Bytes) (base : List Entry) (p : Entry)
    (he : w.err = none) (hs : w.st = some s) (hst : s.stack = base ++ [p]) (hp : p.type_ ≠ .data) :
    writeValue w idx enc =
      (setSt w { s with buf := s.buf ++ enc,
                        stack := base ++ [p, ⟨s.buf.length, (s.buf ++ enc).length, .data⟩] }, .ok) := by
  unfold writeValue pushData peek push
  simp only [he, hs, hst, getLast?_snoc, hp, ↓reduceIte, setSt, List.append_assoc, List.cons_append,
    List.nil_append]

theorem writeValue_root (w : W) (s : WState) (idx : Nat) (enc : Bytes)
    (he : w.err = none) (hs : w.st = some s) (hst : s.stack = []) :
    writeValue w idx enc =
      (setSt w { s with buf := s.buf ++ enc,
                        stack := [⟨s.buf.length, (s.buf ++ enc).length, .data⟩] }, .ok) := by
  unfold writeValue pushData peek push
  simp only [he, hs, hst, List.getLast?_nil, setSt, List.nil_append]

theorem element_live (w : W) (s : WState) (idx : Nat) (base : List Entry) (l : Entry) (a stop : Nat)
    (he : w.err = none) (hs : w.st = some s) (hst : s.stack = base ++ [l, ⟨a, stop, .data⟩])
    (hl : l.type_ = .list) :
    element w idx =
      (setSt w { s with stack := base ++ [l], elements := s.elements ++ [stop - l.start] }, .ok) := by
  have h2 : base ++ [l, ⟨a, stop, .data⟩] = (base ++ [l]) ++ [⟨a, stop, .data⟩] := by simp
  unfold element popData pop peek
  simp only [he, hs, hst, h2, getLast?_snoc, dropLast_snoc, ↓reduceIte, hl, setSt]

theorem field_live (w : W) (s : WState) (idx tag : Nat) (base : List Entry) (m : Entry) (a stop : Nat)
    (he : w.err = none) (hs : w.st = some s) (hst : s.stack = base ++ [m, ⟨a, stop, .data⟩])
    (hm : m.type_ = .message) (hts : m.tableStart ≤ s.fields.length) :
    field w idx tag =
      (setSt w { s with stack := base ++ [m],
                        fields := s.fields.take m.tableStart ++
                          insertField (tag, stop - m.start) (s.fields.drop m.tableStart) }, .ok) := by
  have h2 : base ++ [m, ⟨a, stop, .data⟩] = (base ++ [m]) ++ [⟨a, stop, .data⟩] := by simp
  have c : ¬ m.tableStart > s.fields.length := by omega
  unfold field popData pop peek insertAt
  simp only [he, hs, hst, h2, getLast?_snoc, dropLast_snoc, ↓reduceIte, hm, setSt, c]

theorem beginList_live (w : W) (s : WState) (he : w.err = none) (hs : w.st = some s) :
    beginList w = setSt w { s with stack := s.stack ++ [⟨s.buf.length, s.elements.length, .list⟩] } := by
  unfold beginList push; simp only [he, hs, setSt]

theorem beginMessage_live (w : W) (s : WState) (he : w.err = none) (hs : w.st = some s) :
    beginMessage w = setSt w { s with stack := s.stack ++ [⟨s.buf.length, s.fields.length, .message⟩] } := by
  unfold beginMessage push; simp only [he, hs, setSt]

theorem beginElement_live (w : W) (s : WState) (idx : Nat) (base : List Entry) (l : Entry)
    (he : w.err = none) (hs : w.st = some s) (hst : s.stack = base ++ [l]) (hl : l.type_ = .list) :
    beginElement w idx = setSt w { s with stack := base ++ [l, ⟨s.buf.length, 0, .element⟩] } := by
  unfold beginElement push peek
  simp only [he, hs, hst, getLast?_snoc, hl, ↓reduceIte, setSt, List.append_assoc, List.cons_append,
    List.nil_append]

theorem beginField_live (w : W) (s : WState) (idx tag : Nat) (base : List Entry) (m : Entry)
    (he : w.err = none) (hs : w.st = some s) (hst : s.stack = base ++ [m]) (hm : m.type_ = .message) :
    beginField w idx tag = setSt w { s with stack := base ++ [m, ⟨s.buf.length, tag, .field⟩] } := by
  unfold beginField push peek
  simp only [he, hs, hst, getLast?_snoc, hm, ↓reduceIte, setSt, List.append_assoc, List.cons_append,
    List.nil_append]


/-! ### ending a container -/

theorem slice?_tail (b : Bytes) (lo : Nat) (h : lo ≤ b.length) : slice? b lo b.length = some (b.drop lo) := by
  unfold slice?; simp [h]

/-- the entry under the container is not a data entry (it is an element / field marker, or the
container is the root) -/
def NotData (rest : List Entry) : Prop := ∀ p, rest.getLast? = some p → p.type_ ≠ .data

theorem endTop_list (s : WState) (rest : List Entry) (st0 ts : Nat)
    (hst : s.stack = rest ++ [⟨st0, ts, .list⟩]) (hnd : NotData rest)
    (hts : ts ≤ s.elements.length) (hs0 : st0 ≤ s.buf.length) :
    endTop s = .done
      { buf := s.buf ++ listTrailer (s.buf.length - st0) (s.elements.drop ts),
        stack := rest ++ [⟨st0, (s.buf ++ listTrailer (s.buf.length - st0) (s.elements.drop ts)).length, .data⟩],
        elements := s.elements.take ts, fields := s.fields }
      ((s.buf ++ listTrailer (s.buf.length - st0) (s.elements.drop ts)).drop st0) := by
  have c : ¬ (ts > s.elements.length ∨ st0 > s.buf.length) := by omega
  unfold endTop pop
  simp only [hst, getLast?_snoc, dropLast_snoc, c, ↓reduceIte, peek, push]
  have hsl := slice?_tail (s.buf ++ listTrailer (s.buf.length - st0) (s.elements.drop ts)) st0
    (by simp only [List.length_append]; omega)
  cases hr : rest.getLast? with
  | none => simp only [hsl]
  | some p =>
    have := hnd p hr
    simp only [this, ↓reduceIte, hsl]

theorem endTop_msg (s : WState) (rest : List Entry) (st0 ts : Nat)
    (hst : s.stack = rest ++ [⟨st0, ts, .message⟩]) (hnd : NotData rest)
    (hts : ts ≤ s.fields.length) (hs0 : st0 ≤ s.buf.length) :
    endTop s = .done
      { buf := s.buf ++ msgTrailer (s.buf.length - st0) (s.fields.drop ts),
        stack := rest ++ [⟨st0, (s.buf ++ msgTrailer (s.buf.length - st0) (s.fields.drop ts)).length, .data⟩],
        elements := s.elements, fields := s.fields.take ts }
      ((s.buf ++ msgTrailer (s.buf.length - st0) (s.fields.drop ts)).drop st0) := by
  have c : ¬ (ts > s.fields.length ∨ st0 > s.buf.length) := by omega
  unfold endTop pop
  simp only [hst, getLast?_snoc, dropLast_snoc, c, ↓reduceIte, peek, push]
  have hsl := slice?_tail (s.buf ++ msgTrailer (s.buf.length - st0) (s.fields.drop ts)) st0
    (by simp only [List.length_append]; omega)
  cases hr : rest.getLast? with
  | none => simp only [hsl]
  | some p =>
    have := hnd p hr
    simp only [this, ↓reduceIte, hsl]

/-- the ended object was an element: its bytes are recorded in the list's table -/
theorem endParent_element (w : W) (s : WState) (idx : Nat) (result : Bytes) (base : List Entry) (l : Entry)
    (a b stop : Nat) (hst : s.stack = base ++ [l, ⟨a, 0, .element⟩, ⟨b, stop, .data⟩])
    (hl : l.type_ = .list) (h1 : a ≤ stop) (h2 : stop ≤ s.buf.length) :
    endParent w s idx result =
      (setSt w { s with stack := base ++ [l], elements := s.elements ++ [stop - l.start] },
       .built ((s.buf.take stop).drop a)) := by
  have e1 : base ++ [l, ⟨a, 0, .element⟩, ⟨b, stop, .data⟩] = (base ++ [l, ⟨a, 0, .element⟩]) ++ [⟨b, stop, .data⟩] := by simp
  have e2 : base ++ [l, ⟨a, 0, .element⟩] = (base ++ [l]) ++ [(⟨a, 0, .element⟩ : Entry)] := by simp
  unfold endParent peek2 popData pop peek
  simp only [hst, e1, dropLast_snoc, getLast?_snoc, ↓reduceIte]
  simp only [e2, dropLast_snoc, getLast?_snoc, ↓reduceIte, hl, ne_eq, not_true_eq_false,
    slice?_some _ _ _ h1 h2, setSt]

theorem endParent_field (w : W) (s : WState) (idx : Nat) (result : Bytes) (base : List Entry) (m : Entry)
    (a tag b stop : Nat) (hst : s.stack = base ++ [m, ⟨a, tag, .field⟩, ⟨b, stop, .data⟩])
    (hm : m.type_ = .message) (hts : m.tableStart ≤ s.fields.length) (h1 : a ≤ stop) (h2 : stop ≤ s.buf.length) :
    endParent w s idx result =
      (setSt w { s with stack := base ++ [m],
                        fields := s.fields.take m.tableStart ++
                          insertField (tag, stop - m.start) (s.fields.drop m.tableStart) },
       .built ((s.buf.take stop).drop a)) := by
  have e1 : base ++ [m, ⟨a, tag, .field⟩, ⟨b, stop, .data⟩] = (base ++ [m, ⟨a, tag, .field⟩]) ++ [⟨b, stop, .data⟩] := by simp
  have e2 : base ++ [m, ⟨a, tag, .field⟩] = (base ++ [m]) ++ [(⟨a, tag, .field⟩ : Entry)] := by simp
  have c : ¬ m.tableStart > s.fields.length := by omega
  unfold endParent peek2 popData pop peek insertAt
  simp only [hst, e1, dropLast_snoc, getLast?_snoc, ↓reduceIte]
  simp only [e2, dropLast_snoc, getLast?_snoc, ↓reduceIte, hm, ne_eq, not_true_eq_false, c,
    slice?_some _ _ _ h1 h2, setSt]

/-- the ended object was the root: the writer closes and returns the bytes -/
theorem endParent_root (w : W) (s : WState) (idx : Nat) (result : Bytes)
    (hst : s.stack.dropLast = []) : (endParent w s idx result).2 = .built result := by
  unfold endParent peek2
  simp only [hst, List.getLast?_nil]


/-! ### trailer = layout -/

theorem listTrailer_enc (es : List Bytes) :
    es.flatten ++ listTrailer es.flatten.length (endOffsets 0 es) = encList es := by
  simp [encList, listTrailer]

theorem msgTrailer_enc (fs : List (Nat × Bytes)) :
    (fs.map (·.2)).flatten ++
      msgTrailer (fs.map (·.2)).flatten.length
        (sortedEntries ((fs.map (·.1)).zip (endOffsets 0 (fs.map (·.2))))) = encMsg fs := by
  simp [encMsg, msgTrailer]

/-- `end` of a list that was begun as an element of the list `l` -/
theorem end_list_in_element (w : W) (s : WState) (idx : Nat) (base : List Entry) (l : Entry)
    (b0 data : Bytes) (el0 offs : List Nat)
    (he : w.err = none) (hs : w.st = some s)
    (hst : s.stack = base ++ [l, ⟨b0.length, 0, .element⟩, ⟨b0.length, el0.length, .list⟩])
    (hl : l.type_ = .list) (hb : s.buf = b0 ++ data) (hel : s.elements = el0 ++ offs) :
    end_ w idx =
      (setSt w { buf := b0 ++ (data ++ listTrailer data.length offs), stack := base ++ [l],
                 elements := el0 ++ [(b0 ++ (data ++ listTrailer data.length offs)).length - l.start],
                 fields := s.fields },
       .built (data ++ listTrailer data.length offs)) := by
  have e1 : base ++ [l, ⟨b0.length, 0, .element⟩, ⟨b0.length, el0.length, .list⟩] =
      (base ++ [l, ⟨b0.length, 0, .element⟩]) ++ [(⟨b0.length, el0.length, .list⟩ : Entry)] := by simp
  have hnd : NotData (base ++ [l, ⟨b0.length, 0, .element⟩]) := by
    intro p hp
    have : base ++ [l, ⟨b0.length, 0, .element⟩] = (base ++ [l]) ++ [(⟨b0.length, 0, .element⟩ : Entry)] := by simp
    rw [this, getLast?_snoc] at hp
    cases hp; simp
  unfold end_
  simp only [he, hs]
  rw [endTop_list s _ b0.length el0.length (hst.trans e1) hnd (by simp [hel]) (by simp [hb])]
  simp only
  rw [endParent_element w _ idx _ base l b0.length b0.length
    (s.buf ++ listTrailer (s.buf.length - b0.length) (s.elements.drop el0.length)).length (by simp) hl
    (by simp only [hb, List.length_append]; omega) (Nat.le_refl _)]
  simp only [hb, hel, List.length_append, Nat.add_sub_cancel_left, List.drop_left, List.take_left,
    List.append_assoc]
  congr 2
  rw [← List.length_append, ← List.length_append, List.take_length, List.drop_left]


/-- `end` of a list that was begun as the field `tag` of the message `m` -/
theorem end_list_in_field (w : W) (s : WState) (idx tag : Nat) (base : List Entry) (m : Entry)
    (b0 data : Bytes) (el0 offs : List Nat)
    (he : w.err = none) (hs : w.st = some s)
    (hst : s.stack = base ++ [m, ⟨b0.length, tag, .field⟩, ⟨b0.length, el0.length, .list⟩])
    (hm : m.type_ = .message) (hts : m.tableStart ≤ s.fields.length)
    (hb : s.buf = b0 ++ data) (hel : s.elements = el0 ++ offs) :
    end_ w idx =
      (setSt w { buf := b0 ++ (data ++ listTrailer data.length offs), stack := base ++ [m],
                 elements := el0,
                 fields := s.fields.take m.tableStart ++
                   insertField (tag, (b0 ++ (data ++ listTrailer data.length offs)).length - m.start)
                     (s.fields.drop m.tableStart) },
       .built (data ++ listTrailer data.length offs)) := by
  have e1 : base ++ [m, ⟨b0.length, tag, .field⟩, ⟨b0.length, el0.length, .list⟩] =
      (base ++ [m, ⟨b0.length, tag, .field⟩]) ++ [(⟨b0.length, el0.length, .list⟩ : Entry)] := by simp
  have hnd : NotData (base ++ [m, ⟨b0.length, tag, .field⟩]) := by
    intro p hp
    have : base ++ [m, ⟨b0.length, tag, .field⟩] = (base ++ [m]) ++ [(⟨b0.length, tag, .field⟩ : Entry)] := by simp
    rw [this, getLast?_snoc] at hp
    cases hp; simp
  unfold end_
  simp only [he, hs]
  rw [endTop_list s _ b0.length el0.length (hst.trans e1) hnd (by simp [hel]) (by simp [hb])]
  simp only
  rw [endParent_field w _ idx _ base m b0.length tag b0.length
    (s.buf ++ listTrailer (s.buf.length - b0.length) (s.elements.drop el0.length)).length (by simp) hm (by exact hts)
    (by simp only [hb, List.length_append]; omega) (Nat.le_refl _)]
  simp only [hb, hel, List.length_append, Nat.add_sub_cancel_left, List.drop_left, List.take_left,
    List.append_assoc]
  congr 2
  rw [← List.length_append, ← List.length_append, List.take_length, List.drop_left]

/-- `end` of a message that was begun as an element of the list `l` -/
theorem end_msg_in_element (w : W) (s : WState) (idx : Nat) (base : List Entry) (l : Entry)
    (b0 data : Bytes) (fl0 ents : List (Nat × Nat))
    (he : w.err = none) (hs : w.st = some s)
    (hst : s.stack = base ++ [l, ⟨b0.length, 0, .element⟩, ⟨b0.length, fl0.length, .message⟩])
    (hl : l.type_ = .list) (hb : s.buf = b0 ++ data) (hfl : s.fields = fl0 ++ ents) :
    end_ w idx =
      (setSt w { buf := b0 ++ (data ++ msgTrailer data.length ents), stack := base ++ [l],
                 elements := s.elements ++ [(b0 ++ (data ++ msgTrailer data.length ents)).length - l.start],
                 fields := fl0 },
       .built (data ++ msgTrailer data.length ents)) := by
  have e1 : base ++ [l, ⟨b0.length, 0, .element⟩, ⟨b0.length, fl0.length, .message⟩] =
      (base ++ [l, ⟨b0.length, 0, .element⟩]) ++ [(⟨b0.length, fl0.length, .message⟩ : Entry)] := by simp
  have hnd : NotData (base ++ [l, ⟨b0.length, 0, .element⟩]) := by
    intro p hp
    have : base ++ [l, ⟨b0.length, 0, .element⟩] = (base ++ [l]) ++ [(⟨b0.length, 0, .element⟩ : Entry)] := by simp
    rw [this, getLast?_snoc] at hp
    cases hp; simp
  unfold end_
  simp only [he, hs]
  rw [endTop_msg s _ b0.length fl0.length (hst.trans e1) hnd (by simp [hfl]) (by simp [hb])]
  simp only
  rw [endParent_element w _ idx _ base l b0.length b0.length
    (s.buf ++ msgTrailer (s.buf.length - b0.length) (s.fields.drop fl0.length)).length (by simp) hl
    (by simp only [hb, List.length_append]; omega) (Nat.le_refl _)]
  simp only [hb, hfl, List.length_append, Nat.add_sub_cancel_left, List.drop_left, List.take_left,
    List.append_assoc]
  congr 2
  rw [← List.length_append, ← List.length_append, List.take_length, List.drop_left]

/-- `end` of a message that was begun as the field `tag` of the message `m` -/
theorem end_msg_in_field (w : W) (s : WState) (idx tag : Nat) (base : List Entry) (m : Entry)
    (b0 data : Bytes) (fl0 ents : List (Nat × Nat))
    (he : w.err = none) (hs : w.st = some s)
    (hst : s.stack = base ++ [m, ⟨b0.length, tag, .field⟩, ⟨b0.length, fl0.length, .message⟩])
    (hm : m.type_ = .message) (hts : m.tableStart ≤ fl0.length)
    (hb : s.buf = b0 ++ data) (hfl : s.fields = fl0 ++ ents) :
    end_ w idx =
      (setSt w { buf := b0 ++ (data ++ msgTrailer data.length ents), stack := base ++ [m],
                 elements := s.elements,
                 fields := fl0.take m.tableStart ++
                   insertField (tag, (b0 ++ (data ++ msgTrailer data.length ents)).length - m.start)
                     (fl0.drop m.tableStart) },
       .built (data ++ msgTrailer data.length ents)) := by
  have e1 : base ++ [m, ⟨b0.length, tag, .field⟩, ⟨b0.length, fl0.length, .message⟩] =
      (base ++ [m, ⟨b0.length, tag, .field⟩]) ++ [(⟨b0.length, fl0.length, .message⟩ : Entry)] := by simp
  have hnd : NotData (base ++ [m, ⟨b0.length, tag, .field⟩]) := by
    intro p hp
    have : base ++ [m, ⟨b0.length, tag, .field⟩] = (base ++ [m]) ++ [(⟨b0.length, tag, .field⟩ : Entry)] := by simp
    rw [this, getLast?_snoc] at hp
    cases hp; simp
  unfold end_
  simp only [he, hs]
  rw [endTop_msg s _ b0.length fl0.length (hst.trans e1) hnd (by simp [hfl]) (by simp [hb])]
  simp only
  rw [endParent_field w _ idx _ base m b0.length tag b0.length
    (s.buf ++ msgTrailer (s.buf.length - b0.length) (s.fields.drop fl0.length)).length (by simp) hm
    (by simp [hfl]; omega)
    (by simp only [hb, List.length_append]; omega) (Nat.le_refl _)]
  simp only [hb, hfl, List.length_append, Nat.add_sub_cancel_left, List.drop_left, List.take_left,
    List.append_assoc]
  congr 2
  rw [← List.length_append, ← List.length_append, List.take_length, List.drop_left]

/-- `end` of the root list / message returns its bytes -/
theorem end_list_root (w : W) (s : WState) (idx : Nat) (b0 data : Bytes) (el0 offs : List Nat)
    (he : w.err = none) (hs : w.st = some s) (hst : s.stack = [⟨b0.length, el0.length, .list⟩])
    (hb : s.buf = b0 ++ data) (hel : s.elements = el0 ++ offs) :
    (end_ w idx).2 = .built (data ++ listTrailer data.length offs) := by
  unfold end_
  simp only [he, hs]
  rw [endTop_list s [] b0.length el0.length (by simpa using hst) (by intro p hp; cases hp)
    (by simp [hel]) (by simp [hb])]
  simp only
  rw [endParent_root w _ idx _ (by simp)]
  simp only [hb, hel, List.length_append, Nat.add_sub_cancel_left, List.drop_left, List.append_assoc]

theorem end_msg_root (w : W) (s : WState) (idx : Nat) (b0 data : Bytes) (fl0 ents : List (Nat × Nat))
    (he : w.err = none) (hs : w.st = some s) (hst : s.stack = [⟨b0.length, fl0.length, .message⟩])
    (hb : s.buf = b0 ++ data) (hfl : s.fields = fl0 ++ ents) :
    (end_ w idx).2 = .built (data ++ msgTrailer data.length ents) := by
  unfold end_
  simp only [he, hs]
  rw [endTop_msg s [] b0.length fl0.length (by simpa using hst) (by intro p hp; cases hp)
    (by simp [hfl]) (by simp [hb])]
  simp only
  rw [endParent_root w _ idx _ (by simp)]
  simp only [hb, hfl, List.length_append, Nat.add_sub_cancel_left, List.drop_left, List.append_assoc]


/-! ### the refinement, by mutual induction over the tree -/

theorem take_pre {α : Type} (xs : List α) (k : Nat) (ys : List α) (h : k ≤ xs.length) :
    (xs.take k ++ ys).take k = xs.take k ∧ (xs.take k ++ ys).drop k = ys := by
  have hl : (xs.take k).length = k := by simp [List.length_take]; omega
  constructor
  · conv => lhs; arg 1; rw [← hl]
    exact List.take_left
  · conv => lhs; arg 1; rw [← hl]
    exact List.drop_left

mutual
theorem emitChild_elem_spec (idx : Nat) : (n : Node) → (w : W) → (s : WState) → (base : List Entry) →
    (l : Entry) → w.err = none → w.st = some s → s.stack = base ++ [l] → l.type_ = .list →
    emitChild idx none n w =
      setSt w { s with buf := s.buf ++ n.enc,
                       elements := s.elements ++ [(s.buf ++ n.enc).length - l.start] }
  | .leaf b, w, s, base, l, he, hs, hst, hl => by
    unfold emitChild
    simp only
    rw [writeValue_live w s idx b base l he hs hst (by rw [hl]; simp)]
    simp only
    rw [element_live (setSt w _) _ idx base l s.buf.length (s.buf ++ b).length (by simpa using he) rfl rfl hl]
    simp [Node.enc, hst]
  | .list es, w, s, base, l, he, hs, hst, hl => by
    have key := emitElems_spec idx es
      (setSt w { s with stack := base ++ [l, ⟨s.buf.length, 0, .element⟩] ++ [⟨s.buf.length, s.elements.length, .list⟩] })
      { s with stack := base ++ [l, ⟨s.buf.length, 0, .element⟩] ++ [⟨s.buf.length, s.elements.length, .list⟩] }
      (base ++ [l, ⟨s.buf.length, 0, .element⟩])
      ⟨s.buf.length, s.elements.length, .list⟩ (by simpa using he) rfl rfl rfl (Nat.le_refl _)
    unfold emitChild
    simp only
    rw [beginElement_live w s idx base l he hs hst hl]
    rw [beginList_live (setSt w _) _ (by simpa using he) rfl]
    simp only [setSt_setSt]
    rw [key]
    simp only [setSt_setSt, Nat.sub_self]
    rw [end_list_in_element (setSt w _) _ idx base l s.buf es.encs.flatten s.elements (endOffsets 0 es.encs)
      (by simpa using he) rfl (by simp) hl rfl rfl]
    simp only [setSt_setSt, listTrailer_enc, Node.enc, hst]
  | .msg fs, w, s, base, l, he, hs, hst, hl => by
    have key := emitFlds_spec idx fs
      (setSt w { s with stack := base ++ [l, ⟨s.buf.length, 0, .element⟩] ++ [⟨s.buf.length, s.fields.length, .message⟩] })
      { s with stack := base ++ [l, ⟨s.buf.length, 0, .element⟩] ++ [⟨s.buf.length, s.fields.length, .message⟩] }
      (base ++ [l, ⟨s.buf.length, 0, .element⟩])
      ⟨s.buf.length, s.fields.length, .message⟩ (by simpa using he) rfl rfl rfl (Nat.le_refl _) (Nat.le_refl _)
    unfold emitChild
    simp only
    rw [beginElement_live w s idx base l he hs hst hl]
    rw [beginMessage_live (setSt w _) _ (by simpa using he) rfl]
    simp only [setSt_setSt]
    rw [key]
    simp only [setSt_setSt, Nat.sub_self, List.take_length, List.drop_length]
    rw [end_msg_in_element (setSt w _) _ idx base l s.buf (fs.encs.map (·.2)).flatten s.fields
      (sortedEntries ((fs.encs.map (·.1)).zip (endOffsets 0 (fs.encs.map (·.2)))))
      (by simpa using he) rfl (by simp) hl rfl rfl]
    simp only [setSt_setSt, msgTrailer_enc, Node.enc, hst]

theorem emitChild_fld_spec (idx tag : Nat) : (n : Node) → (w : W) → (s : WState) → (base : List Entry) →
    (m : Entry) → w.err = none → w.st = some s → s.stack = base ++ [m] → m.type_ = .message →
    m.tableStart ≤ s.fields.length →
    emitChild idx (some tag) n w =
      setSt w { s with buf := s.buf ++ n.enc,
                       fields := s.fields.take m.tableStart ++
                         insertField (tag, (s.buf ++ n.enc).length - m.start) (s.fields.drop m.tableStart) }
  | .leaf b, w, s, base, m, he, hs, hst, hm, hts => by
    unfold emitChild
    simp only
    rw [writeValue_live w s idx b base m he hs hst (by rw [hm]; simp)]
    simp only
    rw [field_live (setSt w _) _ idx tag base m s.buf.length (s.buf ++ b).length (by simpa using he) rfl rfl hm
      (by exact hts)]
    simp [Node.enc, hst]
  | .list es, w, s, base, m, he, hs, hst, hm, hts => by
    have key := emitElems_spec idx es
      (setSt w { s with stack := base ++ [m, ⟨s.buf.length, tag, .field⟩] ++ [⟨s.buf.length, s.elements.length, .list⟩] })
      { s with stack := base ++ [m, ⟨s.buf.length, tag, .field⟩] ++ [⟨s.buf.length, s.elements.length, .list⟩] }
      (base ++ [m, ⟨s.buf.length, tag, .field⟩])
      ⟨s.buf.length, s.elements.length, .list⟩ (by simpa using he) rfl rfl rfl (Nat.le_refl _)
    unfold emitChild
    simp only
    rw [beginField_live w s idx tag base m he hs hst hm]
    rw [beginList_live (setSt w _) _ (by simpa using he) rfl]
    simp only [setSt_setSt]
    rw [key]
    simp only [setSt_setSt, Nat.sub_self]
    rw [end_list_in_field (setSt w _) _ idx tag base m s.buf es.encs.flatten s.elements (endOffsets 0 es.encs)
      (by simpa using he) rfl (by simp) hm (by exact hts) rfl rfl]
    simp only [setSt_setSt, listTrailer_enc, Node.enc, hst]
  | .msg fs, w, s, base, m, he, hs, hst, hm, hts => by
    have key := emitFlds_spec idx fs
      (setSt w { s with stack := base ++ [m, ⟨s.buf.length, tag, .field⟩] ++ [⟨s.buf.length, s.fields.length, .message⟩] })
      { s with stack := base ++ [m, ⟨s.buf.length, tag, .field⟩] ++ [⟨s.buf.length, s.fields.length, .message⟩] }
      (base ++ [m, ⟨s.buf.length, tag, .field⟩])
      ⟨s.buf.length, s.fields.length, .message⟩ (by simpa using he) rfl rfl rfl (Nat.le_refl _) (Nat.le_refl _)
    unfold emitChild
    simp only
    rw [beginField_live w s idx tag base m he hs hst hm]
    rw [beginMessage_live (setSt w _) _ (by simpa using he) rfl]
    simp only [setSt_setSt]
    rw [key]
    simp only [setSt_setSt, Nat.sub_self, List.take_length, List.drop_length]
    rw [end_msg_in_field (setSt w _) _ idx tag base m s.buf (fs.encs.map (·.2)).flatten s.fields
      (sortedEntries ((fs.encs.map (·.1)).zip (endOffsets 0 (fs.encs.map (·.2)))))
      (by simpa using he) rfl (by simp) hm hts rfl rfl]
    simp only [setSt_setSt, msgTrailer_enc, Node.enc, hst]

theorem emitElems_spec (idx : Nat) : (ns : Nodes) → (w : W) → (s : WState) → (base : List Entry) →
    (l : Entry) → w.err = none → w.st = some s → s.stack = base ++ [l] → l.type_ = .list →
    l.start ≤ s.buf.length →
    emitElems idx ns w =
      setSt w { s with buf := s.buf ++ ns.encs.flatten,
                       elements := s.elements ++ endOffsets (s.buf.length - l.start) ns.encs }
  | .nil, w, s, base, l, he, hs, hst, hl, hle => by
    unfold emitElems
    simp only [Nodes.encs, List.flatten_nil, List.append_nil, endOffsets, setSt]
    cases w; cases s; simp_all
  | .cons n ns, w, s, base, l, he, hs, hst, hl, hle => by
    unfold emitElems
    rw [emitChild_elem_spec idx n w s base l he hs hst hl]
    rw [emitElems_spec idx ns (setSt w _)
      { s with buf := s.buf ++ n.enc, elements := s.elements ++ [(s.buf ++ n.enc).length - l.start] }
      base l (by simpa using he) rfl hst hl (by simp only [List.length_append]; omega)]
    simp only [setSt_setSt, Nodes.encs, List.flatten_cons, List.append_assoc, endOffsets,
      List.length_append, List.singleton_append]
    have : s.buf.length + n.enc.length - l.start = s.buf.length - l.start + n.enc.length := by omega
    rw [this]

theorem emitFlds_spec (idx : Nat) : (fs : Flds) → (w : W) → (s : WState) → (base : List Entry) →
    (m : Entry) → w.err = none → w.st = some s → s.stack = base ++ [m] → m.type_ = .message →
    m.start ≤ s.buf.length → m.tableStart ≤ s.fields.length →
    emitFlds idx fs w =
      setSt w { s with buf := s.buf ++ (fs.encs.map (·.2)).flatten,
                       fields := s.fields.take m.tableStart ++
                         ((fs.encs.map (·.1)).zip (endOffsets (s.buf.length - m.start) (fs.encs.map (·.2)))).foldl
                           (fun acc f => insertField f acc) (s.fields.drop m.tableStart) }
  | .nil, w, s, base, m, he, hs, hst, hm, hle, hts => by
    unfold emitFlds
    simp only [Flds.encs, List.map_nil, List.flatten_nil, List.append_nil, endOffsets, List.zip_nil_right,
      List.foldl_nil, List.take_append_drop, setSt]
    cases w; cases s; simp_all
  | .cons t n fs, w, s, base, m, he, hs, hst, hm, hle, hts => by
    unfold emitFlds
    rw [emitChild_fld_spec idx t n w s base m he hs hst hm hts]
    have hp := take_pre s.fields m.tableStart
      (insertField (t, (s.buf ++ n.enc).length - m.start) (s.fields.drop m.tableStart)) hts
    rw [emitFlds_spec idx fs (setSt w _)
      { s with buf := s.buf ++ n.enc,
               fields := s.fields.take m.tableStart ++
                 insertField (t, (s.buf ++ n.enc).length - m.start) (s.fields.drop m.tableStart) }
      base m (by simpa using he) rfl hst hm
      (by simp only [List.length_append]; omega)
      (by simp only [List.length_append, List.length_take]; omega)]
    simp only [setSt_setSt, Flds.encs, List.map_cons, List.flatten_cons, List.append_assoc, endOffsets,
      List.length_append, List.zip_cons_cons, List.foldl_cons]
    have : s.buf.length + n.enc.length - m.start = s.buf.length - m.start + n.enc.length := by omega
    rw [this]
    have hp2 := take_pre s.fields m.tableStart
      (insertField (t, s.buf.length - m.start + n.enc.length) (s.fields.drop m.tableStart)) hts
    rw [hp2.1, hp2.2]
end


/-- `end` of a root scalar value returns its bytes -/
theorem end_value_root (w : W) (s : WState) (idx : Nat) (b0 data : Bytes)
    (he : w.err = none) (hs : w.st = some s)
    (hst : s.stack = [⟨b0.length, (b0 ++ data).length, .data⟩]) (hb : s.buf = b0 ++ data) :
    (end_ w idx).2 = .built data := by
  unfold end_
  simp only [he, hs]
  have : endTop s = .done { s with stack := [] } data := by
    unfold endTop pop
    simp only [hst, List.getLast?_singleton, List.dropLast_singleton, List.length_singleton,
      Nat.lt_irrefl, ↓reduceIte]
    rw [slice?_tail _ _ (by simp [hb])]
    simp [hb]
  rw [this]
  simp only
  rw [endParent_root w _ idx _ (by simp)]

/-- a whole tree written through a fresh writer (any initial buffer content): the final `End` /
`Build` returns exactly the layout bytes of the tree -/
theorem emitRoot_spec (idx : Nat) (n : Node) (buf : Bytes) (r : Bool) :
    (emitRoot idx n (fresh buf r)).2 = .built n.enc := by
  cases n with
  | leaf b =>
    unfold emitRoot
    simp only
    rw [writeValue_root (fresh buf r) ⟨buf, [], [], []⟩ idx b rfl rfl rfl]
    simp only
    exact end_value_root (setSt _ _) _ idx buf b rfl rfl rfl rfl
  | list es =>
    have key := emitElems_spec idx es (setSt (fresh buf r) ⟨buf, [⟨buf.length, 0, .list⟩], [], []⟩)
      ⟨buf, [⟨buf.length, 0, .list⟩], [], []⟩ [] ⟨buf.length, 0, .list⟩ rfl rfl rfl rfl (Nat.le_refl _)
    unfold emitRoot
    simp only
    rw [beginList_live (fresh buf r) ⟨buf, [], [], []⟩ rfl rfl]
    dsimp only [List.nil_append, List.length_nil]
    rw [key]
    simp only [Nat.sub_self]
    rw [end_list_root (setSt _ _) _ idx buf es.encs.flatten [] (endOffsets 0 es.encs) rfl rfl rfl rfl rfl]
    rw [listTrailer_enc]; rfl
  | msg fs =>
    have key := emitFlds_spec idx fs (setSt (fresh buf r) ⟨buf, [⟨buf.length, 0, .message⟩], [], []⟩)
      ⟨buf, [⟨buf.length, 0, .message⟩], [], []⟩ [] ⟨buf.length, 0, .message⟩ rfl rfl rfl rfl
      (Nat.le_refl _) (Nat.le_refl _)
    unfold emitRoot
    simp only
    rw [beginMessage_live (fresh buf r) ⟨buf, [], [], []⟩ rfl rfl]
    dsimp only [List.nil_append, List.length_nil]
    rw [key]
    simp only [Nat.sub_self, List.take_zero, List.drop_zero, List.nil_append]
    rw [end_msg_root (setSt _ _) _ idx buf (fs.encs.map (·.2)).flatten []
      (sortedEntries ((fs.encs.map (·.1)).zip (endOffsets 0 (fs.encs.map (·.2))))) rfl rfl rfl rfl rfl]
    rw [msgTrailer_enc]; rfl

end SpecVerif.Writer
