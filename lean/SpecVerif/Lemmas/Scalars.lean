import SpecVerif.Wire.Decode
import SpecVerif.Wire.Encode
import SpecVerif.Lemmas.Varint
namespace SpecVerif
open Pinned

@[simp] theorem decodeType_snoc (q : Bytes) (t : UInt8) : decodeType (q ++ [t]) = (t, 1) := by
  simp [decodeType]

@[simp] theorem dropLastN_one_snoc (q : Bytes) (t : UInt8) : dropLastN 1 (q ++ [t]) = q := by
  simp [dropLastN]

theorem snoc_length_ne (q : Bytes) (t : UInt8) : ¬ ((q ++ [t]).length = 0) := by simp

theorem take_len_sub_one_snoc (q : Bytes) (t : UInt8) : (q ++ [t]).take ((q ++ [t]).length - 1) = q := by
  simp

/-! ### signed -/

section
variable (p : Bytes) (v : Int)

theorem decodeInt16_of32 (t : UInt8) (ht : t = tInt16 ∨ t = tInt32)
    (h1 : -2147483648 ≤ v) (h2 : v ≤ 2147483647) :
    decodeInt16 (p ++ (putRevI32 v ++ [t])) =
      if -32768 ≤ v ∧ v ≤ 32767 then .ok (v, (putRevI32 v).length + 1) else .err .overflow 0 := by
  rw [← List.append_assoc]
  have hpos : 0 < (putRevI32 v).length := putRevU32_pos _
  unfold decodeInt16
  simp only [snoc_length_ne, ↓reduceIte, decodeType_snoc, dropLastN_one_snoc, ht,
    revI32_put p v h1 h2]
  repeat' split
  all_goals first | omega | (simp; try omega)

theorem decodeInt16_of64 (h1 : -9223372036854775808 ≤ v) (h2 : v ≤ 9223372036854775807) :
    decodeInt16 (p ++ (putRevI64 v ++ [tInt64])) =
      if -32768 ≤ v ∧ v ≤ 32767 then .ok (v, (putRevI64 v).length + 1) else .err .overflow 0 := by
  rw [← List.append_assoc]
  have hpos : 0 < (putRevI64 v).length := putRevU64_pos _
  have n1 : ¬ (tInt64 = tInt16 ∨ tInt64 = tInt32) := by decide
  unfold decodeInt16
  simp only [snoc_length_ne, ↓reduceIte, decodeType_snoc, dropLastN_one_snoc, n1,
    revI64_put p v h1 h2]
  repeat' split
  all_goals first | omega | (simp; try omega)

theorem decodeInt32_of32 (t : UInt8) (ht : t = tInt16 ∨ t = tInt32)
    (h1 : -2147483648 ≤ v) (h2 : v ≤ 2147483647) :
    decodeInt32 (p ++ (putRevI32 v ++ [t])) = .ok (v, (putRevI32 v).length + 1) := by
  rw [← List.append_assoc]
  have hpos : 0 < (putRevI32 v).length := putRevU32_pos _
  unfold decodeInt32
  simp only [snoc_length_ne, ↓reduceIte, decodeType_snoc, dropLastN_one_snoc, ht,
    revI32_put p v h1 h2]
  repeat' split
  all_goals first | omega | (simp; try omega)

theorem decodeInt32_of64 (h1 : -9223372036854775808 ≤ v) (h2 : v ≤ 9223372036854775807) :
    decodeInt32 (p ++ (putRevI64 v ++ [tInt64])) =
      if -2147483648 ≤ v ∧ v ≤ 2147483647 then .ok (v, (putRevI64 v).length + 1)
      else .err .overflow 0 := by
  rw [← List.append_assoc]
  have hpos : 0 < (putRevI64 v).length := putRevU64_pos _
  have n1 : ¬ (tInt64 = tInt16 ∨ tInt64 = tInt32) := by decide
  unfold decodeInt32
  simp only [snoc_length_ne, ↓reduceIte, decodeType_snoc, dropLastN_one_snoc, n1,
    revI64_put p v h1 h2]
  repeat' split
  all_goals first | omega | (simp; try omega)

theorem decodeInt64_of32 (t : UInt8) (ht : t = tInt16 ∨ t = tInt32)
    (h1 : -2147483648 ≤ v) (h2 : v ≤ 2147483647) :
    decodeInt64 (p ++ (putRevI32 v ++ [t])) = .ok (v, (putRevI32 v).length + 1) := by
  rw [← List.append_assoc]
  have hpos : 0 < (putRevI32 v).length := putRevU32_pos _
  unfold decodeInt64
  simp only [snoc_length_ne, ↓reduceIte, decodeType_snoc, dropLastN_one_snoc, ht,
    revI32_put p v h1 h2]
  repeat' split
  all_goals first | omega | (simp; try omega)

theorem decodeInt64_of64 (h1 : -9223372036854775808 ≤ v) (h2 : v ≤ 9223372036854775807) :
    decodeInt64 (p ++ (putRevI64 v ++ [tInt64])) = .ok (v, (putRevI64 v).length + 1) := by
  rw [← List.append_assoc]
  have hpos : 0 < (putRevI64 v).length := putRevU64_pos _
  have n1 : ¬ (tInt64 = tInt16 ∨ tInt64 = tInt32) := by decide
  unfold decodeInt64
  simp only [snoc_length_ne, ↓reduceIte, decodeType_snoc, dropLastN_one_snoc, n1,
    revI64_put p v h1 h2]
  repeat' split
  all_goals first | omega | (simp; try omega)
end

/-! ### unsigned -/

section
variable (p : Bytes) (v : Nat)

theorem decodeUint16_of32 (t : UInt8) (ht : t = tUint16 ∨ t = tUint32) (h : v < 2 ^ 32) :
    decodeUint16 (p ++ (putRevU32 v ++ [t])) =
      if v ≤ 65535 then .ok (v, (putRevU32 v).length + 1) else .err .overflow 0 := by
  rw [← List.append_assoc]
  have hpos : 0 < (putRevU32 v).length := putRevU32_pos _
  unfold decodeUint16
  simp only [snoc_length_ne, ↓reduceIte, decodeType_snoc, dropLastN_one_snoc, ht, revU32_put p v h]
  repeat' split
  all_goals first | omega | (simp; try omega)

theorem decodeUint16_of64 (h : v < 2 ^ 64) :
    decodeUint16 (p ++ (putRevU64 v ++ [tUint64])) =
      if v ≤ 65535 then .ok (v, (putRevU64 v).length + 1) else .err .overflow 0 := by
  rw [← List.append_assoc]
  have hpos : 0 < (putRevU64 v).length := putRevU64_pos _
  have n1 : ¬ (tUint64 = tUint16 ∨ tUint64 = tUint32) := by decide
  unfold decodeUint16
  simp only [snoc_length_ne, ↓reduceIte, decodeType_snoc, dropLastN_one_snoc, n1, revU64_put p v h]
  repeat' split
  all_goals first | omega | (simp; try omega)

theorem decodeUint32_of32 (t : UInt8) (ht : t = tUint16 ∨ t = tUint32) (h : v < 2 ^ 32) :
    decodeUint32 (p ++ (putRevU32 v ++ [t])) = .ok (v, (putRevU32 v).length + 1) := by
  rw [← List.append_assoc]
  have hpos : 0 < (putRevU32 v).length := putRevU32_pos _
  unfold decodeUint32
  simp only [snoc_length_ne, ↓reduceIte, decodeType_snoc, dropLastN_one_snoc, ht, revU32_put p v h]
  repeat' split
  all_goals first | omega | (simp; try omega)

theorem decodeUint32_of64 (h : v < 2 ^ 64) :
    decodeUint32 (p ++ (putRevU64 v ++ [tUint64])) =
      if v ≤ 4294967295 then .ok (v, (putRevU64 v).length + 1) else .err .overflow 0 := by
  rw [← List.append_assoc]
  have hpos : 0 < (putRevU64 v).length := putRevU64_pos _
  have n1 : ¬ (tUint64 = tUint16 ∨ tUint64 = tUint32) := by decide
  unfold decodeUint32
  simp only [snoc_length_ne, ↓reduceIte, decodeType_snoc, dropLastN_one_snoc, n1, revU64_put p v h]
  repeat' split
  all_goals first | omega | (simp; try omega)

theorem decodeUint64_of32 (t : UInt8) (ht : t = tUint16 ∨ t = tUint32) (h : v < 2 ^ 32) :
    decodeUint64 (p ++ (putRevU32 v ++ [t])) = .ok (v, (putRevU32 v).length + 1) := by
  rw [← List.append_assoc]
  have hpos : 0 < (putRevU32 v).length := putRevU32_pos _
  unfold decodeUint64
  simp only [snoc_length_ne, ↓reduceIte, decodeType_snoc, dropLastN_one_snoc, ht, revU32_put p v h]
  repeat' split
  all_goals first | omega | (simp; try omega)

theorem decodeUint64_of64 (h : v < 2 ^ 64) :
    decodeUint64 (p ++ (putRevU64 v ++ [tUint64])) = .ok (v, (putRevU64 v).length + 1) := by
  rw [← List.append_assoc]
  have hpos : 0 < (putRevU64 v).length := putRevU64_pos _
  have n1 : ¬ (tUint64 = tUint16 ∨ tUint64 = tUint32) := by decide
  unfold decodeUint64
  simp only [snoc_length_ne, ↓reduceIte, decodeType_snoc, dropLastN_one_snoc, n1, revU64_put p v h]
  repeat' split
  all_goals first | omega | (simp; try omega)
end



theorem decodeBool_enc (p : Bytes) (v : Bool) : decodeBool (p ++ encBool v) = .ok (v, 1) := by
  unfold decodeBool encBool
  cases v <;> simp [tTrue, tFalse]

theorem decodeByte_enc (p : Bytes) (v : UInt8) : decodeByte (p ++ encByte v) = .ok (v, 2) := by
  unfold decodeByte encByte
  have hl : lastN 2 (p ++ [v, tByte]) = [v, tByte] := lastN_append' p _ 2 rfl
  have : p ++ [v, tByte] = (p ++ [v]) ++ [tByte] := by simp
  rw [hl, this]
  simp only [snoc_length_ne, ↓reduceIte, decodeType_snoc]
  simp

theorem decodeBin_enc (k : Nat) (code : UInt8) (p v : Bytes) (h : v.length = k) :
    decodeBin k code (p ++ (v ++ [code])) = .ok (v, k + 1) := by
  rw [← List.append_assoc]
  unfold decodeBin
  simp only [snoc_length_ne, ↓reduceIte, decodeType_snoc]
  have hl : ¬ ((p ++ v ++ [code]).length < 1 + k) := by simp [h]; omega
  simp only [ne_eq, not_true_eq_false, ↓reduceIte, hl]
  have : lastN (1 + k) (p ++ v ++ [code]) = v ++ [code] := by
    rw [List.append_assoc]; exact lastN_append' p (v ++ [code]) (1 + k) (by simp [h]; omega)
  rw [this]
  simp [h, Nat.add_comm]

theorem decodeSize_put (p : Bytes) (v : Nat) (h : v < 2 ^ 32) :
    decodeSize (p ++ putRevU32 v) = (v, ((putRevU32 v).length : Int)) := by
  unfold decodeSize
  rw [revU32_put p v h]
  have := putRevU32_pos v
  simp only
  split
  · omega
  · rfl

theorem decodeBytes_enc (p v : Bytes) (h : v.length < 2 ^ 32) :
    decodeBytes (p ++ encBytes v) = .ok (v, (encBytes v).length) := by
  unfold encBytes
  have e : p ++ (v ++ putRevU32 v.length ++ [tBytes]) = (p ++ v ++ putRevU32 v.length) ++ [tBytes] := by simp
  rw [e]
  unfold decodeBytes
  simp only [snoc_length_ne, ↓reduceIte, decodeType_snoc, ne_eq, not_true_eq_false,
    take_len_sub_one_snoc]
  have e2 : p ++ v ++ putRevU32 v.length = (p ++ v) ++ putRevU32 v.length := by simp
  rw [e2, decodeSize_put (p ++ v) v.length h]
  have hpos := putRevU32_pos v.length
  simp only
  split
  · omega
  · simp only [Int.toNat_natCast, List.length_append, List.length_singleton, Nat.add_sub_cancel]
    split
    · omega
    · have hs := mid_slice p v (putRevU32 v.length ++ [tBytes]) p.length (p.length + v.length) rfl rfl
      simp only [← List.append_assoc] at hs
      rw [hs]
      congr 2
      omega

theorem decodeString_enc (p v : Bytes) (h : v.length < 2 ^ 32) :
    decodeString (p ++ encString v) = .ok (v, (encString v).length) := by
  unfold encString
  have e : p ++ (v ++ [0] ++ putRevU32 v.length ++ [tString]) = (p ++ v ++ [0] ++ putRevU32 v.length) ++ [tString] := by simp
  rw [e]
  unfold decodeString
  simp only [snoc_length_ne, ↓reduceIte, decodeType_snoc, ne_eq, not_true_eq_false,
    take_len_sub_one_snoc]
  have e2 : p ++ v ++ [0] ++ putRevU32 v.length = (p ++ v ++ [0]) ++ putRevU32 v.length := by simp
  rw [e2, decodeSize_put (p ++ v ++ [0]) v.length h]
  have hpos := putRevU32_pos v.length
  simp only
  split
  · omega
  · simp only [Int.toNat_natCast, List.length_append, List.length_singleton, Nat.add_sub_cancel]
    split
    · omega
    · split
      · omega
      · have hs := mid_slice p v ([0] ++ putRevU32 v.length ++ [tString]) p.length (p.length + v.length) rfl rfl
        simp only [← List.append_assoc] at hs
        have e1 : p.length + v.length + 1 + (putRevU32 v.length).length - ((putRevU32 v.length).length + 1) = p.length + v.length := by omega
        have e3 : p.length + v.length - v.length = p.length := by omega
        rw [e1, e3, hs]
        congr 2
        omega

/-! ### floats (conversions are parameters) -/

theorem decodeFloat64_enc64 (F : FloatOps) (p : Bytes) (x : Nat) (h : x < 2 ^ 64) :
    decodeFloat64 F (p ++ encFloat64 x) = .ok (x, 9) := by
  unfold encFloat64
  rw [← List.append_assoc]
  unfold decodeFloat64 decodeFloat64'
  have n1 : ¬ (tFloat64 = tFloat32) := by decide
  have hl : ¬ ((p ++ toBE 8 x ++ [tFloat64]).length < 9) := by simp
  simp only [snoc_length_ne, ↓reduceIte, decodeType_snoc, n1, hl]
  have : lastN 9 (p ++ toBE 8 x ++ [tFloat64]) = toBE 8 x ++ [tFloat64] := by
    rw [List.append_assoc]; exact lastN_append' p _ 9 (by simp)
  rw [this]
  simp [be_toBE 8 x (by omega)]

theorem decodeFloat64_enc32 (F : FloatOps) (p : Bytes) (x : Nat) (h : x < 2 ^ 32) :
    decodeFloat64 F (p ++ encFloat32 x) = .ok (F.widen x, 5) := by
  unfold encFloat32
  rw [← List.append_assoc]
  unfold decodeFloat64 decodeFloat64'
  have hl : ¬ ((p ++ toBE 4 x ++ [tFloat32]).length < 5) := by simp
  simp only [snoc_length_ne, ↓reduceIte, decodeType_snoc, hl]
  have : lastN 5 (p ++ toBE 4 x ++ [tFloat32]) = toBE 4 x ++ [tFloat32] := by
    rw [List.append_assoc]; exact lastN_append' p _ 5 (by simp)
  rw [this]
  simp [be_toBE 4 x (by omega)]

/-- DecodeFloat32 applied to a stored float64: the value is narrowed unless it is finite and outside
the float32 range, in which case the overflow error is returned. -/
theorem decodeFloat32_enc64 (F : FloatOps) (p : Bytes) (y : Nat) (h : y < 2 ^ 64) :
    decodeFloat32 F (p ++ encFloat64 y) =
      if F.isInf y then .ok (F.narrow y, 9)
      else if F.ltNegMax y ∨ F.gtMax y then .err .overflow 0
      else .ok (F.narrow y, 9) := by
  unfold encFloat64
  rw [← List.append_assoc]
  unfold decodeFloat32 decodeFloat64'
  have n1 : ¬ (tFloat64 = tFloat32) := by decide
  have hl : ¬ ((p ++ toBE 8 y ++ [tFloat64]).length < 9) := by simp
  simp only [snoc_length_ne, ↓reduceIte, decodeType_snoc, n1, hl]
  have : lastN 9 (p ++ toBE 8 y ++ [tFloat64]) = toBE 8 y ++ [tFloat64] := by
    rw [List.append_assoc]; exact lastN_append' p _ 9 (by simp)
  rw [this]
  simp only [List.take_left' (toBE_length 8 y), be_toBE 8 y (by omega)]
  repeat' split
  all_goals simp_all

theorem decodeFloat32_enc32 (F : FloatOps) (p : Bytes) (x : Nat) (h : x < 2 ^ 32) :
    decodeFloat32 F (p ++ encFloat32 x) =
      if F.isInf (F.widen x) then .ok (F.narrow (F.widen x), 5)
      else if F.ltNegMax (F.widen x) ∨ F.gtMax (F.widen x) then .err .overflow 0
      else .ok (F.narrow (F.widen x), 5) := by
  unfold encFloat32
  rw [← List.append_assoc]
  unfold decodeFloat32 decodeFloat64'
  have hl : ¬ ((p ++ toBE 4 x ++ [tFloat32]).length < 5) := by simp
  simp only [snoc_length_ne, ↓reduceIte, decodeType_snoc, hl]
  have : lastN 5 (p ++ toBE 4 x ++ [tFloat32]) = toBE 4 x ++ [tFloat32] := by
    rw [List.append_assoc]; exact lastN_append' p _ 5 (by simp)
  rw [this]
  simp only [List.take_left' (toBE_length 4 x), be_toBE 4 x (by omega)]
  repeat' split
  all_goals simp_all

end SpecVerif
