/-
C01/C16 helper lemmas: a message laid out by `encMsg` is read back field by field, by tag.
-/
import SpecVerif.Lemmas.MsgTable
import SpecVerif.Lemmas.ListRT
namespace SpecVerif
open Pinned

theorem entrySize_pos (T : Table) : 0 < T.entrySize := by
  unfold Table.entrySize msgFieldBig msgFieldSmall; split <;> omega

/-- Offset(tag) on a table that is a strictly sorted view of `(tags, offs)` -/
theorem msgOffset_view (T : Table) (tags offs : List Nat)
    (V : TableView T.table T.entrySize T.tagSize tags offs) (S : StrictSorted tags)
    (hlen : T.table.length = tags.length * T.entrySize) (tag : Nat) :
    (∃ i, ∃ h : i < tags.length, tags[i] = tag ∧
        T.msgOffset tag = .ok (some (offs[i]'(by rw [← V.len]; exact h)))) ∨
    ((∀ i (h : i < tags.length), tags[i] ≠ tag) ∧ T.msgOffset tag = .ok none) := by
  have hes := entrySize_pos T
  unfold Table.msgOffset
  by_cases c : T.table.length < T.entrySize
  · right
    simp only [c, ↓reduceIte, and_true]
    intro i hi
    exfalso
    have : T.entrySize ≤ tags.length * T.entrySize := Nat.le_mul_of_pos_left _ (by omega)
    omega
  · simp only [c, ↓reduceIte]
    have hn : T.table.length / T.entrySize = tags.length := by
      rw [hlen, Nat.mul_div_cancel _ hes]
    rw [hn]
    have hpos : 0 < tags.length := by
      by_cases h0 : tags.length = 0
      · rw [h0, Nat.zero_mul] at hlen; omega
      · omega
    exact bsearch_spec T.table T.entrySize T.tagSize tag tags offs V S (tags.length + 1) 0
      ((tags.length : Int) - 1) (by omega) (by omega) (by omega) (by omega)
      (fun i _ hlt => by omega) (fun i hi hgt => by omega)

theorem zip_map_fst {α β} (a : List α) (b : List β) (h : a.length = b.length) :
    (a.zip b).map (·.1) = a := by
  induction a generalizing b with
  | nil => simp
  | cons x xs ih =>
    cases b with
    | nil => simp at h
    | cons y ys => simp [ih ys (by simpa using h)]

/-- the `(tag, end offset)` pair of the field at a split point is in the zipped table -/
theorem pair_mem (l : List (Nat × Bytes)) (tag : Nat) (v : Bytes) (r : List (Nat × Bytes)) :
    (tag, (l.map (·.2)).flatten.length + v.length) ∈
      (((l ++ (tag, v) :: r).map (·.1)).zip (endOffsets 0 ((l ++ (tag, v) :: r).map (·.2)))) := by
  have h1 := endOffsets_split 0 (l.map (·.2)) v (r.map (·.2))
  simp only [Nat.zero_add, List.length_map] at h1
  have e : (l ++ (tag, v) :: r).map (·.2) = l.map (·.2) ++ v :: r.map (·.2) := by simp
  have e1 : (l ++ (tag, v) :: r).map (·.1) = l.map (·.1) ++ tag :: r.map (·.1) := by simp
  rw [e, e1]
  have hz : ((l.map (·.1) ++ tag :: r.map (·.1)).zip (endOffsets 0 (l.map (·.2) ++ v :: r.map (·.2))))[l.length]? =
      some (tag, (l.map (·.2)).flatten.length + v.length) := by
    rw [List.getElem?_zip_eq_some]
    exact ⟨by simp, h1⟩
  exact List.mem_of_getElem? hz

theorem encMsgTable_length (big : Bool) (l : List (Nat × Nat)) :
    (encMsgTable big l).length = l.length * (if big then msgFieldBig else msgFieldSmall) := by
  rw [encMsgTable_eq, flatMap_entry_length]
  cases big <;> simp [msgFieldBig, msgFieldSmall]

/-- uniqueness of the entry for a tag in a table with distinct tags -/
theorem entry_unique (l : List (Nat × Nat)) (hd : (l.map (·.1)).Nodup) (a b : Nat × Nat)
    (ha : a ∈ l) (hb : b ∈ l) (h : a.1 = b.1) : a = b := by
  induction l with
  | nil => simp at ha
  | cons x xs ih =>
    simp only [List.map_cons, List.nodup_cons] at hd
    rcases List.mem_cons.mp ha with h1 | h1 <;> rcases List.mem_cons.mp hb with h2 | h2
    · rw [h1, h2]
    · subst h1; exact absurd (by rw [h]; exact List.mem_map_of_mem h2) hd.1
    · subst h2; exact absurd (by rw [← h]; exact List.mem_map_of_mem h1) hd.1
    · exact ih hd.2 h1 h2

end SpecVerif

namespace SpecVerif
open Pinned

/-- what the writer guarantees about a message: distinct tags below 2^16, total size below 2^32 -/
structure MsgWF (fs : List (Nat × Bytes)) : Prop where
  nodup : (fs.map (·.1)).Nodup
  tags : ∀ f ∈ fs, f.1 < 65536
  size : ((fs.map (·.2)).flatten).length + 6 * fs.length < 2 ^ 32

/-- the `(tag, end offset)` pairs of a message in write order -/
def msgPairs (fs : List (Nat × Bytes)) : List (Nat × Nat) :=
  (fs.map (·.1)).zip (endOffsets 0 (fs.map (·.2)))

theorem msgPairs_tags (fs : List (Nat × Bytes)) : (msgPairs fs).map (·.1) = fs.map (·.1) := by
  unfold msgPairs; exact zip_map_fst _ _ (by simp)

theorem msgPairs_offs_le (fs : List (Nat × Bytes)) :
    ∀ f ∈ msgPairs fs, f.2 ≤ ((fs.map (·.2)).flatten).length := by
  intro f hf
  unfold msgPairs at hf
  have := (List.of_mem_zip hf).2
  simpa using endOffsets_le 0 _ f.2 this

/-- entry widths of the two table forms -/
def twOf (big : Bool) : Nat := if big then 2 else 1
def owOf (big : Bool) : Nat := if big then 4 else 2

/-- Opening a message written by `encMsg` behind any prefix yields exactly the table the encoder
serialized (the sorted entries, in the form the encoder chose) and the data area. -/
theorem msg_open_view (p : Bytes) (fs : List (Nat × Bytes)) (wf : MsgWF fs) :
    ∃ (big : Bool) (rest : Bytes),
      openMessageErr (p ++ encMsg fs) =
        .ok ⟨⟨encMsgTable big (sortedEntries (msgPairs fs)), ((fs.map (·.2)).flatten).length, big⟩,
             (fs.map (·.2)).flatten ++ rest⟩ ∧
      (∀ f ∈ sortedEntries (msgPairs fs), f.1 < 256 ^ twOf big ∧ f.2 < 256 ^ owOf big) := by
  have hd : ((fs.map (·.2)).flatten).length < 2 ^ 32 := by have := wf.size; omega
  generalize hbig : isBigMessage (sortedEntries (msgPairs fs)) = big
  have hperm := sortedEntries_perm (msgPairs fs)
  have hplen : (msgPairs fs).length = fs.length := by unfold msgPairs; simp
  have helen : (sortedEntries (msgPairs fs)).length = fs.length := by rw [hperm.length_eq, hplen]
  have henc : encMsg fs = (fs.map (·.2)).flatten ++ encMsgTable big (sortedEntries (msgPairs fs)) ++
      putRevU32 ((fs.map (·.2)).flatten).length ++
      putRevU32 (encMsgTable big (sortedEntries (msgPairs fs))).length ++
      [if big then tBigMessage else tMessage] := by
    unfold encMsg; simp only [msgPairs] at hbig ⊢; simp only [hbig]
  have htl : (encMsgTable big (sortedEntries (msgPairs fs))).length =
      fs.length * (if big then msgFieldBig else msgFieldSmall) := by
    rw [encMsgTable_length, helen]
  have ht : (encMsgTable big (sortedEntries (msgPairs fs))).length < 2 ^ 32 := by
    have := wf.size
    rw [htl]; cases big <;> simp only [msgFieldBig, msgFieldSmall, ↓reduceIte, Bool.false_eq_true] <;> omega
  have key := decodeTable_enc tMessage tBigMessage msgFieldSmall msgFieldBig p (fs.map (·.2)).flatten
    (encMsgTable big (sortedEntries (msgPairs fs)))
    (if big then tBigMessage else tMessage) (by cases big <;> simp) (by decide)
    (by rw [htl]; cases big <;> simp [tMessage, tBigMessage, msgFieldBig, msgFieldSmall]) hd ht
  have hbt : ((if big then tBigMessage else tMessage) == tBigMessage) = big := by cases big <;> decide
  have hlast := lastN_append' p ((fs.map (·.2)).flatten ++ encMsgTable big (sortedEntries (msgPairs fs)) ++
      putRevU32 ((fs.map (·.2)).flatten).length ++
      putRevU32 (encMsgTable big (sortedEntries (msgPairs fs))).length ++ [if big then tBigMessage else tMessage])
      (((fs.map (·.2)).flatten).length + (encMsgTable big (sortedEntries (msgPairs fs))).length +
        (putRevU32 ((fs.map (·.2)).flatten).length).length +
        (putRevU32 (encMsgTable big (sortedEntries (msgPairs fs))).length).length + 1)
      (by simp only [List.length_append, List.length_singleton])
  refine ⟨big, encMsgTable big (sortedEntries (msgPairs fs)) ++ putRevU32 ((fs.map (·.2)).flatten).length ++
      putRevU32 (encMsgTable big (sortedEntries (msgPairs fs))).length ++ [if big then tBigMessage else tMessage], ?_, ?_⟩
  · unfold openMessageErr decodeMessageTable
    rw [henc, key]
    simp only
    rw [suffix_ok _ _ (by simp only [List.length_append, List.length_singleton]; omega), hlast, hbt]
    simp only [bind, Res.bind, pure, List.append_assoc]
  · intro f hf
    cases big with
    | true =>
      have hf' := hperm.mem_iff.mp hf
      have h1 : f.1 ∈ fs.map (·.1) := by rw [← msgPairs_tags]; exact List.mem_map_of_mem hf'
      obtain ⟨g, hg, hg1⟩ := List.mem_map.mp h1
      have := wf.tags g hg
      have h2 := msgPairs_offs_le fs f hf'
      simp only [twOf, owOf, ↓reduceIte]; constructor <;> omega
    | false => simpa [twOf, owOf] using small_msg_bound _ hbig f hf

/-- DecodeMessageTable on an encoded message reports exactly the encoded size -/
theorem msg_decode_size (p : Bytes) (fs : List (Nat × Bytes)) (wf : MsgWF fs) :
    ∃ T, decodeMessageTable (p ++ encMsg fs) = .ok (T, (encMsg fs).length) := by
  have hd : ((fs.map (·.2)).flatten).length < 2 ^ 32 := by have := wf.size; omega
  generalize hbig : isBigMessage (sortedEntries (msgPairs fs)) = big
  have hperm := sortedEntries_perm (msgPairs fs)
  have hplen : (msgPairs fs).length = fs.length := by unfold msgPairs; simp
  have helen : (sortedEntries (msgPairs fs)).length = fs.length := by rw [hperm.length_eq, hplen]
  have henc : encMsg fs = (fs.map (·.2)).flatten ++ encMsgTable big (sortedEntries (msgPairs fs)) ++
      putRevU32 ((fs.map (·.2)).flatten).length ++
      putRevU32 (encMsgTable big (sortedEntries (msgPairs fs))).length ++
      [if big then tBigMessage else tMessage] := by
    unfold encMsg; simp only [msgPairs] at hbig ⊢; simp only [hbig]
  have htl : (encMsgTable big (sortedEntries (msgPairs fs))).length =
      fs.length * (if big then msgFieldBig else msgFieldSmall) := by
    rw [encMsgTable_length, helen]
  have ht : (encMsgTable big (sortedEntries (msgPairs fs))).length < 2 ^ 32 := by
    have := wf.size
    rw [htl]; cases big <;> simp only [msgFieldBig, msgFieldSmall, ↓reduceIte, Bool.false_eq_true] <;> omega
  have key := decodeTable_enc tMessage tBigMessage msgFieldSmall msgFieldBig p (fs.map (·.2)).flatten
    (encMsgTable big (sortedEntries (msgPairs fs)))
    (if big then tBigMessage else tMessage) (by cases big <;> simp) (by decide)
    (by rw [htl]; cases big <;> simp [tMessage, tBigMessage, msgFieldBig, msgFieldSmall]) hd ht
  unfold decodeMessageTable
  rw [henc, key]
  refine ⟨⟨encMsgTable big (sortedEntries (msgPairs fs)), ((fs.map (·.2)).flatten).length,
    (if big then tBigMessage else tMessage) == tBigMessage⟩, ?_⟩
  simp only [List.length_append, List.length_singleton]

/-- the serialized table of an opened message, as a strictly sorted view of the entries -/
theorem msg_view (fs : List (Nat × Bytes)) (wf : MsgWF fs) (big : Bool) (dl : Nat)
    (hb : ∀ f ∈ sortedEntries (msgPairs fs), f.1 < 256 ^ twOf big ∧ f.2 < 256 ^ owOf big) :
    let T : Table := ⟨encMsgTable big (sortedEntries (msgPairs fs)), dl, big⟩
    TableView T.table T.entrySize T.tagSize ((sortedEntries (msgPairs fs)).map (·.1))
        ((sortedEntries (msgPairs fs)).map (·.2)) ∧
    StrictSorted ((sortedEntries (msgPairs fs)).map (·.1)) ∧
    T.table.length = ((sortedEntries (msgPairs fs)).map (·.1)).length * T.entrySize ∧
    T.msgLen = fs.length := by
  intro T
  have hnd : ((msgPairs fs).map (·.1)).Nodup := by rw [msgPairs_tags]; exact wf.nodup
  have hsorted := strictSorted_of_tagsSorted _ (sortedEntries_sorted (msgPairs fs) hnd)
  have V := tableView_entries (twOf big) (owOf big) (sortedEntries (msgPairs fs)) hb
  have heq : encMsgTable big (sortedEntries (msgPairs fs)) =
      (sortedEntries (msgPairs fs)).flatMap (encEntry (twOf big) (owOf big)) := by
    rw [encMsgTable_eq]; rfl
  have hes : T.entrySize = twOf big + owOf big := by
    simp only [T, Table.entrySize, twOf, owOf]; cases big <;> rfl
  have hts : T.tagSize = twOf big := by simp only [T, Table.tagSize, twOf]
  have hlen' : T.table.length = ((sortedEntries (msgPairs fs)).map (·.1)).length * T.entrySize := by
    simp only [T, List.length_map, Table.entrySize]
    rw [encMsgTable_length]
  refine ⟨?_, hsorted, hlen', ?_⟩
  · rw [hes, hts]
    simp only [T]
    rw [heq]
    have : twOf big + owOf big - twOf big = owOf big := by omega
    refine ⟨V.len, V.tagAt, ?_⟩
    intro i hi
    have h := V.offAt i hi
    rw [this] at h
    rw [this]
    exact h
  · have hperm := sortedEntries_perm (msgPairs fs)
    have hplen : (msgPairs fs).length = fs.length := by unfold msgPairs; simp
    unfold Table.msgLen
    rw [hlen', Nat.mul_div_cancel _ (entrySize_pos T)]
    simp [hperm.length_eq, hplen]

/-- by tag: `Offset(tag)` is the end offset of the field written under `tag`, or nothing -/
theorem msg_open (p : Bytes) (fs : List (Nat × Bytes)) (wf : MsgWF fs) :
    ∃ M, openMessageErr (p ++ encMsg fs) = .ok M ∧ M.fields = fs.length ∧
      M.table.data = ((fs.map (·.2)).flatten).length ∧
      (∃ rest, M.bytes = (fs.map (·.2)).flatten ++ rest) ∧
      ∀ tag, (∃ o, (tag, o) ∈ msgPairs fs ∧ M.table.msgOffset tag = .ok (some o)) ∨
             (tag ∉ fs.map (·.1) ∧ M.table.msgOffset tag = .ok none) := by
  obtain ⟨big, rest, hopen, hb⟩ := msg_open_view p fs wf
  obtain ⟨V, hsorted, hlen', hml⟩ := msg_view fs wf big ((fs.map (·.2)).flatten).length hb
  have hperm := sortedEntries_perm (msgPairs fs)
  refine ⟨_, hopen, hml, rfl, ⟨rest, rfl⟩, ?_⟩
  intro tag
  rcases msgOffset_view _ _ _ V hsorted hlen' tag with ⟨i, hi, htag, hoff⟩ | ⟨hnone, hoff⟩
  · left
    simp only [List.length_map] at hi
    refine ⟨((sortedEntries (msgPairs fs))[i]).2, ?_, ?_⟩
    · have hm : (sortedEntries (msgPairs fs))[i] ∈ sortedEntries (msgPairs fs) := List.getElem_mem hi
      have : (sortedEntries (msgPairs fs))[i] = (tag, ((sortedEntries (msgPairs fs))[i]).2) := by
        simp only [List.getElem_map] at htag
        rw [← htag]
      rw [this] at hm
      exact hperm.mem_iff.mp hm
    · simpa using hoff
  · right
    refine ⟨?_, hoff⟩
    intro hmem
    rw [← msgPairs_tags] at hmem
    obtain ⟨f, hf, hf1⟩ := List.mem_map.mp hmem
    have hf' := hperm.mem_iff.mpr hf
    obtain ⟨i, hi, hget⟩ := List.getElem_of_mem hf'
    have := hnone i (by simpa using hi)
    simp only [List.getElem_map] at this
    rw [hget] at this
    exact this hf1

/-- by index: entry `i` of the table is one of the written `(tag, end offset)` pairs -/
theorem msg_open_index (p : Bytes) (fs : List (Nat × Bytes)) (wf : MsgWF fs) :
    ∃ M, openMessageErr (p ++ encMsg fs) = .ok M ∧ M.fields = fs.length ∧
      M.table.data = ((fs.map (·.2)).flatten).length ∧
      (∃ rest, M.bytes = (fs.map (·.2)).flatten ++ rest) ∧
      ∀ i, i < fs.length → ∃ tag o, (tag, o) ∈ msgPairs fs ∧
        M.table.msgOffsetByIndex i = .ok (some o) ∧ M.table.msgFieldEntry i = .ok (some (tag, o)) := by
  obtain ⟨big, rest, hopen, hb⟩ := msg_open_view p fs wf
  obtain ⟨V, hsorted, hlen', hml⟩ := msg_view fs wf big ((fs.map (·.2)).flatten).length hb
  have hperm := sortedEntries_perm (msgPairs fs)
  have hplen : (msgPairs fs).length = fs.length := by unfold msgPairs; simp
  have helen : (sortedEntries (msgPairs fs)).length = fs.length := by rw [hperm.length_eq, hplen]
  refine ⟨_, hopen, hml, rfl, ⟨rest, rfl⟩, ?_⟩
  intro i hi
  have hi' : i < (sortedEntries (msgPairs fs)).length := by omega
  refine ⟨((sortedEntries (msgPairs fs))[i]).1, ((sortedEntries (msgPairs fs))[i]).2,
    hperm.mem_iff.mp (List.getElem_mem hi'), ?_, ?_⟩
  · unfold Table.msgOffsetByIndex
    have c : ¬ (i ≥ Table.msgLen ⟨encMsgTable big (sortedEntries (msgPairs fs)), ((fs.map (·.2)).flatten).length, big⟩) := by
      rw [hml]; omega
    simp only [c, ↓reduceIte]
    have := V.offAt i (by simpa using hi')
    simp only [List.getElem_map] at this
    rw [this]
  · unfold Table.msgFieldEntry
    have c : ¬ (i ≥ Table.msgLen ⟨encMsgTable big (sortedEntries (msgPairs fs)), ((fs.map (·.2)).flatten).length, big⟩) := by
      rw [hml]; omega
    simp only [c, ↓reduceIte]
    have h1 := V.tagAt i (by simpa using hi')
    have h2 := V.offAt i (by simpa using hi')
    simp only [List.getElem_map] at h1 h2
    rw [h1, h2]

/-- by index, exactly: entry `i` of the table is entry `i` of the sorted `(tag, end offset)` pairs -/
theorem msg_open_sorted (p : Bytes) (fs : List (Nat × Bytes)) (wf : MsgWF fs) :
    ∃ M, openMessageErr (p ++ encMsg fs) = .ok M ∧ M.fields = fs.length ∧
      M.table.data = ((fs.map (·.2)).flatten).length ∧
      (∃ rest, M.bytes = (fs.map (·.2)).flatten ++ rest) ∧
      (sortedEntries (msgPairs fs)).length = fs.length ∧
      ∀ i (hi : i < (sortedEntries (msgPairs fs)).length),
        M.table.msgOffsetByIndex i = .ok (some ((sortedEntries (msgPairs fs))[i]).2) ∧
        M.table.msgFieldEntry i = .ok (some ((sortedEntries (msgPairs fs))[i])) := by
  obtain ⟨big, rest, hopen, hb⟩ := msg_open_view p fs wf
  obtain ⟨V, hsorted, hlen', hml⟩ := msg_view fs wf big ((fs.map (·.2)).flatten).length hb
  have hperm := sortedEntries_perm (msgPairs fs)
  have hplen : (msgPairs fs).length = fs.length := by unfold msgPairs; simp
  have helen : (sortedEntries (msgPairs fs)).length = fs.length := by rw [hperm.length_eq, hplen]
  refine ⟨_, hopen, hml, rfl, ⟨rest, rfl⟩, helen, ?_⟩
  intro i hi'
  have hi : i < fs.length := by omega
  refine ⟨?_, ?_⟩
  · unfold Table.msgOffsetByIndex
    have c : ¬ (i ≥ Table.msgLen ⟨encMsgTable big (sortedEntries (msgPairs fs)), ((fs.map (·.2)).flatten).length, big⟩) := by
      rw [hml]; omega
    simp only [c, ↓reduceIte]
    have := V.offAt i (by simpa using hi')
    simp only [List.getElem_map] at this
    rw [this]
  · unfold Table.msgFieldEntry
    have c : ¬ (i ≥ Table.msgLen ⟨encMsgTable big (sortedEntries (msgPairs fs)), ((fs.map (·.2)).flatten).length, big⟩) := by
      rw [hml]; omega
    simp only [c, ↓reduceIte]
    have h1 := V.tagAt i (by simpa using hi')
    have h2 := V.offAt i (by simpa using hi')
    simp only [List.getElem_map] at h1 h2
    rw [h1, h2]

end SpecVerif
