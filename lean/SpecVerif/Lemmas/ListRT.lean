/-
C01 helper lemmas: a list laid out by `encList` is read back element by element.
-/
import SpecVerif.Lemmas.Container
namespace SpecVerif
open Pinned

@[simp] theorem endOffsets_length (acc : Nat) (es : List Bytes) : (endOffsets acc es).length = es.length := by
  induction es generalizing acc with
  | nil => rfl
  | cons e es ih => simp [endOffsets, ih]

/-- offset of the element at a split point -/
theorem endOffsets_split (acc : Nat) (l : List Bytes) (e : Bytes) (r : List Bytes) :
    (endOffsets acc (l ++ e :: r))[l.length]? = some (acc + l.flatten.length + e.length) := by
  induction l generalizing acc with
  | nil => simp [endOffsets]
  | cons x l ih =>
    simp only [List.cons_append, endOffsets, List.length_cons, List.getElem?_cons_succ, List.flatten_cons,
      List.length_append]
    rw [ih]; congr 1; omega

/-- the previous offset is the start of the element -/
theorem endOffsets_prev (acc : Nat) (l : List Bytes) (x e : Bytes) (r : List Bytes) :
    (endOffsets acc ((l ++ [x]) ++ e :: r))[l.length]? = some (acc + (l ++ [x]).flatten.length) := by
  have := endOffsets_split acc l x (e :: r)
  simp only [List.append_assoc, List.singleton_append] at this ⊢
  rw [this]; simp; omega

theorem flatten_cons_length (e : Bytes) (es : List Bytes) :
    (e :: es).flatten.length = e.length + es.flatten.length := by
  simp only [List.flatten_cons, List.length_append]

theorem endOffsets_le (acc : Nat) (es : List Bytes) : ∀ o ∈ endOffsets acc es, o ≤ acc + es.flatten.length := by
  induction es generalizing acc with
  | nil => simp [endOffsets]
  | cons e es ih =>
    intro o ho
    simp only [endOffsets, List.mem_cons] at ho
    rw [flatten_cons_length]
    rcases ho with h | h
    · subst h; omega
    · have := ih (acc + e.length) o h
      omega

theorem endOffsets_getLast (acc : Nat) (es : List Bytes) (h : es ≠ []) :
    (endOffsets acc es).getLast? = some (acc + es.flatten.length) := by
  induction es generalizing acc with
  | nil => exact absurd rfl h
  | cons e es ih =>
    rw [flatten_cons_length]
    cases es with
    | nil => simp [endOffsets]
    | cons e2 es =>
      have := ih (acc + e.length) (by simp)
      simp only [endOffsets] at this ⊢
      rw [List.getLast?_cons_cons, this]
      congr 1; omega

/-- in the small form every offset fits two bytes -/
theorem small_list_bound (es : List Bytes) (h : isBigList (endOffsets 0 es) = false) :
    ∀ o ∈ endOffsets 0 es, o < 256 ^ 2 := by
  intro o ho
  have hne : es ≠ [] := by intro h0; subst h0; simp [endOffsets] at ho
  have hl := endOffsets_getLast 0 es hne
  have hle := endOffsets_le 0 es o ho
  unfold isBigList at h
  rw [hl] at h
  simp only [Nat.zero_add, endOffsets_length, Bool.or_eq_false_iff, decide_eq_false_iff_not,
    Nat.not_lt] at h
  omega

theorem encListTable_length (big : Bool) (offs : List Nat) :
    (encListTable big offs).length = offs.length * (if big then listElemBig else listElemSmall) := by
  unfold encListTable
  induction offs with
  | nil => simp
  | cons o os ih => simp only [List.flatMap_cons, List.length_append, toBE_length, ih, List.length_cons, Nat.succ_mul]; omega

theorem flatMap_toBE_length (k : Nat) (xs : List Nat) :
    (xs.flatMap fun o => toBE k o).length = xs.length * k := by
  induction xs with
  | nil => simp
  | cons o os ih =>
    simp only [List.flatMap_cons, List.length_append, toBE_length, List.length_cons, Nat.succ_mul, ih]
    omega

theorem getElem_of_getElem? {α} (xs : List α) (i : Nat) (v : α) (h : xs[i]? = some v) :
    ∃ hi : i < xs.length, xs[i] = v := by
  have hi : i < xs.length := by
    by_cases c : i < xs.length
    · exact c
    · rw [List.getElem?_eq_none (by omega)] at h; simp at h
  refine ⟨hi, ?_⟩
  rw [List.getElem?_eq_getElem hi] at h
  exact Option.some.inj h

/-- Get(i) on a list value whose table holds `offs` in entries of width `k` -/
theorem getBytes_core (k : Nat) (big : Bool) (hk : (if big then listElemBig else listElemSmall) = k)
    (hk0 : 0 < k) (offs : List Nat) (hbound : ∀ o ∈ offs, o < 256 ^ k)
    (l : List Bytes) (e : Bytes) (r : List Bytes) (rest : Bytes)
    (hoff : offs[l.length]? = some (l.flatten.length + e.length))
    (hprev : ∀ l0 x, l = l0 ++ [x] → offs[l0.length]? = some l.flatten.length) :
    (ListV.mk ⟨offs.flatMap (fun o => toBE k o), (l ++ e :: r).flatten.length, big⟩
        ((l ++ e :: r).flatten ++ rest)).getBytes l.length = .ok e := by
  obtain ⟨hi, hget⟩ := getElem_of_getElem? _ _ _ hoff
  have hdata : (l ++ e :: r).flatten = l.flatten ++ e ++ r.flatten := by simp
  unfold ListV.getBytes Table.listOffset
  simp only [hk, flatMap_toBE_length]
  have c1 : ¬ (l.length ≥ offs.length * k / k) := by
    rw [Nat.mul_div_cancel _ hk0]; omega
  simp only [c1, ↓reduceIte]
  have hread := readBE_flatMap k offs l.length hi hbound
  rw [hget] at hread
  rw [hread]
  by_cases c0 : l.length > 0
  · have hne : l ≠ [] := by intro h0; subst h0; simp at c0
    have hl0 : l = l.dropLast ++ [l.getLast hne] := (List.dropLast_concat_getLast hne).symm
    have hp := hprev _ _ hl0
    have hlen1 : l.dropLast.length = l.length - 1 := by simp
    rw [hlen1] at hp
    obtain ⟨hi2, hget2⟩ := getElem_of_getElem? _ _ _ hp
    have hread2 := readBE_flatMap k offs (l.length - 1) hi2 hbound
    rw [hget2] at hread2
    have e1 : l.length * k - k = (l.length - 1) * k := by
      rw [Nat.sub_mul]; simp
    simp only [c0, ↓reduceIte, e1, hread2]
    have c2 : ¬ (l.flatten.length + e.length > (l ++ e :: r).flatten.length ∨
        l.flatten.length > l.flatten.length + e.length) := by
      rw [hdata]; simp only [List.length_append]; omega
    simp only [c2, ↓reduceIte]
    rw [slice?_some _ _ _ (by omega) (by rw [hdata]; simp only [List.length_append]; omega)]
    congr 1
    rw [hdata]
    have : l.flatten ++ e ++ r.flatten ++ rest = l.flatten ++ e ++ (r.flatten ++ rest) := by simp
    rw [this, mid_slice l.flatten e _ _ _ rfl rfl]
  · have hl0 : l = [] := by
      cases l with
      | nil => rfl
      | cons a b => simp at c0
    subst hl0
    simp only [c0, ↓reduceIte]
    simp only [List.flatten_nil, List.length_nil, Nat.zero_add, List.nil_append] at hdata ⊢
    have c2 : ¬ (e.length > (e :: r).flatten.length ∨ 0 > e.length) := by
      rw [flatten_cons_length]; omega
    simp only [c2, ↓reduceIte]
    rw [slice?_some _ _ _ (by omega) (by simp only [List.length_append, flatten_cons_length]; omega)]
    have : (e :: r).flatten ++ rest = [] ++ e ++ (r.flatten ++ rest) := by simp
    rw [this, mid_slice [] e _ 0 _ rfl (by simp)]

/-- Reading back a list: `Len` is the number of elements and `Get(i)` returns exactly element `i`,
behind any prefix, in the small and in the big table form. -/
theorem list_get (p : Bytes) (l : List Bytes) (e : Bytes) (r : List Bytes)
    (hsz : (l ++ e :: r).flatten.length + 4 * (l ++ e :: r).length < 2 ^ 32) :
    ∃ L, openListErr (p ++ encList (l ++ e :: r)) = .ok L ∧ L.len = (l ++ e :: r).length ∧
      L.getBytes l.length = .ok e := by
  have hd : (l ++ e :: r).flatten.length < 2 ^ 32 := by omega
  -- fix the table form
  generalize hbig : isBigList (endOffsets 0 (l ++ e :: r)) = big
  have henc : encList (l ++ e :: r) = (l ++ e :: r).flatten ++ encListTable big (endOffsets 0 (l ++ e :: r)) ++
      putRevU32 (l ++ e :: r).flatten.length ++
      putRevU32 (encListTable big (endOffsets 0 (l ++ e :: r))).length ++ [if big then tBigList else tList] := by
    unfold encList; simp only [hbig]
  have htl : (encListTable big (endOffsets 0 (l ++ e :: r))).length =
      (l ++ e :: r).length * (if big then listElemBig else listElemSmall) := by
    rw [encListTable_length, endOffsets_length]
  have ht : (encListTable big (endOffsets 0 (l ++ e :: r))).length < 2 ^ 32 := by
    rw [htl]; cases big <;> simp only [listElemBig, listElemSmall, ↓reduceIte, Bool.false_eq_true] <;> omega
  have key := decodeTable_enc tList tBigList listElemSmall listElemBig p (l ++ e :: r).flatten
    (encListTable big (endOffsets 0 (l ++ e :: r)))
    (if big then tBigList else tList) (by cases big <;> simp) (by decide)
    (by rw [htl]; cases big <;> simp [tList, tBigList, listElemBig, listElemSmall]) hd ht
  unfold openListErr decodeListTable
  rw [henc, key]
  simp only
  rw [suffix_ok _ _ (by simp only [List.length_append, List.length_singleton]; omega)]
  have hbt : ((if big then tBigList else tList) == tBigList) = big := by cases big <;> decide
  have hlast := lastN_append' p ((l ++ e :: r).flatten ++ encListTable big (endOffsets 0 (l ++ e :: r)) ++
      putRevU32 (l ++ e :: r).flatten.length ++
      putRevU32 (encListTable big (endOffsets 0 (l ++ e :: r))).length ++ [if big then tBigList else tList])
      ((l ++ e :: r).flatten.length + (encListTable big (endOffsets 0 (l ++ e :: r))).length +
        (putRevU32 (l ++ e :: r).flatten.length).length +
        (putRevU32 (encListTable big (endOffsets 0 (l ++ e :: r))).length).length + 1)
      (by simp only [List.length_append, List.length_singleton])
  refine ⟨_, rfl, ?_, ?_⟩
  · simp only [ListV.len, Table.listLen, hbt, htl]
    cases big <;> simp [listElemBig, listElemSmall]
  · rw [hlast, hbt]
    have hbound : ∀ o ∈ endOffsets 0 (l ++ e :: r), o < 256 ^ (if big then listElemBig else listElemSmall) := by
      intro o ho
      cases big with
      | true =>
        have := endOffsets_le 0 _ o ho
        simp only [listElemBig, ↓reduceIte]; omega
      | false => simpa [listElemSmall] using small_list_bound _ hbig o ho
    have hoff : (endOffsets 0 (l ++ e :: r))[l.length]? = some (l.flatten.length + e.length) := by
      simpa using endOffsets_split 0 l e r
    have hprev : ∀ l0 x, l = l0 ++ [x] → (endOffsets 0 (l ++ e :: r))[l0.length]? = some l.flatten.length := by
      intro l0 x hl
      have := endOffsets_prev 0 l0 x e r
      rw [← hl] at this; simpa using this
    have core := getBytes_core (if big then listElemBig else listElemSmall) big rfl
      (by cases big <;> simp [listElemBig, listElemSmall]) _ hbound l e r
      (encListTable big (endOffsets 0 (l ++ e :: r)) ++ putRevU32 (l ++ e :: r).flatten.length ++
        putRevU32 (encListTable big (endOffsets 0 (l ++ e :: r))).length ++ [if big then tBigList else tList])
      hoff hprev
    have eb : (l ++ e :: r).flatten ++ encListTable big (endOffsets 0 (l ++ e :: r)) ++
        putRevU32 (l ++ e :: r).flatten.length ++
        putRevU32 (encListTable big (endOffsets 0 (l ++ e :: r))).length ++ [if big then tBigList else tList] =
        (l ++ e :: r).flatten ++ (encListTable big (endOffsets 0 (l ++ e :: r)) ++
        putRevU32 (l ++ e :: r).flatten.length ++
        putRevU32 (encListTable big (endOffsets 0 (l ++ e :: r))).length ++ [if big then tBigList else tList]) := by
      simp only [List.append_assoc]
    rw [eb]
    exact core

/-- DecodeListTable on an encoded list: the table the encoder wrote and exactly the encoded size -/
theorem list_decode (p : Bytes) (es : List Bytes) (hsz : es.flatten.length + 4 * es.length < 2 ^ 32) :
    decodeListTable (p ++ encList es) =
      .ok (⟨encListTable (isBigList (endOffsets 0 es)) (endOffsets 0 es), es.flatten.length,
            isBigList (endOffsets 0 es)⟩, (encList es).length) := by
  have hd : es.flatten.length < 2 ^ 32 := by omega
  generalize hbig : isBigList (endOffsets 0 es) = big
  have henc : encList es = es.flatten ++ encListTable big (endOffsets 0 es) ++
      putRevU32 es.flatten.length ++
      putRevU32 (encListTable big (endOffsets 0 es)).length ++ [if big then tBigList else tList] := by
    unfold encList; simp only [hbig]
  have htl : (encListTable big (endOffsets 0 es)).length =
      es.length * (if big then listElemBig else listElemSmall) := by
    rw [encListTable_length, endOffsets_length]
  have ht : (encListTable big (endOffsets 0 es)).length < 2 ^ 32 := by
    rw [htl]; cases big <;> simp only [listElemBig, listElemSmall, ↓reduceIte, Bool.false_eq_true] <;> omega
  have key := decodeTable_enc tList tBigList listElemSmall listElemBig p es.flatten
    (encListTable big (endOffsets 0 es))
    (if big then tBigList else tList) (by cases big <;> simp) (by decide)
    (by rw [htl]; cases big <;> simp [tList, tBigList, listElemBig, listElemSmall]) hd ht
  have hbt : ((if big then tBigList else tList) == tBigList) = big := by cases big <;> decide
  unfold decodeListTable
  rw [henc, key, hbt]
  simp only [List.length_append, List.length_singleton]

theorem openListErr_enc (p : Bytes) (es : List Bytes) (hsz : es.flatten.length + 4 * es.length < 2 ^ 32) :
    openListErr (p ++ encList es) =
      .ok ⟨⟨encListTable (isBigList (endOffsets 0 es)) (endOffsets 0 es), es.flatten.length,
            isBigList (endOffsets 0 es)⟩, encList es⟩ := by
  unfold openListErr
  rw [list_decode p es hsz]
  simp only
  rw [suffix_ok _ _ (by simp), lastN_append]
  rfl

end SpecVerif
