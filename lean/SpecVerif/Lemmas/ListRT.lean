/-
C01 helper lemmas: a list laid out by `encList` is read back element by element.
-/
import SpecVerif.Lemmas.Container
namespace SpecVerif
open Pinned

@[simp] theorem endOffsets_length (acc : Nat) (es : List Bytes) : (endOffsets acc es).length = es.length := by
  induction es generalizing acc with
  | nil => rfl
  | cons e es ih => simp [endOffsets, ih]

/-- offset of the element at a split point -/
theorem endOffsets_split (acc : Nat) (l : List Bytes) (e : Bytes) (r : List Bytes) :
    (endOffsets acc (l ++ e :: r))[l.length]? = some (acc + l.flatten.length + e.length) := by
  induction l generalizing acc with
  | nil => simp [endOffsets]
  | cons x l ih =>
    simp only [List.cons_append, endOffsets, List.length_cons, List.getElem?_cons_succ, List.flatten_cons,
      List.length_append]
    rw [ih]; congr 1; omega

/-- the previous offset is the start of the element -/
theorem endOffsets_prev (acc : Nat) (l : List Bytes) (x e : Bytes) (r : List Bytes) :
    (endOffsets acc ((l ++ [x]) ++ e :: r))[l.length]? = some (acc + (l ++ [x]).flatten.length) := by
  have := endOffsets_split acc l x (e :: r)
  simp only [List.append_assoc, List.singleton_append] at this ⊢
  rw [this]; simp; omega

theorem endOffsets_le (acc : Nat) (es : List Bytes) : ∀ o ∈ endOffsets acc es, o ≤ acc + es.flatten.length := by
  induction es generalizing acc with
  | nil => simp [endOffsets]
  | cons e es ih =>
    intro o ho
    simp only [endOffsets, List.mem_cons] at ho
    rcases ho with h | h
    · subst h; simp
    · have := ih (acc + e.length) o h
      simp; omega

theorem endOffsets_getLast (acc : Nat) (es : List Bytes) (h : es ≠ []) :
    (endOffsets acc es).getLast? = some (acc + es.flatten.length) := by
  induction es generalizing acc with
  | nil => exact absurd rfl h
  | cons e es ih =>
    cases es with
    | nil => simp [endOffsets]
    | cons e2 es =>
      have := ih (acc + e.length) (by simp)
      simp only [endOffsets] at this ⊢
      rw [List.getLast?_cons_cons, this]
      simp; omega

/-- in the small form every offset fits two bytes -/
theorem small_list_bound (es : List Bytes) (h : isBigList (endOffsets 0 es) = false) :
    ∀ o ∈ endOffsets 0 es, o < 256 ^ 2 := by
  intro o ho
  have hne : es ≠ [] := by intro h0; subst h0; simp [endOffsets] at ho
  have hl := endOffsets_getLast 0 es hne
  have hle := endOffsets_le 0 es o ho
  unfold isBigList at h
  rw [hl] at h
  simp at h
  omega

theorem encListTable_length (big : Bool) (offs : List Nat) :
    (encListTable big offs).length = offs.length * (if big then listElemBig else listElemSmall) := by
  unfold encListTable
  induction offs with
  | nil => simp
  | cons o os ih => simp [List.flatMap_cons, ih, Nat.succ_mul]; omega

/-- Reading back a list: `Len` is the number of elements and `Get(i)` returns exactly element `i`,
behind any prefix, in the small and in the big table form. -/
theorem list_get (p : Bytes) (l : List Bytes) (e : Bytes) (r : List Bytes)
    (hsz : (l ++ e :: r).flatten.length + 4 * (l ++ e :: r).length < 2 ^ 32) :
    ∃ L, openListErr (p ++ encList (l ++ e :: r)) = .ok L ∧ L.len = (l ++ e :: r).length ∧
      L.getBytes l.length = .ok e := by
  generalize hes : l ++ e :: r = es at *
  have hd : es.flatten.length < 2 ^ 32 := by omega
  let offs := endOffsets 0 es
  let big := isBigList offs
  have htl : (encListTable big offs).length = es.length * (if big then 4 else 2) := by
    rw [encListTable_length]; simp [offs, listElemBig, listElemSmall]
  have ht : (encListTable big offs).length < 2 ^ 32 := by
    rw [htl]; split <;> omega
  have key := decodeTable_enc tList tBigList listElemSmall listElemBig p es.flatten (encListTable big offs)
    (if big then tBigList else tList) (by cases big <;> simp) (by decide)
    (by rw [htl]; cases big <;> simp [tList, tBigList, listElemBig, listElemSmall]) hd ht
  have henc : encList es = es.flatten ++ encListTable big offs ++ putRevU32 es.flatten.length ++
      putRevU32 (encListTable big offs).length ++ [if big then tBigList else tList] := rfl
  unfold openListErr decodeListTable
  rw [henc, key]
  simp only
  rw [suffix_ok _ _ (by simp; omega)]
  have hbig : ((if big then tBigList else tList) == tBigList) = big := by cases big <;> decide
  refine ⟨_, rfl, ?_, ?_⟩
  · -- Len
    simp only [ListV.len, Table.listLen, hbig, htl]
    cases big <;> simp [listElemBig, listElemSmall]
  · -- Get
    have hlast : lastN (es.flatten.length + (encListTable big offs).length + (putRevU32 es.flatten.length).length +
        (putRevU32 (encListTable big offs).length).length + 1)
        (p ++ (es.flatten ++ encListTable big offs ++ putRevU32 es.flatten.length ++
          putRevU32 (encListTable big offs).length ++ [if big then tBigList else tList])) =
        es.flatten ++ encListTable big offs ++ putRevU32 es.flatten.length ++
          putRevU32 (encListTable big offs).length ++ [if big then tBigList else tList] :=
      lastN_append' _ _ _ (by simp; omega)
    rw [hlast]
    -- offsets fit the entry width
    have hbound : ∀ o ∈ offs, o < 256 ^ (if big then 4 else 2) := by
      intro o ho
      cases hb : big with
      | true =>
        have := endOffsets_le 0 es o ho
        simp; omega
      | false => simpa using small_list_bound es hb o ho
    have hi : l.length < offs.length := by simp [offs, ← hes]
    have hoff : offs[l.length]? = some (l.flatten.length + e.length) := by
      have := endOffsets_split 0 l e r
      rw [hes] at this; simpa [offs] using this
    have hget : offs[l.length] = l.flatten.length + e.length := by
      have := List.getElem?_eq_getElem hi; rw [hoff] at this; exact (Option.some.inj this).symm
    have hread : readBE (encListTable big offs) (l.length * (if big then 4 else 2)) (if big then 4 else 2) =
        some (l.flatten.length + e.length) := by
      have := readBE_flatMap (if big then 4 else 2) offs l.length hi hbound
      rw [hget] at this
      unfold encListTable
      cases big <;> simpa [listElemBig, listElemSmall] using this
    have hdata : es.flatten = l.flatten ++ e ++ r.flatten := by rw [← hes]; simp
    unfold ListV.getBytes Table.listOffset
    simp only [hbig, htl]
    have c1 : ¬ (l.length ≥ es.length * (if big then 4 else 2) / (if big then listElemBig else listElemSmall)) := by
      have : es.length * (if big then 4 else 2) / (if big then listElemBig else listElemSmall) = es.length := by
        cases big <;> simp [listElemBig, listElemSmall]
      rw [this, ← hes]; simp
    simp only [c1, ↓reduceIte]
    have hes2 : (if big then listElemBig else listElemSmall) = (if big then 4 else 2) := by
      cases big <;> rfl
    rw [hes2, hread]
    by_cases c0 : l.length > 0
    · -- previous offset = start
      obtain ⟨l0, x, hl0⟩ : ∃ l0 x, l = l0 ++ [x] := by
        have hne : l ≠ [] := by intro h0; subst h0; simp at c0
        exact ⟨l.dropLast, l.getLast hne, (List.dropLast_concat_getLast hne).symm⟩
      have hprev : offs[l.length - 1]? = some l.flatten.length := by
        have := endOffsets_prev 0 l0 x e r
        rw [← hl0, hes] at this
        have hl1 : l.length - 1 = l0.length := by rw [hl0]; simp
        rw [hl1]; simpa [offs, hl0] using this
      have hi2 : l.length - 1 < offs.length := by omega
      have hget2 : offs[l.length - 1] = l.flatten.length := by
        have := List.getElem?_eq_getElem hi2; rw [hprev] at this; exact (Option.some.inj this).symm
      have hread2 : readBE (encListTable big offs) (l.length * (if big then 4 else 2) - (if big then 4 else 2))
          (if big then 4 else 2) = some l.flatten.length := by
        have := readBE_flatMap (if big then 4 else 2) offs (l.length - 1) hi2 hbound
        rw [hget2] at this
        have e1 : l.length * (if big then 4 else 2) - (if big then 4 else 2) = (l.length - 1) * (if big then 4 else 2) := by
          cases big <;> simp <;> omega
        rw [e1]
        unfold encListTable
        cases big <;> simpa [listElemBig, listElemSmall] using this
      simp only [c0, ↓reduceIte, hread2]
      have c2 : ¬ (l.flatten.length + e.length > es.flatten.length ∨ l.flatten.length > l.flatten.length + e.length) := by
        rw [hdata]; simp; omega
      simp only [c2, ↓reduceIte]
      rw [slice?_some _ _ _ (by omega) (by rw [hdata]; simp; omega)]
      congr 1
      rw [hdata]
      have : l.flatten ++ e ++ r.flatten ++ encListTable big offs ++ putRevU32 (l.flatten ++ e ++ r.flatten).length ++
          putRevU32 (encListTable big offs).length ++ [if big then tBigList else tList] =
          l.flatten ++ e ++ (r.flatten ++ encListTable big offs ++ putRevU32 (l.flatten ++ e ++ r.flatten).length ++
          putRevU32 (encListTable big offs).length ++ [if big then tBigList else tList]) := by simp
      rw [this]
      exact mid_slice l.flatten e _ _ _ rfl rfl
    · have hl0 : l = [] := by
        cases l with
        | nil => rfl
        | cons a b => simp at c0
      subst hl0
      simp only [c0, ↓reduceIte]
      simp only [List.flatten_nil, List.length_nil, Nat.zero_add] at hdata ⊢
      have c2 : ¬ (e.length > es.flatten.length ∨ 0 > e.length) := by
        rw [hdata]; simp
      simp only [c2, ↓reduceIte]
      rw [slice?_some _ _ _ (by omega) (by rw [hdata]; simp; omega)]
      congr 1
      rw [hdata]
      simp

end SpecVerif
