/-
C01: the recursive parser accepts every valid encoding, behind any prefix, and consumes exactly the
bytes that were produced.
-/
import SpecVerif.Lemmas.Valid
namespace SpecVerif
open Pinned

section
variable (F : FloatOps)

theorem guardSize_ok (len n : Nat) (h : n ≤ len) : guardSize len (.ok n) = .ok n := by
  unfold guardSize; simp; omega

/-- the dispatch of ParseValue on a buffer ending in a concrete type code -/
macro "parse_nav" : tactic => `(tactic| (
  simp only [parseValue, decodeType_snoc]
  repeat (first | rw [if_neg (by decide)] | rw [if_pos (by decide)])))

theorem parse_of_decoder {α} (d : Bytes → Res (α × Nat)) (x : Bytes) (v : α) (n : Nat)
    (h : d x = .ok (v, n)) (hn : n ≤ x.length) :
    guardSize x.length ((d x).bind fun y => Res.ok y.2) = .ok n := by
  rw [h]; simp only [Res.bind]; exact guardSize_ok _ _ hn

/-- scalars: ParseValue returns the encoded size -/
theorem parse_scalar (L : C10.FloatLaws F) (b : Bytes) (q : Bytes) (f : Nat)
    (hb : (∃ v, b = encBool v) ∨ (∃ v, b = encByte v) ∨
      (∃ v, b = encInt16 v ∧ -32768 ≤ v ∧ v ≤ 32767) ∨
      (∃ v, b = encInt32 v ∧ -2147483648 ≤ v ∧ v ≤ 2147483647) ∨
      (∃ v, b = encInt64 v ∧ -9223372036854775808 ≤ v ∧ v ≤ 9223372036854775807) ∨
      (∃ v, b = encUint16 v ∧ v ≤ 65535) ∨ (∃ v, b = encUint32 v ∧ v ≤ 4294967295) ∨
      (∃ v, b = encUint64 v ∧ v ≤ 18446744073709551615) ∨
      (∃ x, b = encFloat32 x ∧ x < 2 ^ 32) ∨ (∃ x, b = encFloat64 x ∧ x < 2 ^ 64) ∨
      (∃ v, b = encBin64 v ∧ v.length = 8) ∨ (∃ v, b = encBin128 v ∧ v.length = 16) ∨
      (∃ v, b = encBin256 v ∧ v.length = 32) ∨
      (∃ v, b = encBytes v ∧ v.length < 2 ^ 32) ∨ (∃ v, b = encString v ∧ v.length < 2 ^ 32)) :
    parseValue F (f + 1) (q ++ b) = .ok b.length := by
  rcases hb with ⟨v, rfl⟩ | ⟨v, rfl⟩ | ⟨v, rfl, h1, h2⟩ | ⟨v, rfl, h1, h2⟩ | ⟨v, rfl, h1, h2⟩ | ⟨v, rfl, h⟩ |
    ⟨v, rfl, h⟩ | ⟨v, rfl, h⟩ | ⟨x, rfl, h⟩ | ⟨x, rfl, h⟩ | ⟨v, rfl, h⟩ | ⟨v, rfl, h⟩ | ⟨v, rfl, h⟩ |
    ⟨v, rfl, h⟩ | ⟨v, rfl, h⟩
  · cases v <;> (unfold encBool; parse_nav; exact guardSize_ok _ _ (by simp))
  · have e : q ++ encByte v = (q ++ [v]) ++ [tByte] := by simp [encByte]
    have hd := decodeByte_enc q v
    rw [e] at hd ⊢
    parse_nav
    exact parse_of_decoder _ _ _ _ hd (by simp [encByte])
  · have hd := C10.int_cross .w16 .w16 q v ⟨h1, h2⟩
    simp only [C10.decI, C10.encI, C10.fitsI, h1, h2, and_self, ↓reduceIte] at hd
    unfold encInt16 at hd ⊢
    rw [← List.append_assoc] at hd ⊢
    parse_nav
    exact parse_of_decoder _ _ _ _ hd (by simp)
  · have hd := C10.int_cross .w32 .w32 q v ⟨h1, h2⟩
    simp only [C10.decI, C10.encI, C10.fitsI, h1, h2, and_self, ↓reduceIte] at hd
    unfold encInt32 at hd ⊢
    rw [← List.append_assoc] at hd ⊢
    parse_nav
    exact parse_of_decoder _ _ _ _ hd (by simp)
  · have hd := C10.int_cross .w64 .w64 q v ⟨h1, h2⟩
    simp only [C10.decI, C10.encI, C10.fitsI, h1, h2, and_self, ↓reduceIte] at hd
    unfold encInt64 at hd ⊢
    rw [← List.append_assoc] at hd ⊢
    parse_nav
    exact parse_of_decoder _ _ _ _ hd (by simp)
  · have hd := C10.uint_cross .w16 .w16 q v h
    simp only [C10.decU, C10.encU, C10.fitsU, h, ↓reduceIte] at hd
    unfold encUint16 at hd ⊢
    rw [← List.append_assoc] at hd ⊢
    parse_nav
    exact parse_of_decoder _ _ _ _ hd (by simp)
  · have hd := C10.uint_cross .w32 .w32 q v h
    simp only [C10.decU, C10.encU, C10.fitsU, h, ↓reduceIte] at hd
    unfold encUint32 at hd ⊢
    rw [← List.append_assoc] at hd ⊢
    parse_nav
    exact parse_of_decoder _ _ _ _ hd (by simp)
  · have hd := C10.uint_cross .w64 .w64 q v h
    simp only [C10.decU, C10.encU, C10.fitsU, h, ↓reduceIte] at hd
    unfold encUint64 at hd ⊢
    rw [← List.append_assoc] at hd ⊢
    parse_nav
    exact parse_of_decoder _ _ _ _ hd (by simp)
  · have hd := C10.float32_decodes F L q x h
    unfold encFloat32 at hd ⊢
    rw [← List.append_assoc] at hd ⊢
    parse_nav
    exact parse_of_decoder _ _ _ _ hd (by simp)
  · have hd := C10.float64_roundtrip F q x h
    unfold encFloat64 at hd ⊢
    rw [← List.append_assoc] at hd ⊢
    parse_nav
    exact parse_of_decoder _ _ _ _ hd (by simp)
  · have hd := C10.bin64_roundtrip q v h
    unfold encBin64 at hd ⊢
    rw [← List.append_assoc] at hd ⊢
    parse_nav
    exact parse_of_decoder _ _ _ _ hd (by simp)
  · have hd := C10.bin128_roundtrip q v h
    unfold encBin128 at hd ⊢
    rw [← List.append_assoc] at hd ⊢
    parse_nav
    exact parse_of_decoder _ _ _ _ hd (by simp)
  · have hd := C10.bin256_roundtrip q v h
    unfold encBin256 at hd ⊢
    rw [← List.append_assoc] at hd ⊢
    parse_nav
    exact parse_of_decoder _ _ _ _ hd (by simp)
  · have hd := C10.bytes_roundtrip q v h
    unfold encBytes at hd ⊢
    have e : q ++ (v ++ putRevU32 v.length ++ [tBytes]) = (q ++ v ++ putRevU32 v.length) ++ [tBytes] := by simp
    rw [e] at hd ⊢
    parse_nav
    exact parse_of_decoder _ _ _ _ hd (by simp)
  · have hd := C10.string_roundtrip q v h
    unfold encString at hd ⊢
    have e : q ++ (v ++ [0] ++ putRevU32 v.length ++ [tString]) = (q ++ v ++ [0] ++ putRevU32 v.length) ++ [tString] := by simp
    rw [e] at hd ⊢
    parse_nav
    exact parse_of_decoder _ _ _ _ hd (by simp)

/-- the element loop accepts when every element is read back and accepted -/
theorem parseListElems_all (f : Nat) (L : ListV) (size : Nat) (es : List Bytes)
    (hget : ∀ j (hj : j < es.length), L.getBytes j = .ok es[j])
    (hparse : ∀ e ∈ es, e ≠ [] ∧ ∃ n, parseValue F f e = .ok n) :
    ∀ k i, i + k = es.length → parseListElems F f L size k i = .ok size := by
  intro k
  induction k with
  | zero => intro i _; simp [parseListElems]
  | succ k ih =>
    intro i hik
    have hi : i < es.length := by omega
    simp only [parseListElems, hget i hi]
    obtain ⟨hne, n, hn⟩ := hparse es[i] (List.getElem_mem hi)
    have c : ¬ (es[i]).length = 0 := by
      intro h0; exact hne (List.eq_nil_of_length_eq_zero h0)
    simp only [c, ↓reduceIte, hn]
    exact ih (i + 1) (by omega)

/-- the field loop: field `i` (in table order) is the raw prefix ending at a written field -/
theorem parseMsgFields_all (f : Nat) (M : MsgV) (size n : Nat)
    (hraw : ∀ i, i < n → ∃ b, M.fieldAtRaw i = .ok b ∧ b ≠ [] ∧ ∃ m, parseValue F f b = .ok m) :
    ∀ k i, i + k = n → parseMsgFields F f M size k i = .ok size := by
  intro k
  induction k with
  | zero => intro i _; simp [parseMsgFields]
  | succ k ih =>
    intro i hik
    obtain ⟨b, hb, hne, m, hm⟩ := hraw i (by omega)
    simp only [parseMsgFields, hb]
    have c : ¬ b.length = 0 := by
      intro h0; exact hne (List.eq_nil_of_length_eq_zero h0)
    simp only [c, ↓reduceIte, hm]
    exact ih (i + 1) (by omega)

theorem split_at (es : List Bytes) (j : Nat) (hj : j < es.length) :
    es = es.take j ++ es[j] :: es.drop (j + 1) := by
  rw [List.getElem_cons_drop_succ_eq_drop hj, List.take_append_drop]

theorem encList_length_ge (es : List Bytes) (e : Bytes) (he : e ∈ es) : e.length + 3 ≤ (encList es).length := by
  obtain ⟨big, hs⟩ := encList_shape es
  rw [hs]
  have h1 := putRevU32_pos es.flatten.length
  have h2 := putRevU32_pos (encListTable big (endOffsets 0 es)).length
  have : e.length ≤ es.flatten.length := by
    obtain ⟨l, r, rfl⟩ := List.append_of_mem he
    simp only [List.flatten_append, List.flatten_cons, List.length_append]; omega
  simp only [List.length_append, List.length_singleton]; omega

theorem encMsg_length_ge (fs : List (Nat × Bytes)) :
    ((fs.map (·.2)).flatten).length + 3 ≤ (encMsg fs).length := by
  obtain ⟨big, tb, hs, _⟩ := encMsg_shape fs
  rw [hs]
  have h1 := putRevU32_pos ((fs.map (·.2)).flatten).length
  have h2 := putRevU32_pos tb.length
  simp only [List.length_append, List.length_singleton]; omega

/-- C01 (parser): every valid encoding is accepted behind every prefix with exactly its own size. -/
theorem valid_parse (L : C10.FloatLaws F) (b : Bytes) (hv : Valid b) :
    ∀ (q : Bytes) (f : Nat), 2 * b.length + 1 ≤ f → parseValue F f (q ++ b) = .ok b.length := by
  induction hv with
  | list es h hsz ih =>
    intro q f hf
    have hne : (encList es).length ≠ 0 := by
      obtain ⟨big, hs⟩ := encList_shape es; rw [hs]; simp
    obtain ⟨f1, rfl⟩ : ∃ f1, f = f1 + 1 := ⟨f - 1, by omega⟩
    obtain ⟨f2, rfl⟩ : ∃ f2, f1 = f2 + 1 := ⟨f1 - 1, by omega⟩
    -- the parser dispatches to ParseList
    have hty : ∃ ty, decodeType (q ++ encList es) = (ty, 1) ∧ (ty = tList ∨ ty = tBigList) := by
      obtain ⟨big, hs⟩ := encList_shape es
      rw [hs]
      refine ⟨if big then tBigList else tList, ?_, by cases big <;> simp⟩
      simp only [← List.append_assoc, decodeType_snoc]
    obtain ⟨ty, hty, htyc⟩ := hty
    have hpl : parseList F (f2 + 1) (q ++ encList es) = .ok (encList es).length := by
      simp only [parseList]
      rw [list_decode q es hsz]
      simp only
      rw [suffix_ok _ _ (by simp), lastN_append]
      apply parseListElems_all F f2 _ _ es
      · intro j hj
        have hsplit := split_at es j hj
        obtain ⟨L', hL', _, hg⟩ := list_get q (es.take j) es[j] (es.drop (j + 1)) (by rw [← hsplit]; exact hsz)
        rw [← hsplit, openListErr_enc q es hsz] at hL'
        have := Res.ok.inj hL'
        subst this
        have hmin : (es.take j).length = j := by simp; omega
        rw [hmin] at hg
        exact hg
      · intro e he
        refine ⟨valid_ne_nil e (h e he), e.length, ?_⟩
        have := ih e he [] f2 (by have := encList_length_ge es e he; omega)
        simpa using this
      · simp [ListV.len, Table.listLen]
        have : (encListTable (isBigList (endOffsets 0 es)) (endOffsets 0 es)).length =
            es.length * (if isBigList (endOffsets 0 es) then listElemBig else listElemSmall) := by
          rw [encListTable_length, endOffsets_length]
        rw [this]
        cases isBigList (endOffsets 0 es) <;> simp [listElemBig, listElemSmall]
    simp only [parseValue, hty]
    rcases htyc with h1 | h1 <;> subst h1 <;>
      (repeat (first | rw [if_neg (by decide)] | rw [if_pos (by decide)])) <;>
      rw [hpl] <;> exact guardSize_ok _ _ (by simp)
  | msg fs h wf ih =>
    intro q f hf
    obtain ⟨f1, rfl⟩ : ∃ f1, f = f1 + 1 := ⟨f - 1, by omega⟩
    have hlen := encMsg_length_ge fs
    obtain ⟨f2, rfl⟩ : ∃ f2, f1 = f2 + 1 := ⟨f1 - 1, by omega⟩
    have hty : ∃ ty, decodeType (q ++ encMsg fs) = (ty, 1) ∧ (ty = tMessage ∨ ty = tBigMessage) := by
      obtain ⟨big, tb, hs, _⟩ := encMsg_shape fs
      rw [hs]
      refine ⟨if big then tBigMessage else tMessage, ?_, by cases big <;> simp⟩
      simp only [← List.append_assoc, decodeType_snoc]
    obtain ⟨ty, hty, htyc⟩ := hty
    have hpm : parseMessage F (f2 + 1) (q ++ encMsg fs) = .ok (encMsg fs).length := by
      obtain ⟨M, hopen, hfields, hdata, ⟨rest, hbytes⟩, hidx⟩ := msg_open_index q fs wf
      obtain ⟨T, hdec⟩ := msg_decode_size q fs wf
      -- openMessageErr = decodeMessageTable + suffix
      have hM : M = ⟨T, encMsg fs⟩ := by
        unfold openMessageErr at hopen
        rw [hdec] at hopen
        simp only at hopen
        rw [suffix_ok _ _ (by simp), lastN_append] at hopen
        exact (Res.ok.inj hopen).symm
      simp only [parseMessage]
      rw [hdec]
      simp only
      rw [suffix_ok _ _ (by simp), lastN_append]
      simp only
      rw [← hM, hfields]
      apply parseMsgFields_all F f2 M _ fs.length
      · intro i hi
        obtain ⟨tag, o, hmem, hoff, _⟩ := hidx i hi
        obtain ⟨l, v, r, hfs, ho⟩ := pair_split fs tag o hmem
        have hvmem : (tag, v) ∈ fs := by rw [hfs]; simp
        have hdatasplit : (fs.map (·.2)).flatten = (l.map (·.2)).flatten ++ v ++ (r.map (·.2)).flatten := by
          rw [hfs]; simp
        refine ⟨(l.map (·.2)).flatten ++ v, ?_, ?_, v.length, ?_⟩
        · unfold MsgV.fieldAtRaw
          rw [hoff]
          simp only
          have c : ¬ o > M.table.data := by rw [hdata, hdatasplit, ho]; simp only [List.length_append]; omega
          simp only [c, ↓reduceIte]
          rw [slice?_some _ _ _ (by omega) (by rw [hbytes, hdatasplit, ho]; simp only [List.length_append]; omega)]
          rw [hbytes, hdatasplit, ho]
          have : (l.map (·.2)).flatten ++ v ++ (r.map (·.2)).flatten ++ rest =
              ((l.map (·.2)).flatten ++ v) ++ ((r.map (·.2)).flatten ++ rest) := by simp
          rw [this, List.drop_zero, List.take_left' (by simp)]
        · have := valid_ne_nil v (h (tag, v) hvmem)
          intro h0
          have hl := congrArg List.length h0
          simp only [List.length_append, List.length_nil] at hl
          exact this (List.eq_nil_of_length_eq_zero (by omega))
        · have hvl : v.length ≤ ((fs.map (·.2)).flatten).length := by
            rw [hdatasplit]; simp only [List.length_append]; omega
          exact ih (tag, v) hvmem ((l.map (·.2)).flatten) f2 (by show 2 * v.length + 1 ≤ f2; omega)
      · omega
    simp only [parseValue, hty]
    rcases htyc with h1 | h1 <;> subst h1 <;>
      (repeat (first | rw [if_neg (by decide)] | rw [if_pos (by decide)])) <;>
      rw [hpm] <;> exact guardSize_ok _ _ (by simp)
  | bool v => intro q f hf; obtain ⟨f1, rfl⟩ : ∃ f1, f = f1 + 1 := ⟨f - 1, by omega⟩
              exact parse_scalar F L _ q f1 (Or.inl ⟨v, rfl⟩)
  | byte v => intro q f hf; obtain ⟨f1, rfl⟩ : ∃ f1, f = f1 + 1 := ⟨f - 1, by omega⟩
              exact parse_scalar F L _ q f1 (Or.inr (Or.inl ⟨v, rfl⟩))
  | i16 v h => intro q f hf; obtain ⟨f1, rfl⟩ : ∃ f1, f = f1 + 1 := ⟨f - 1, by omega⟩
               exact parse_scalar F L _ q f1 (Or.inr (Or.inr (Or.inl ⟨v, rfl, h.1, h.2⟩)))
  | i32 v h => intro q f hf; obtain ⟨f1, rfl⟩ : ∃ f1, f = f1 + 1 := ⟨f - 1, by omega⟩
               exact parse_scalar F L _ q f1 (Or.inr (Or.inr (Or.inr (Or.inl ⟨v, rfl, h.1, h.2⟩))))
  | i64 v h => intro q f hf; obtain ⟨f1, rfl⟩ : ∃ f1, f = f1 + 1 := ⟨f - 1, by omega⟩
               exact parse_scalar F L _ q f1 (Or.inr (Or.inr (Or.inr (Or.inr (Or.inl ⟨v, rfl, h.1, h.2⟩)))))
  | u16 v h => intro q f hf; obtain ⟨f1, rfl⟩ : ∃ f1, f = f1 + 1 := ⟨f - 1, by omega⟩
               exact parse_scalar F L _ q f1 (Or.inr (Or.inr (Or.inr (Or.inr (Or.inr (Or.inl ⟨v, rfl, h⟩))))))
  | u32 v h => intro q f hf; obtain ⟨f1, rfl⟩ : ∃ f1, f = f1 + 1 := ⟨f - 1, by omega⟩
               exact parse_scalar F L _ q f1 (Or.inr (Or.inr (Or.inr (Or.inr (Or.inr (Or.inr (Or.inl ⟨v, rfl, h⟩)))))))
  | u64 v h => intro q f hf; obtain ⟨f1, rfl⟩ : ∃ f1, f = f1 + 1 := ⟨f - 1, by omega⟩
               exact parse_scalar F L _ q f1 (Or.inr (Or.inr (Or.inr (Or.inr (Or.inr (Or.inr (Or.inr (Or.inl ⟨v, rfl, h⟩))))))))
  | f32 x h => intro q f hf; obtain ⟨f1, rfl⟩ : ∃ f1, f = f1 + 1 := ⟨f - 1, by omega⟩
               exact parse_scalar F L _ q f1 (Or.inr (Or.inr (Or.inr (Or.inr (Or.inr (Or.inr (Or.inr (Or.inr (Or.inl ⟨x, rfl, h⟩)))))))))
  | f64 x h => intro q f hf; obtain ⟨f1, rfl⟩ : ∃ f1, f = f1 + 1 := ⟨f - 1, by omega⟩
               exact parse_scalar F L _ q f1 (Or.inr (Or.inr (Or.inr (Or.inr (Or.inr (Or.inr (Or.inr (Or.inr (Or.inr (Or.inl ⟨x, rfl, h⟩))))))))))
  | bin64 v h => intro q f hf; obtain ⟨f1, rfl⟩ : ∃ f1, f = f1 + 1 := ⟨f - 1, by omega⟩
                 exact parse_scalar F L _ q f1 (Or.inr (Or.inr (Or.inr (Or.inr (Or.inr (Or.inr (Or.inr (Or.inr (Or.inr (Or.inr (Or.inl ⟨v, rfl, h⟩)))))))))))
  | bin128 v h => intro q f hf; obtain ⟨f1, rfl⟩ : ∃ f1, f = f1 + 1 := ⟨f - 1, by omega⟩
                  exact parse_scalar F L _ q f1 (Or.inr (Or.inr (Or.inr (Or.inr (Or.inr (Or.inr (Or.inr (Or.inr (Or.inr (Or.inr (Or.inr (Or.inl ⟨v, rfl, h⟩))))))))))))
  | bin256 v h => intro q f hf; obtain ⟨f1, rfl⟩ : ∃ f1, f = f1 + 1 := ⟨f - 1, by omega⟩
                  exact parse_scalar F L _ q f1 (Or.inr (Or.inr (Or.inr (Or.inr (Or.inr (Or.inr (Or.inr (Or.inr (Or.inr (Or.inr (Or.inr (Or.inr (Or.inl ⟨v, rfl, h⟩)))))))))))))
  | bytes v h => intro q f hf; obtain ⟨f1, rfl⟩ : ∃ f1, f = f1 + 1 := ⟨f - 1, by omega⟩
                 exact parse_scalar F L _ q f1 (Or.inr (Or.inr (Or.inr (Or.inr (Or.inr (Or.inr (Or.inr (Or.inr (Or.inr (Or.inr (Or.inr (Or.inr (Or.inr (Or.inl ⟨v, rfl, h⟩))))))))))))))
  | str v h => intro q f hf; obtain ⟨f1, rfl⟩ : ∃ f1, f = f1 + 1 := ⟨f - 1, by omega⟩
               exact parse_scalar F L _ q f1 (Or.inr (Or.inr (Or.inr (Or.inr (Or.inr (Or.inr (Or.inr (Or.inr (Or.inr (Or.inr (Or.inr (Or.inr (Or.inr (Or.inr ⟨v, rfl, h⟩))))))))))))))

end
end SpecVerif
