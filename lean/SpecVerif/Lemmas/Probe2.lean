/-
C01/C13 helper lemmas: on the encodings produced by the encoders the type-and-size probe reports
exactly the encoded size, behind any prefix (so `OpenValue` delimits a field value exactly).
-/
import SpecVerif.Lemmas.MsgRT
namespace SpecVerif
open Pinned

theorem revSize_snoc (x : Bytes) (f : UInt8) :
    revSize (x ++ [f]) =
      if f = 0xfd then (if x.length < 2 then 0 else 3)
      else if f = 0xfe then (if x.length < 4 then 0 else 5)
      else if f = 0xff then (if x.length < 8 then 0 else 9)
      else 1 := by
  unfold revSize
  simp only [List.getLast?_append, List.getLast?_singleton, Option.some_or, List.length_append,
    List.length_singleton]
  repeat' split
  all_goals omega

theorem revSize_putU32 (q : Bytes) (v : Nat) : revSize (q ++ putRevU32 v) = (putRevU32 v).length := by
  unfold putRevU32
  split
  · rename_i h
    rw [revSize_snoc]
    have n1 : UInt8.ofNat v ≠ 0xfd := u8_ofNat_ne v _ (by omega) (by simp; omega)
    have n2 : UInt8.ofNat v ≠ 0xfe := u8_ofNat_ne v _ (by omega) (by simp; omega)
    have n3 : UInt8.ofNat v ≠ 0xff := u8_ofNat_ne v _ (by omega) (by simp; omega)
    simp [n1, n2, n3]
  · split
    · rw [← List.append_assoc, revSize_snoc]; simp
    · rw [← List.append_assoc, revSize_snoc]
      have c1 : ((0xfe : UInt8) = 0xfd) = False := by decide
      simp [c1]

theorem revSize_putU64 (q : Bytes) (v : Nat) : revSize (q ++ putRevU64 v) = (putRevU64 v).length := by
  unfold putRevU64
  split
  · rename_i h
    rw [revSize_snoc]
    have n1 : UInt8.ofNat v ≠ 0xfd := u8_ofNat_ne v _ (by omega) (by simp; omega)
    have n2 : UInt8.ofNat v ≠ 0xfe := u8_ofNat_ne v _ (by omega) (by simp; omega)
    have n3 : UInt8.ofNat v ≠ 0xff := u8_ofNat_ne v _ (by omega) (by simp; omega)
    simp [n1, n2, n3]
  · split
    · rw [← List.append_assoc, revSize_snoc]; simp
    · split
      · rw [← List.append_assoc, revSize_snoc]
        have c1 : ((0xfe : UInt8) = 0xfd) = False := by decide
        simp [c1]
      · rw [← List.append_assoc, revSize_snoc]
        have c1 : ((0xff : UInt8) = 0xfd) = False := by decide
        have c2 : ((0xff : UInt8) = 0xfe) = False := by decide
        simp [c1, c2]

/-- `b` is delimited exactly by the probe, behind every prefix -/
def Delim (b : Bytes) : Prop := b ≠ [] ∧ ∀ q, ∃ t, decodeTypeSize (q ++ b) = .ok (t, b.length)

theorem openValue_of_delim (b : Bytes) (h : Delim b) (q : Bytes) : openValue (q ++ b) = .ok b := by
  obtain ⟨t, ht⟩ := h.2 q
  unfold openValue
  rw [ht]
  simp only
  have : ¬ (q ++ b).length < b.length := by simp
  simp only [this, ↓reduceIte]
  rw [suffix_ok _ _ (by simp), lastN_append]

/-- generic shape: a body whose probe only needs the type byte and a fixed number of bytes -/
theorem probe_fixed (q body : Bytes) (t : UInt8) (k : Nat) (hb : body.length = k)
    (hcase : ∀ v : Bytes, v.length = q.length + k →
      decodeTypeSize (v ++ [t]) = .ok (t, 1 + k)) :
    decodeTypeSize (q ++ (body ++ [t])) = .ok (t, (body ++ [t]).length) := by
  rw [← List.append_assoc, hcase (q ++ body) (by simp [hb])]
  simp [hb]; omega

end SpecVerif

namespace SpecVerif
open Pinned

/-- navigate the type dispatch of DecodeTypeSize for a concrete type code -/
macro "probe_nav" : tactic => `(tactic| (
  unfold decodeTypeSize
  simp only [snoc_length_ne, ↓reduceIte, decodeType_snoc, take_len_sub_one_snoc]
  repeat (first | rw [if_neg (by decide)] | rw [if_pos (by decide)])))

theorem delim_bool (v : Bool) : Delim (encBool v) := by
  refine ⟨by simp [encBool], fun q => ?_⟩
  unfold encBool
  cases v
  · exact ⟨tFalse, by probe_nav; rfl⟩
  · exact ⟨tTrue, by probe_nav; rfl⟩

theorem delim_byte (v : UInt8) : Delim (encByte v) := by
  refine ⟨by simp [encByte], fun q => ⟨tByte, ?_⟩⟩
  have : q ++ encByte v = (q ++ [v]) ++ [tByte] := by simp [encByte]
  rw [this]
  probe_nav
  simp [encByte]

theorem delim_varint32 (body : Nat) (t : UInt8)
    (ht : t = tInt16 ∨ t = tInt32 ∨ t = tUint16 ∨ t = tUint32) : Delim (putRevU32 body ++ [t]) := by
  refine ⟨by simp, fun q => ⟨t, ?_⟩⟩
  rw [← List.append_assoc]
  have hp := putRevU32_pos body
  rcases ht with h | h | h | h <;> subst h <;> probe_nav <;>
    simp only [revSize_putU32] <;>
    (have : ¬ (putRevU32 body).length = 0 := by omega) <;>
    simp [this] <;> omega

theorem delim_varint64 (body : Nat) (t : UInt8) (ht : t = tInt64 ∨ t = tUint64) :
    Delim (putRevU64 body ++ [t]) := by
  refine ⟨by simp, fun q => ⟨t, ?_⟩⟩
  rw [← List.append_assoc]
  have hp := putRevU64_pos body
  rcases ht with h | h <;> subst h <;> probe_nav <;>
    simp only [revSize_putU64] <;>
    (have : ¬ (putRevU64 body).length = 0 := by omega) <;>
    simp [this] <;> omega

theorem delim_fixed (body : Bytes) (t : UInt8) (k : Nat) (hb : body.length = k)
    (ht : (t = tFloat32 ∧ k = 4) ∨ (t = tFloat64 ∧ k = 8) ∨ (t = tBin64 ∧ k = 8) ∨
          (t = tBin128 ∧ k = 16) ∨ (t = tBin256 ∧ k = 32)) : Delim (body ++ [t]) := by
  refine ⟨by simp, fun q => ⟨t, ?_⟩⟩
  rw [← List.append_assoc]
  rcases ht with ⟨h, hk⟩ | ⟨h, hk⟩ | ⟨h, hk⟩ | ⟨h, hk⟩ | ⟨h, hk⟩ <;> subst h <;> subst hk <;> probe_nav <;>
    (have : ¬ (q ++ body).length < body.length := by simp) <;>
    simp [hb] <;> omega

theorem delim_bytes (v : Bytes) (h : v.length < 2 ^ 32) : Delim (encBytes v) := by
  refine ⟨by simp [encBytes], fun q => ⟨tBytes, ?_⟩⟩
  unfold encBytes
  have e : q ++ (v ++ putRevU32 v.length ++ [tBytes]) = ((q ++ v) ++ putRevU32 v.length) ++ [tBytes] := by simp
  rw [e]
  probe_nav
  rw [decodeSize_put _ _ h]
  have hp := putRevU32_pos v.length
  simp only
  have c1 : ¬ ((putRevU32 v.length).length : Int) < 0 := by omega
  simp only [c1, ↓reduceIte, Int.toNat_natCast]
  have c2 : ¬ ((q ++ v ++ putRevU32 v.length ++ [tBytes]).length < 1 + (putRevU32 v.length).length + v.length) := by
    simp; omega
  simp only [c2, ↓reduceIte, Res.ok.injEq, Prod.mk.injEq, true_and]
  simp; omega

theorem delim_string (v : Bytes) (h : v.length < 2 ^ 32) : Delim (encString v) := by
  refine ⟨by simp [encString], fun q => ⟨tString, ?_⟩⟩
  unfold encString
  have e : q ++ (v ++ [0] ++ putRevU32 v.length ++ [tString]) = ((q ++ v ++ [0]) ++ putRevU32 v.length) ++ [tString] := by simp
  rw [e]
  probe_nav
  rw [decodeSize_put _ _ h]
  have hp := putRevU32_pos v.length
  simp only
  have c1 : ¬ ((putRevU32 v.length).length : Int) < 0 := by omega
  simp only [c1, ↓reduceIte, Int.toNat_natCast]
  have c2 : ¬ ((q ++ v ++ [0] ++ putRevU32 v.length ++ [tString]).length < 1 + (putRevU32 v.length).length + v.length + 1) := by
    simp; omega
  simp only [c2, ↓reduceIte, Res.ok.injEq, Prod.mk.injEq, true_and]
  simp; omega

/-- containers: data, table, data size, table size, type -/
theorem delim_container (data table : Bytes) (t : UInt8)
    (ht : t = tList ∨ t = tBigList ∨ t = tMessage ∨ t = tBigMessage)
    (hd : data.length < 2 ^ 32) (htb : table.length < 2 ^ 32) :
    Delim (data ++ table ++ putRevU32 data.length ++ putRevU32 table.length ++ [t]) := by
  refine ⟨by simp, fun q => ⟨t, ?_⟩⟩
  have e : q ++ (data ++ table ++ putRevU32 data.length ++ putRevU32 table.length ++ [t]) =
      ((q ++ data ++ table ++ putRevU32 data.length) ++ putRevU32 table.length) ++ [t] := by simp
  rw [e]
  have hp1 := putRevU32_pos table.length
  have hp2 := putRevU32_pos data.length
  have e2 : List.take ((q ++ data ++ table ++ putRevU32 data.length ++ putRevU32 table.length).length -
      (putRevU32 table.length).length) (q ++ data ++ table ++ putRevU32 data.length ++ putRevU32 table.length) =
      (q ++ data ++ table) ++ putRevU32 data.length := by
    apply List.take_left'; simp; omega
  have c1 : ¬ ((putRevU32 table.length).length : Int) < 0 := by omega
  have c2 : ¬ ((putRevU32 data.length).length : Int) < 0 := by omega
  have c3 : ¬ ((q ++ data ++ table ++ putRevU32 data.length ++ putRevU32 table.length ++ [t]).length <
      1 + (putRevU32 table.length).length + table.length + (putRevU32 data.length).length + data.length) := by
    simp; omega
  rcases ht with h | h | h | h <;> subst h <;> probe_nav <;>
    rw [decodeSize_put _ _ htb] <;> simp only <;>
    simp only [c1, ↓reduceIte, Int.toNat_natCast] <;>
    rw [e2, decodeSize_put _ _ hd] <;> simp only <;>
    simp only [c2, ↓reduceIte, Int.toNat_natCast] <;>
    simp only [c3, ↓reduceIte, Res.ok.injEq, Prod.mk.injEq, true_and] <;>
    simp <;> omega

end SpecVerif
