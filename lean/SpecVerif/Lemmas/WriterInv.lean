/-
The writer state machine never panics: an invariant of the writer state (every stack entry points
into the buffer and the side tables, entries are ordered) is preserved by every operation, and under
the invariant no operation reaches one of the explicit `panic` outcomes of Writer/Model.lean (nil
state, slice bounds, table index).
-/
import SpecVerif.Writer.Api
import SpecVerif.Lemmas.MsgTable
namespace SpecVerif.Writer
open SpecVerif

def EntryOK (s : WState) (e : Entry) : Prop :=
  e.start ≤ s.buf.length ∧
  (e.type_ = .data → e.start ≤ e.tableStart ∧ e.tableStart ≤ s.buf.length) ∧
  (e.type_ = .list → e.tableStart ≤ s.elements.length) ∧
  (e.type_ = .message → e.tableStart ≤ s.fields.length)

/-- a lower entry never points beyond a higher one -/
def Below (a b : Entry) : Prop :=
  a.start ≤ b.start ∧
  (a.type_ = .list → b.type_ = .list → a.tableStart ≤ b.tableStart) ∧
  (a.type_ = .message → b.type_ = .message → a.tableStart ≤ b.tableStart)

def SInv (s : WState) : Prop := (∀ e ∈ s.stack, EntryOK s e) ∧ s.stack.Pairwise Below

/-- a live writer (no error) has a state, and the state is consistent -/
def WInv (w : W) : Prop := w.err = none → ∃ s, w.st = some s ∧ SInv s

theorem WInv_of_err (w : W) (e : WErr) (h : w.err = some e) : WInv w := by
  intro h0; rw [h] at h0; cases h0

theorem WInv_fresh (buf : Bytes) (r : Bool) : WInv (fresh buf r) := by
  intro _; exact ⟨_, rfl, by simp [SInv]⟩

theorem WInv_closedW : WInv closedW := WInv_of_err _ .closed rfl

theorem WInv_fail (w : W) (e : WErr) : WInv (fail w e).1 := by
  unfold fail
  cases h : w.err with
  | some e0 => exact WInv_of_err _ e0 h
  | none => exact WInv_of_err _ e rfl

theorem WInv_failOut (w : W) (idx : Nat) : WInv (failOut w idx).1 := WInv_fail w _

theorem failOut_not_panic (w : W) (idx : Nat) : (failOut w idx).2 ≠ .panic := by
  simp [failOut]

theorem WInv_close (w : W) (h : WInv w) : WInv (close w).1 := by
  unfold close
  cases he : w.err with
  | some e0 => simpa [he] using WInv_of_err w e0 he
  | none =>
    simp only
    split
    · exact WInv_of_err _ .closed rfl
    · exact WInv_of_err _ .closed rfl

/-! ### stack facts -/

theorem getLast?_mem {α : Type} (l : List α) (x : α) (h : l.getLast? = some x) : x ∈ l := by
  exact List.mem_of_getLast? h

theorem dropLast_append_getLast {α : Type} (l : List α) (x : α) (h : l.getLast? = some x) :
    l = l.dropLast ++ [x] := by
  induction l with
  | nil => cases h
  | cons a t ih =>
    cases t with
    | nil => simp at h; subst h; rfl
    | cons b t' =>
      have : (b :: t').getLast? = some x := by simpa [List.getLast?_cons_cons] using h
      have := ih this
      simp only [List.dropLast_cons₂, List.cons_append]
      rw [← this]

/-- entries that were fine stay fine when the buffer and the tables only grow -/
theorem EntryOK_mono (s s' : WState) (e : Entry) (h : EntryOK s e)
    (hb : s.buf.length ≤ s'.buf.length) (he : s.elements.length ≤ s'.elements.length)
    (hf : s.fields.length ≤ s'.fields.length) : EntryOK s' e := by
  obtain ⟨h1, h2, h3, h4⟩ := h
  exact ⟨by omega, fun t => ⟨(h2 t).1, by have := (h2 t).2; omega⟩, fun t => by have := h3 t; omega,
    fun t => by have := h4 t; omega⟩

/-- pushing an entry that starts at or after every existing entry -/
theorem SInv_push (s : WState) (e : Entry) (hs : SInv s) (he : EntryOK s e)
    (hb : ∀ a ∈ s.stack, Below a e) : SInv (push s e) := by
  obtain ⟨h1, h2⟩ := hs
  refine ⟨?_, ?_⟩
  · intro x hx
    simp only [push, List.mem_append, List.mem_singleton] at hx
    rcases hx with hx | hx
    · exact h1 x hx
    · subst hx; exact he
  · simp only [push]
    rw [List.pairwise_append]
    exact ⟨h2, by simp, fun a ha b hb' => by simp at hb'; subst hb'; exact hb a ha⟩

theorem SInv_pop (s : WState) (e : Entry) (s1 : WState) (hs : SInv s) (h : pop s = some (e, s1)) :
    SInv s1 ∧ EntryOK s e ∧ (∀ a ∈ s1.stack, Below a e) ∧ s1.buf = s.buf ∧ s1.elements = s.elements ∧
      s1.fields = s.fields ∧ s.stack = s1.stack ++ [e] := by
  unfold pop at h
  cases hl : s.stack.getLast? with
  | none => rw [hl] at h; cases h
  | some x =>
    rw [hl] at h
    simp only [Option.some.injEq, Prod.mk.injEq] at h
    obtain ⟨hx, hs1⟩ := h
    subst hx; subst hs1
    have hsplit := dropLast_append_getLast s.stack x hl
    obtain ⟨h1, h2⟩ := hs
    rw [hsplit, List.pairwise_append] at h2
    refine ⟨⟨?_, h2.1⟩, h1 x (getLast?_mem _ _ hl), ?_, rfl, rfl, rfl, hsplit⟩
    · intro a ha
      have : a ∈ s.stack := by rw [hsplit]; simp [ha]
      exact h1 a this
    · intro a ha
      exact h2.2.2 a ha x (by simp)

theorem SInv_grow_buf (s : WState) (extra : Bytes) (hs : SInv s) : SInv { s with buf := s.buf ++ extra } := by
  obtain ⟨h1, h2⟩ := hs
  exact ⟨fun e he => EntryOK_mono s _ e (h1 e he) (by simp) (Nat.le_refl _) (Nat.le_refl _), h2⟩

/-- the outcome of an operation: the invariant is kept and the call did not panic -/
def Good (r : W × Out) : Prop := WInv r.1 ∧ r.2 ≠ .panic

theorem Good_failOut (w : W) (idx : Nat) : Good (failOut w idx) := ⟨WInv_failOut w idx, failOut_not_panic w idx⟩

theorem Good_err (w : W) (e : WErr) (h : w.err = some e) : Good (w, .err e) :=
  ⟨WInv_of_err w e h, by simp⟩

theorem pushData_good (w : W) (s : WState) (idx start stop : Nat) (hw : w.err = none) (hs : SInv s)
    (h1 : start ≤ stop) (h2 : stop ≤ s.buf.length) (h3 : ∀ a ∈ s.stack, a.start ≤ start) :
    Good (pushData w s idx start stop) := by
  have hpush : SInv (push s ⟨start, stop, .data⟩) := by
    apply SInv_push s _ hs
    · refine ⟨?_, fun _ => ⟨h1, h2⟩, ?_, ?_⟩
      · show start ≤ s.buf.length
        omega
      · intro t; cases t
      · intro t; cases t
    · intro a ha
      refine ⟨h3 a ha, ?_, ?_⟩
      · intro _ t; cases t
      · intro _ t; cases t
  unfold pushData
  split
  · split
    · exact Good_failOut w idx
    · exact ⟨fun _ => ⟨_, rfl, hpush⟩, by simp⟩
  · exact ⟨fun _ => ⟨_, rfl, hpush⟩, by simp⟩

theorem writeValue_good (w : W) (idx : Nat) (enc : Bytes) (hw : WInv w) : Good (writeValue w idx enc) := by
  unfold writeValue
  cases he : w.err with
  | some e => exact Good_err w e he
  | none =>
    obtain ⟨s, hst, hs⟩ := hw he
    simp only [hst]
    apply pushData_good w _ idx _ _ he (SInv_grow_buf s enc hs)
    · simp
    · simp
    · intro a ha
      exact (hs.1 a ha).1

/-- writeValue leaves a live writer whose state extends the old one, or fails -/
theorem popData_spec (s : WState) (stop : Nat) (s1 : WState) (hs : SInv s) (h : popData s = some (stop, s1)) :
    SInv s1 ∧ s1.buf = s.buf ∧ s1.elements = s.elements ∧ s1.fields = s.fields ∧ stop ≤ s.buf.length ∧
      (∀ a ∈ s1.stack, a.start ≤ stop) := by
  unfold popData at h
  cases hp : pop s with
  | none => rw [hp] at h; cases h
  | some p =>
    obtain ⟨e, s'⟩ := p
    rw [hp] at h
    simp only at h
    split at h
    · rename_i hd
      simp only [Option.some.injEq, Prod.mk.injEq] at h
      obtain ⟨h1, h2⟩ := h
      subst h1; subst h2
      obtain ⟨i1, i2, i3, i4, i5, i6, _⟩ := SInv_pop s e s' hs hp
      refine ⟨i1, i4, i5, i6, (i2.2.1 hd).2, fun a ha => ?_⟩
      have := (i3 a ha).1
      have := (i2.2.1 hd).1
      omega
    · cases h

theorem peek_mem (s : WState) (e : Entry) (h : peek s = some e) : e ∈ s.stack :=
  getLast?_mem _ _ h

theorem element_good (w : W) (idx : Nat) (hw : WInv w) : Good (element w idx) := by
  unfold element
  cases he : w.err with
  | some e => exact Good_err w e he
  | none =>
    obtain ⟨s, hst, hs⟩ := hw he
    simp only [hst]
    cases hp : popData s with
    | none => exact Good_failOut w idx
    | some p =>
      obtain ⟨stop, s1⟩ := p
      obtain ⟨i1, i2, i3, i4, i5, i6⟩ := popData_spec s stop s1 hs hp
      simp only
      cases hk : peek s1 with
      | none => exact Good_failOut w idx
      | some l =>
        simp only
        split
        · refine ⟨fun _ => ⟨_, rfl, ?_⟩, by simp⟩
          exact ⟨fun e hme => EntryOK_mono s1 _ e (i1.1 e hme) (Nat.le_refl _) (by simp) (Nat.le_refl _), i1.2⟩
        · exact Good_failOut w idx

theorem insertAt_some (fields : List (Nat × Nat)) (off : Nat) (f : Nat × Nat) (h : off ≤ fields.length) :
    ∃ fs, insertAt fields off f = some fs ∧ fields.length ≤ fs.length := by
  unfold insertAt
  have : ¬ off > fields.length := by omega
  simp only [this, ↓reduceIte]
  refine ⟨_, rfl, ?_⟩
  have hp := (insertField_perm f (fields.drop off)).length_eq
  simp only [List.length_append, List.length_take, List.length_cons, List.length_drop] at hp ⊢
  omega

theorem field_good (w : W) (idx tag : Nat) (hw : WInv w) : Good (field w idx tag) := by
  unfold field
  cases he : w.err with
  | some e => exact Good_err w e he
  | none =>
    obtain ⟨s, hst, hs⟩ := hw he
    simp only [hst]
    cases hp : popData s with
    | none => exact Good_failOut w idx
    | some p =>
      obtain ⟨stop, s1⟩ := p
      obtain ⟨i1, i2, i3, i4, i5, i6⟩ := popData_spec s stop s1 hs hp
      simp only
      cases hk : peek s1 with
      | none => exact Good_failOut w idx
      | some m =>
        simp only
        split
        · rename_i hm
          have hmok := i1.1 m (peek_mem s1 m hk)
          obtain ⟨fs, hfs, hlen⟩ := insertAt_some s1.fields m.tableStart (tag, stop - m.start) (hmok.2.2.2 hm)
          rw [hfs]
          refine ⟨fun _ => ⟨_, rfl, ?_⟩, by simp⟩
          exact ⟨fun e hme => EntryOK_mono s1 _ e (i1.1 e hme) (Nat.le_refl _) (Nat.le_refl _) hlen, i1.2⟩
        · exact Good_failOut w idx

/-- pushing a container entry at the current end of the buffer and tables -/
theorem SInv_push_here (s : WState) (hs : SInv s) (e : Entry) (h1 : e.start = s.buf.length)
    (h2 : e.type_ ≠ .data) (h3 : e.type_ = .list → e.tableStart = s.elements.length)
    (h4 : e.type_ = .message → e.tableStart = s.fields.length) : SInv (push s e) := by
  apply SInv_push s e hs
  · exact ⟨by omega, fun t => absurd t h2, fun t => by rw [h3 t]; exact Nat.le_refl _, fun t => by rw [h4 t]; exact Nat.le_refl _⟩
  · intro a ha
    have ok := hs.1 a ha
    refine ⟨by have := ok.1; omega, ?_, ?_⟩
    · intro ta tb; rw [h3 tb]; exact ok.2.2.1 ta
    · intro ta tb; rw [h4 tb]; exact ok.2.2.2 ta

theorem beginList_inv (w : W) (hw : WInv w) : WInv (beginList w) := by
  unfold beginList
  cases he : w.err with
  | some e => simpa [he] using WInv_of_err w e he
  | none =>
    obtain ⟨s, hst, hs⟩ := hw he
    simp only [hst]
    exact fun _ => ⟨_, rfl, SInv_push_here s hs _ rfl (by simp) (fun _ => rfl) (fun t => by cases t)⟩

theorem beginMessage_inv (w : W) (hw : WInv w) : WInv (beginMessage w) := by
  unfold beginMessage
  cases he : w.err with
  | some e => simpa [he] using WInv_of_err w e he
  | none =>
    obtain ⟨s, hst, hs⟩ := hw he
    simp only [hst]
    exact fun _ => ⟨_, rfl, SInv_push_here s hs _ rfl (by simp) (fun t => by cases t) (fun _ => rfl)⟩

theorem beginElement_inv (w : W) (idx : Nat) (hw : WInv w) : WInv (beginElement w idx) := by
  unfold beginElement
  cases he : w.err with
  | some e => simpa [he] using WInv_of_err w e he
  | none =>
    obtain ⟨s, hst, hs⟩ := hw he
    simp only [hst]
    split
    · split
      · exact fun _ => ⟨_, rfl, SInv_push_here s hs _ rfl (by simp) (fun t => by cases t) (fun t => by cases t)⟩
      · exact WInv_fail w _
    · exact WInv_fail w _

theorem beginField_inv (w : W) (idx tag : Nat) (hw : WInv w) : WInv (beginField w idx tag) := by
  unfold beginField
  cases he : w.err with
  | some e => simpa [he] using WInv_of_err w e he
  | none =>
    obtain ⟨s, hst, hs⟩ := hw he
    simp only [hst]
    split
    · split
      · exact fun _ => ⟨_, rfl, SInv_push_here s hs _ rfl (by simp) (fun t => by cases t) (fun t => by cases t)⟩
      · exact WInv_fail w _
    · exact WInv_fail w _

theorem listLen_good (w : W) (hw : WInv w) : listLen w ≠ .panic := by
  unfold listLen
  cases he : w.err with
  | some e => simp
  | none =>
    obtain ⟨s, hst, hs⟩ := hw he
    simp only [hst]
    split
    · rename_i l hk
      split
      · rename_i hl
        have := (hs.1 l (peek_mem s l hk)).2.2.1 hl
        have hn : ¬ l.tableStart > s.elements.length := by omega
        simp [hn]
      · simp
    · simp

theorem hasField_good (w : W) (tag : Nat) (hw : WInv w) : hasField w tag ≠ .panic := by
  unfold hasField
  cases he : w.err with
  | some e => simp
  | none =>
    obtain ⟨s, hst, hs⟩ := hw he
    simp only [hst]
    split
    · rename_i m hk
      split
      · rename_i hm
        have := (hs.1 m (peek_mem s m hk)).2.2.2 hm
        have hn : ¬ m.tableStart > s.fields.length := by omega
        simp [hn]
      · simp
    · simp

theorem slice?_some_of_le (b : Bytes) (lo hi : Nat) (h1 : lo ≤ hi) (h2 : hi ≤ b.length) :
    ∃ x, slice? b lo hi = some x := by
  unfold slice?
  simp [h1, h2]

/-- the common tail of ending a list or a message: the container's trailer was appended to the buffer,
its table was cut off, and a data entry for the whole container is pushed -/
theorem endContainer (s1 : WState) (e : Entry) (hs1 : SInv s1) (hbelow : ∀ a ∈ s1.stack, Below a e)
    (hstart : e.start ≤ s1.buf.length) (buf : Bytes) (hbuf : s1.buf.length ≤ buf.length)
    (s2 : WState) (hs2stack : s2.stack = s1.stack) (hs2buf : s2.buf = buf)
    (hok : ∀ a ∈ s1.stack, EntryOK s2 a) :
    SInv (push s2 ⟨e.start, buf.length, .data⟩) ∧ ∃ x, slice? buf e.start buf.length = some x := by
  have hs2 : SInv s2 := ⟨by rw [hs2stack]; exact hok, by rw [hs2stack]; exact hs1.2⟩
  refine ⟨?_, slice?_some_of_le buf e.start buf.length (by omega) (Nat.le_refl _)⟩
  apply SInv_push s2 _ hs2
  · refine ⟨?_, fun _ => ⟨?_, ?_⟩, ?_, ?_⟩
    · show e.start ≤ s2.buf.length
      rw [hs2buf]; omega
    · show e.start ≤ buf.length
      omega
    · show buf.length ≤ s2.buf.length
      rw [hs2buf]; exact Nat.le_refl _
    · intro t; cases t
    · intro t; cases t
  · intro a ha
    rw [hs2stack] at ha
    refine ⟨(hbelow a ha).1, ?_, ?_⟩
    · intro _ t; cases t
    · intro _ t; cases t

theorem endTop_good (s : WState) (hs : SInv s) :
    endTop s ≠ .panicked ∧ ∀ s1 b, endTop s = .done s1 b → SInv s1 := by
  unfold endTop
  cases hp : pop s with
  | none => simp
  | some p =>
    obtain ⟨e, s1⟩ := p
    obtain ⟨i1, i2, i3, i4, i5, i6, i7⟩ := SInv_pop s e s1 hs hp
    simp only
    cases ht : e.type_ with
    | data =>
      simp only
      split
      · simp
      · obtain ⟨x, hx⟩ := slice?_some_of_le s1.buf e.start s1.buf.length (by rw [i4]; exact i2.1) (Nat.le_refl _)
        rw [hx]
        refine ⟨by simp, ?_⟩
        intro s' b h
        simp only [EndTop.done.injEq] at h
        rw [← h.1]; exact i1
    | list =>
      simp only
      have hts : e.tableStart ≤ s1.elements.length := by rw [i5]; exact i2.2.2.1 ht
      have hst : e.start ≤ s1.buf.length := by rw [i4]; exact i2.1
      have hcond : ¬ (e.tableStart > s1.elements.length ∨ e.start > s1.buf.length) := by omega
      simp only [hcond, ↓reduceIte]
      generalize hbuf : s1.buf ++ listTrailer (s1.buf.length - e.start) (s1.elements.drop e.tableStart) = buf
      have hlen : s1.buf.length ≤ buf.length := by rw [← hbuf]; simp
      have hok : ∀ a ∈ s1.stack, EntryOK { s1 with buf := buf, elements := s1.elements.take e.tableStart } a := by
        intro a ha
        obtain ⟨o1, o2, o3, o4⟩ := i1.1 a ha
        refine ⟨by show a.start ≤ buf.length; omega, fun t => ⟨(o2 t).1, by show a.tableStart ≤ buf.length; have := (o2 t).2; omega⟩, ?_, o4⟩
        intro t
        show a.tableStart ≤ (s1.elements.take e.tableStart).length
        have := (i3 a ha).2.1 t ht
        simp only [List.length_take]
        omega
      obtain ⟨hpush, x, hx⟩ := endContainer s1 e i1 i3 hst buf hlen
        { s1 with buf := buf, elements := s1.elements.take e.tableStart } rfl rfl hok
      simp only [hx]
      split
      · split
        · simp
        · refine ⟨by simp, ?_⟩
          intro s' b h
          simp only [EndTop.done.injEq] at h
          rw [← h.1]; exact hpush
      · refine ⟨by simp, ?_⟩
        intro s' b h
        simp only [EndTop.done.injEq] at h
        rw [← h.1]; exact hpush
    | message =>
      simp only
      have hts : e.tableStart ≤ s1.fields.length := by rw [i6]; exact i2.2.2.2 ht
      have hst : e.start ≤ s1.buf.length := by rw [i4]; exact i2.1
      have hcond : ¬ (e.tableStart > s1.fields.length ∨ e.start > s1.buf.length) := by omega
      simp only [hcond, ↓reduceIte]
      generalize hbuf : s1.buf ++ msgTrailer (s1.buf.length - e.start) (s1.fields.drop e.tableStart) = buf
      have hlen : s1.buf.length ≤ buf.length := by rw [← hbuf]; simp
      have hok : ∀ a ∈ s1.stack, EntryOK { s1 with buf := buf, fields := s1.fields.take e.tableStart } a := by
        intro a ha
        obtain ⟨o1, o2, o3, o4⟩ := i1.1 a ha
        refine ⟨by show a.start ≤ buf.length; omega, fun t => ⟨(o2 t).1, by show a.tableStart ≤ buf.length; have := (o2 t).2; omega⟩, o3, ?_⟩
        intro t
        show a.tableStart ≤ (s1.fields.take e.tableStart).length
        have := (i3 a ha).2.2 t ht
        simp only [List.length_take]
        omega
      obtain ⟨hpush, x, hx⟩ := endContainer s1 e i1 i3 hst buf hlen
        { s1 with buf := buf, fields := s1.fields.take e.tableStart } rfl rfl hok
      simp only [hx]
      split
      · split
        · simp
        · refine ⟨by simp, ?_⟩
          intro s' b h
          simp only [EndTop.done.injEq] at h
          rw [← h.1]; exact hpush
      · refine ⟨by simp, ?_⟩
        intro s' b h
        simp only [EndTop.done.injEq] at h
        rw [← h.1]; exact hpush
    | element => simp
    | field => simp

theorem endParent_good (w : W) (s : WState) (idx : Nat) (result : Bytes) (_hw : w.err = none) (hs : SInv s) :
    Good (endParent w s idx result) := by
  unfold endParent
  cases hp2 : peek2 s with
  | none =>
    simp only
    refine ⟨WInv_close _ (fun _ => ⟨s, rfl, hs⟩), by simp⟩
  | some par =>
    simp only
    cases hpt : par.type_ with
    | element =>
      simp only
      cases hp : popData s with
      | none => exact Good_failOut w idx
      | some p =>
        obtain ⟨stop, s1⟩ := p
        obtain ⟨i1, i2, i3, i4, i5, i6⟩ := popData_spec s stop s1 hs hp
        simp only
        cases hpop : pop s1 with
        | none => exact Good_failOut w idx
        | some q =>
          obtain ⟨el, s2⟩ := q
          obtain ⟨j1, j2, j3, j4, j5, j6, j7⟩ := SInv_pop s1 el s2 i1 hpop
          simp only
          split
          · exact Good_failOut w idx
          · cases hk : peek s2 with
            | none => exact Good_failOut w idx
            | some l =>
              simp only
              split
              · have hel : el ∈ s1.stack := by rw [j7]; simp
                have h1 : el.start ≤ stop := i6 el hel
                obtain ⟨x, hx⟩ := slice?_some_of_le s2.buf el.start stop h1 (by rw [j4, i2]; exact i5)
                rw [hx]
                refine ⟨fun _ => ⟨_, rfl, ?_⟩, by simp⟩
                exact ⟨fun e hme => EntryOK_mono s2 _ e (j1.1 e hme) (Nat.le_refl _) (by simp) (Nat.le_refl _), j1.2⟩
              · exact Good_failOut w idx
    | field =>
      simp only
      cases hp : popData s with
      | none => exact Good_failOut w idx
      | some p =>
        obtain ⟨stop, s1⟩ := p
        obtain ⟨i1, i2, i3, i4, i5, i6⟩ := popData_spec s stop s1 hs hp
        simp only
        cases hpop : pop s1 with
        | none => exact Good_failOut w idx
        | some q =>
          obtain ⟨fl, s2⟩ := q
          obtain ⟨j1, j2, j3, j4, j5, j6, j7⟩ := SInv_pop s1 fl s2 i1 hpop
          simp only
          split
          · exact Good_failOut w idx
          · cases hk : peek s2 with
            | none => exact Good_failOut w idx
            | some m =>
              simp only
              split
              · rename_i hm
                have hmok := j1.1 m (peek_mem s2 m hk)
                obtain ⟨fs, hfs, hlen⟩ := insertAt_some s2.fields m.tableStart (fl.tableStart, stop - m.start) (hmok.2.2.2 hm)
                rw [hfs]
                have hfl : fl ∈ s1.stack := by rw [j7]; simp
                have h1 : fl.start ≤ stop := i6 fl hfl
                obtain ⟨x, hx⟩ := slice?_some_of_le s2.buf fl.start stop h1 (by rw [j4, i2]; exact i5)
                simp only [hx]
                refine ⟨fun _ => ⟨_, rfl, ?_⟩, by simp⟩
                exact ⟨fun e hme => EntryOK_mono s2 _ e (j1.1 e hme) (Nat.le_refl _) (Nat.le_refl _) hlen, j1.2⟩
              · exact Good_failOut w idx
    | data => exact ⟨fun _ => ⟨s, rfl, hs⟩, by simp⟩
    | list => exact ⟨fun _ => ⟨s, rfl, hs⟩, by simp⟩
    | message => exact ⟨fun _ => ⟨s, rfl, hs⟩, by simp⟩

theorem end_good (w : W) (idx : Nat) (hw : WInv w) : Good (end_ w idx) := by
  unfold end_
  cases he : w.err with
  | some e => exact Good_err w e he
  | none =>
    obtain ⟨s, hst, hs⟩ := hw he
    simp only [hst]
    obtain ⟨hnp, hdone⟩ := endTop_good s hs
    cases ht : endTop s with
    | failed => exact Good_failOut w idx
    | panicked => exact absurd ht hnp
    | done s1 b => exact endParent_good w s1 idx b he (hdone s1 b ht)

theorem fieldAny_good (w : W) (idx tag : Nat) (data : Bytes) (hw : WInv w) : Good (fieldAny w idx tag data) := by
  unfold fieldAny
  cases he : w.err with
  | some e => exact Good_err w e he
  | none =>
    simp only
    have hg := writeValue_good w idx data hw
    cases hwv : writeValue w idx data with
    | mk w1 o =>
      rw [hwv] at hg
      cases o with
      | ok => exact field_good w1 idx tag hg.1
      | built b => exact hg
      | err e => exact hg
      | bool b => exact hg
      | nat n => exact hg
      | panic => exact absurd rfl hg.2
      | badop => exact hg

theorem writeFail_good (w : W) (idx : Nat) (hw : WInv w) : Good (writeFail w idx) := by
  unfold writeFail
  cases he : w.err with
  | some e => exact Good_err w e he
  | none =>
    obtain ⟨s, hs, _⟩ := hw he
    simp only [hs]
    exact Good_failOut w idx

theorem free_good (w : W) : Good (free w) := by
  unfold free
  cases hc : close w with
  | mk w1 o =>
    simp only
    have herr : ∃ e, w1.err = some e := by
      unfold close at hc
      cases he : w.err with
      | some e0 => rw [he] at hc; cases hc; exact ⟨e0, he⟩
      | none =>
        rw [he] at hc
        simp only at hc
        split at hc <;> cases hc <;> exact ⟨.closed, rfl⟩
    obtain ⟨e, he⟩ := herr
    split
    · exact ⟨WInv_of_err _ e he, by simp⟩
    · exact ⟨WInv_of_err _ e he, by simp⟩

theorem reset_good (w : W) : Good (reset w) :=
  ⟨fun _ => ⟨_, rfl, by simp [SInv]⟩, by simp [reset]⟩

/-! ### the public API: every call of every program -/

def Call.noCopy : Call → Bool
  | .copy _ _ => false
  | _ => true

theorem onHandle_good (s : Sess) (dead : Bool) (op : W → W × Out) (hs : WInv s.w)
    (hop : ∀ w, WInv w → Good (op w)) : WInv (onHandle s dead op).1.w ∧ (onHandle s dead op).2 ≠ .panic := by
  unfold onHandle
  cases dead
  · simp only [Bool.false_eq_true, ↓reduceIte]
    exact hop s.w hs
  · simp only [↓reduceIte]
    exact ⟨hs, (hop closedW WInv_closedW).2⟩

theorem writeThen_good (idx : Nat) (enc : Bytes) (k : W → W × Out) (hk : ∀ w, WInv w → Good (k w)) (w : W)
    (hw : WInv w) :
    Good (let (w1, o) := writeValue w idx enc
          match o with
          | .ok => k w1
          | o => (w1, o)) := by
  have hg := writeValue_good w idx enc hw
  cases hwv : writeValue w idx enc with
  | mk w1 o =>
    rw [hwv] at hg
    cases o with
    | ok => exact hk w1 hg.1
    | built b => exact hg
    | err e => exact hg
    | bool b => exact hg
    | nat n => exact hg
    | panic => exact absurd rfl hg.2
    | badop => exact hg

theorem recordBuilt_w (s : Sess) (o : Out) : (recordBuilt s o).w = s.w := by
  unfold recordBuilt; split <;> rfl

theorem killHandle_w (s : Sess) (h : Nat) : (killHandle s h).w = s.w := rfl

theorem step_good (s : Sess) (idx : Nat) (c : Call) (hs : WInv s.w) (hc : c.noCopy = true) :
    WInv (step s idx c).1.w ∧ (step s idx c).2 ≠ .panic := by
  cases c with
  | msg => exact ⟨beginMessage_inv _ hs, by simp [step]⟩
  | list => exact ⟨beginList_inv _ hs, by simp [step]⟩
  | v enc =>
    have := writeValue_good s.w idx enc hs
    simp only [step]
    exact this
  | vbuild =>
    have := end_good s.w idx hs
    simp only [step]
    exact ⟨by rw [recordBuilt_w]; exact this.1, this.2⟩
  | f h tag enc =>
    simp only [step]
    split
    · exact ⟨hs, by simp⟩
    · exact onHandle_good s _ _ hs (fun w hw => writeThen_good idx enc (fun w1 => field w1 idx tag) (fun w1 h1 => field_good w1 idx tag h1) w hw)
  | fmsg h tag =>
    simp only [step]
    split
    · exact ⟨hs, by simp⟩
    · split
      · exact ⟨hs, by simp⟩
      · exact ⟨beginMessage_inv _ (beginField_inv _ _ _ hs), by simp⟩
  | flist h tag =>
    simp only [step]
    split
    · exact ⟨hs, by simp⟩
    · split
      · exact ⟨hs, by simp⟩
      · exact ⟨beginList_inv _ (beginField_inv _ _ _ hs), by simp⟩
  | has h tag =>
    simp only [step]
    split
    · exact ⟨hs, by simp⟩
    · rename_i hd _
      refine ⟨hs, ?_⟩
      cases hd.dead
      · exact hasField_good _ tag hs
      · exact hasField_good _ tag WInv_closedW
  | copy h src => cases hc
  | e h enc =>
    simp only [step]
    split
    · exact ⟨hs, by simp⟩
    · exact onHandle_good s _ _ hs (fun w hw => writeThen_good idx enc (fun w1 => element w1 idx) (fun w1 h1 => element_good w1 idx h1) w hw)
  | emsg h =>
    simp only [step]
    split
    · exact ⟨hs, by simp⟩
    · split
      · exact ⟨hs, by simp⟩
      · exact ⟨beginMessage_inv _ (beginElement_inv _ _ hs), by simp⟩
  | elist h =>
    simp only [step]
    split
    · exact ⟨hs, by simp⟩
    · split
      · exact ⟨hs, by simp⟩
      · exact ⟨beginList_inv _ (beginElement_inv _ _ hs), by simp⟩
  | len h =>
    simp only [step]
    split
    · exact ⟨hs, by simp⟩
    · rename_i hd _
      refine ⟨hs, ?_⟩
      cases hd.dead
      · exact listLen_good _ hs
      · exact listLen_good _ WInv_closedW
  | end_ h =>
    simp only [step]
    split
    · exact ⟨hs, by simp⟩
    · rename_i hd _
      have hg := onHandle_good s hd.dead (fun w => end_ w idx) hs (fun w hw => end_good w idx hw)
      refine ⟨?_, ?_⟩
      · split
        · rw [killHandle_w]; exact hg.1
        · exact hg.1
      · cases ho : (onHandle s hd.dead fun w => end_ w idx).2 with
        | panic => exact absurd ho hg.2
        | _ => simp
  | build h =>
    simp only [step]
    split
    · exact ⟨hs, by simp⟩
    · rename_i hd _
      have hg := onHandle_good s hd.dead (fun w => end_ w idx) hs (fun w hw => end_good w idx hw)
      refine ⟨?_, hg.2⟩
      rw [recordBuilt_w]
      split
      · rw [killHandle_w]; exact hg.1
      · exact hg.1
  | fwfail h =>
    simp only [step]
    split
    · exact ⟨hs, by simp⟩
    · exact onHandle_good s _ _ hs (fun w hw => writeFail_good w idx hw)
  | ewfail h =>
    simp only [step]
    split
    · exact ⟨hs, by simp⟩
    · exact onHandle_good s _ _ hs (fun w hw => writeFail_good w idx hw)
  | err =>
    simp only [step]
    refine ⟨hs, ?_⟩
    split <;> simp
  | reset => exact ⟨(reset_good s.w).1, (reset_good s.w).2⟩
  | free => exact ⟨(free_good s.w).1, (free_good s.w).2⟩
  | bad => exact ⟨hs, by simp [step]⟩

theorem runFrom_no_panic (s : Sess) (idx : Nat) (cs : List Call) (hs : WInv s.w)
    (hc : ∀ c ∈ cs, c.noCopy = true) : ∀ o ∈ (runFrom s idx cs).2, o ≠ .panic := by
  induction cs generalizing s idx with
  | nil => intro o ho; simp [runFrom] at ho
  | cons c cs ih =>
    intro o ho
    simp only [runFrom] at ho
    have hg := step_good s idx c hs (hc c (by simp))
    rcases List.mem_cons.mp ho with h | h
    · rw [h]; exact hg.2
    · exact ih _ _ hg.1 (fun x hx => hc x (by simp [hx])) o h

end SpecVerif.Writer
