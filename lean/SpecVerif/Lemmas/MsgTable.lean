/-
C01/C16 helper lemmas: the message table written by the encoder (entries inserted in write order,
kept sorted by tag) and its serialized view.
-/
import SpecVerif.Lemmas.Search
namespace SpecVerif
open Pinned

/-! ### insertion keeps the table a sorted permutation -/

theorem insertField_perm (f : Nat × Nat) (l : List (Nat × Nat)) : (insertField f l).Perm (f :: l) := by
  induction l with
  | nil => simp [insertField]
  | cons g gs ih =>
    unfold insertField
    split
    · exact List.Perm.refl _
    · exact (List.Perm.cons g ih).trans (List.Perm.swap f g gs)

theorem sortedEntries_foldl_perm (fs acc : List (Nat × Nat)) :
    (fs.foldl (fun acc f => insertField f acc) acc).Perm (acc ++ fs) := by
  induction fs generalizing acc with
  | nil => simp
  | cons f fs ih =>
    simp only [List.foldl_cons]
    refine (ih (insertField f acc)).trans ?_
    have h1 : (insertField f acc ++ fs).Perm ((f :: acc) ++ fs) := List.Perm.append_right fs (insertField_perm f acc)
    refine h1.trans ?_
    simp only [List.cons_append]
    exact (List.perm_middle).symm

theorem sortedEntries_perm (fs : List (Nat × Nat)) : (sortedEntries fs).Perm fs := by
  simpa [sortedEntries] using sortedEntries_foldl_perm fs []

def TagsSorted (l : List (Nat × Nat)) : Prop := List.Pairwise (fun a b => a.1 < b.1) l

theorem insertField_sorted (f : Nat × Nat) (l : List (Nat × Nat)) (hs : TagsSorted l)
    (hn : ∀ g ∈ l, g.1 ≠ f.1) : TagsSorted (insertField f l) := by
  induction l with
  | nil => simp [insertField, TagsSorted]
  | cons g gs ih =>
    unfold insertField
    have hs' := List.pairwise_cons.mp hs
    split
    · rename_i hle
      have hlt : f.1 < g.1 := by have := hn g (by simp); omega
      apply List.pairwise_cons.mpr
      refine ⟨?_, hs⟩
      intro b hb
      rcases List.mem_cons.mp hb with h | h
      · subst h; exact hlt
      · have := hs'.1 b h; omega
    · rename_i hgt
      apply List.pairwise_cons.mpr
      refine ⟨?_, ih hs'.2 (fun x hx => hn x (by simp [hx]))⟩
      intro b hb
      have hb' := (insertField_perm f gs).mem_iff.mp hb
      rcases List.mem_cons.mp hb' with h | h
      · subst h; omega
      · exact hs'.1 b h

theorem sortedEntries_foldl_sorted (fs acc : List (Nat × Nat)) (hs : TagsSorted acc)
    (hd : ((acc ++ fs).map (·.1)).Nodup) :
    TagsSorted (fs.foldl (fun acc f => insertField f acc) acc) := by
  induction fs generalizing acc with
  | nil => simpa using hs
  | cons f fs ih =>
    simp only [List.foldl_cons]
    apply ih
    · apply insertField_sorted f acc hs
      intro g hg heq
      rw [List.map_append, List.map_cons] at hd
      have := (List.nodup_append.mp hd).2.2 g.1 (List.mem_map_of_mem hg) f.1 (by simp)
      exact this heq
    · have hp : ((insertField f acc ++ fs).map (·.1)).Perm ((acc ++ f :: fs).map (·.1)) := by
        apply List.Perm.map
        refine (List.Perm.append_right fs (insertField_perm f acc)).trans ?_
        simp only [List.cons_append]
        exact (List.perm_middle).symm
      exact hp.nodup_iff.mpr hd

theorem sortedEntries_sorted (fs : List (Nat × Nat)) (hd : (fs.map (·.1)).Nodup) :
    TagsSorted (sortedEntries fs) := by
  unfold sortedEntries
  exact sortedEntries_foldl_sorted fs [] List.Pairwise.nil (by simpa using hd)

theorem strictSorted_of_tagsSorted (l : List (Nat × Nat)) (h : TagsSorted l) :
    StrictSorted (l.map (·.1)) := by
  intro i j hi hj hij
  simp only [List.length_map] at hi hj
  have := List.pairwise_iff_getElem.mp h i j hi hj hij
  simpa using this

/-! ### the serialized view -/

def encEntry (tw ow : Nat) (f : Nat × Nat) : Bytes := toBE tw f.1 ++ toBE ow f.2

theorem flatMap_entry_length (tw ow : Nat) (l : List (Nat × Nat)) :
    (l.flatMap (encEntry tw ow)).length = l.length * (tw + ow) := by
  induction l with
  | nil => simp
  | cons f fs ih =>
    simp only [List.flatMap_cons, List.length_append, encEntry, toBE_length, List.length_cons, Nat.succ_mul, ih]
    omega

theorem tableView_entries (tw ow : Nat) (l : List (Nat × Nat))
    (hb : ∀ f ∈ l, f.1 < 256 ^ tw ∧ f.2 < 256 ^ ow) :
    TableView (l.flatMap (encEntry tw ow)) (tw + ow) tw (l.map (·.1)) (l.map (·.2)) := by
  refine ⟨by simp, ?_, ?_⟩
  · intro i hi
    induction l generalizing i with
    | nil => simp at hi
    | cons f fs ih =>
      simp only [List.flatMap_cons]
      cases i with
      | zero =>
        simp only [encEntry, Nat.zero_mul, List.append_assoc]
        rw [readBE_head _ _ tw (toBE_length tw f.1), be_toBE _ _ (hb f (by simp)).1]
        simp
      | succ j =>
        have e : (j + 1) * (tw + ow) = (encEntry tw ow f).length + j * (tw + ow) := by
          simp only [encEntry, List.length_append, toBE_length, Nat.succ_mul]; omega
        rw [e, readBE_shift]
        have := ih (fun g hg => hb g (by simp [hg])) j (by simpa using hi)
        simp only [List.getElem_map] at this ⊢
        simpa using this
  · intro i hi
    induction l generalizing i with
    | nil => simp at hi
    | cons f fs ih =>
      simp only [List.flatMap_cons]
      cases i with
      | zero =>
        simp only [encEntry, Nat.zero_mul, Nat.zero_add, List.append_assoc]
        have : tw = (toBE tw f.1).length + 0 := by simp
        rw [show readBE (toBE tw f.1 ++ (toBE ow f.2 ++ List.flatMap (encEntry tw ow) fs)) tw (tw + ow - tw) =
              readBE (toBE tw f.1 ++ (toBE ow f.2 ++ List.flatMap (encEntry tw ow) fs)) ((toBE tw f.1).length + 0) ow by
              simp]
        rw [readBE_shift, readBE_head _ _ ow (toBE_length ow f.2), be_toBE _ _ (hb f (by simp)).2]
        simp
      | succ j =>
        have e : (j + 1) * (tw + ow) + tw = (encEntry tw ow f).length + (j * (tw + ow) + tw) := by
          simp only [encEntry, List.length_append, toBE_length, Nat.succ_mul]; omega
        rw [e, readBE_shift]
        have := ih (fun g hg => hb g (by simp [hg])) j (by simpa using hi)
        simp only [List.getElem_map] at this ⊢
        simpa using this

theorem encMsgTable_eq (big : Bool) (l : List (Nat × Nat)) :
    encMsgTable big l = l.flatMap (encEntry (if big then 2 else 1) (if big then 4 else 2)) := by
  unfold encMsgTable encEntry
  cases big <;> simp

/-- in the small form every tag fits one byte and every offset two -/
theorem small_msg_bound (l : List (Nat × Nat)) (h : isBigMessage l = false) :
    ∀ f ∈ l, f.1 < 256 ^ 1 ∧ f.2 < 256 ^ 2 := by
  intro f hf
  unfold isBigMessage at h
  have := List.any_eq_false.mp h f hf
  simp only [Bool.or_eq_true, decide_eq_true_eq, not_or, Nat.not_lt] at this
  omega

end SpecVerif
