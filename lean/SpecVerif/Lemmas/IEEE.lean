/-
Laws of the bit-level IEEE conversions (Wire/IEEE.lean): widening a float32 and narrowing it back
is the identity on every pattern except signalling NaNs, which come back quieted (bit 22 set); a
widened float32 is an infinity, a NaN or lies inside the float32 range.
-/
import SpecVerif.Wire.IEEE
namespace SpecVerif.IEEE

theorem fields64 (s E M : Nat) (hs : s < 2) (hE : E < 2048) (hM : M < 2 ^ 52) :
    (s * 2 ^ 63 + E * 2 ^ 52 + M) / 2 ^ 63 % 2 = s ∧ (s * 2 ^ 63 + E * 2 ^ 52 + M) / 2 ^ 52 % 2048 = E ∧
    (s * 2 ^ 63 + E * 2 ^ 52 + M) % 2 ^ 52 = M ∧
    (s * 2 ^ 63 + E * 2 ^ 52 + M) % 2 ^ 63 = E * 2 ^ 52 + M := by
  refine ⟨?_, ?_, ?_, ?_⟩ <;> omega

theorem fields32 (x : Nat) (h : x < 2 ^ 32) :
    x / 2 ^ 31 % 2 < 2 ∧ x / 2 ^ 23 % 256 < 256 ∧ x % 2 ^ 23 < 2 ^ 23 ∧
    x = (x / 2 ^ 31 % 2) * 2 ^ 31 + (x / 2 ^ 23 % 256) * 2 ^ 23 + x % 2 ^ 23 := by
  refine ⟨?_, ?_, ?_, ?_⟩ <;> omega

/-- an exact significand is not rounded -/
theorem rne_exact (q shift : Nat) : rne (q * 2 ^ shift) shift = q := by
  unfold rne
  have hp : 0 < 2 ^ shift := Nat.two_pow_pos shift
  have hq : q * 2 ^ shift / 2 ^ shift = q := Nat.mul_div_cancel q hp
  have hr : q * 2 ^ shift % 2 ^ shift = 0 := Nat.mul_mod_left _ _
  have hh : 0 < 2 ^ (shift - 1) := Nat.two_pow_pos _
  simp only [hq, hr]
  have c : ¬ (0 > 2 ^ (shift - 1) ∨ 0 = 2 ^ (shift - 1) ∧ q % 2 = 1) := by omega
  simp only [c, ↓reduceIte]


/-- a signalling NaN of binary32: exponent all ones, mantissa non-zero with the top bit clear -/
def isSNaN32 (x : Nat) : Prop := x / 2 ^ 23 % 256 = 255 ∧ 0 < x % 2 ^ 23 ∧ x % 2 ^ 23 < 2 ^ 22

instance (x : Nat) : Decidable (isSNaN32 x) := by unfold isSNaN32; infer_instance

/-- narrowing a composed binary64 pattern: infinities and NaNs -/
theorem narrow_special (s M : Nat) (hs : s < 2) (hM : M < 2 ^ 52) :
    narrow (s * 2 ^ 63 + 2047 * 2 ^ 52 + M) =
      s * 2 ^ 31 + 255 * 2 ^ 23 +
        (if M = 0 then 0 else (if M / 2 ^ 29 < 2 ^ 22 then M / 2 ^ 29 + 2 ^ 22 else M / 2 ^ 29)) := by
  obtain ⟨h1, h2, h3, _⟩ := fields64 s 2047 M hs (by omega) hM
  unfold narrow
  simp only [h1, h2, h3, ↓reduceIte]

/-- zeros and binary64 subnormals narrow to a zero -/
theorem narrow_tiny (s M : Nat) (hs : s < 2) (hM : M < 2 ^ 52) :
    narrow (s * 2 ^ 63 + 0 * 2 ^ 52 + M) = s * 2 ^ 31 := by
  obtain ⟨h1, h2, h3, _⟩ := fields64 s 0 M hs (by omega) hM
  unfold narrow
  simp only [h1, h2, h3, show ¬ (0 : Nat) = 2047 by omega, ↓reduceIte]

/-- normal binary64 numbers that are normal in binary32 (before rounding) -/
theorem narrow_normal (s E M : Nat) (hs : s < 2) (hE1 : 897 ≤ E) (hE2 : E < 2047) (hM : M < 2 ^ 52) :
    narrow (s * 2 ^ 63 + E * 2 ^ 52 + M) =
      s * 2 ^ 31 + (if (E - 897) * 2 ^ 23 + rne (2 ^ 52 + M) 29 ≥ 255 * 2 ^ 23 then 255 * 2 ^ 23
        else (E - 897) * 2 ^ 23 + rne (2 ^ 52 + M) 29) := by
  obtain ⟨h1, h2, h3, _⟩ := fields64 s E M hs (by omega) hM
  have c1 : ¬ E = 2047 := by omega
  have c2 : ¬ E = 0 := by omega
  have c3 : E ≥ 897 := hE1
  unfold narrow
  simp only [h1, h2, h3, c1, c2, c3, ↓reduceIte]

/-- normal binary64 numbers below the binary32 normal range -/
theorem narrow_small (s E M : Nat) (hs : s < 2) (hE1 : 0 < E) (hE2 : E < 897) (hM : M < 2 ^ 52) :
    narrow (s * 2 ^ 63 + E * 2 ^ 52 + M) =
      s * 2 ^ 31 + (if rne (2 ^ 52 + M) (926 - E) ≥ 255 * 2 ^ 23 then 255 * 2 ^ 23
        else rne (2 ^ 52 + M) (926 - E)) := by
  obtain ⟨h1, h2, h3, _⟩ := fields64 s E M hs (by omega) hM
  have c1 : ¬ E = 2047 := by omega
  have c2 : ¬ E = 0 := by omega
  have c3 : ¬ E ≥ 897 := by omega
  unfold narrow
  simp only [h1, h2, h3, c1, c2, c3, ↓reduceIte]

/-- widening is exact and narrowing it back restores the pattern (all finite values, both zeros,
subnormals, infinities, quiet NaNs) -/
theorem narrow_widen (x : Nat) (h : x < 2 ^ 32) (hn : ¬ isSNaN32 x) : narrow (widen x) = x := by
  obtain ⟨hs, he, hm, hx⟩ := fields32 x h
  unfold isSNaN32 at hn
  generalize hsd : x / 2 ^ 31 % 2 = s at hs hx
  generalize hed : x / 2 ^ 23 % 256 = e at he hx hn
  generalize hmd : x % 2 ^ 23 = m at hm hx hn
  unfold widen
  simp only [hsd, hed, hmd]
  by_cases c1 : e = 255
  · simp only [c1, ↓reduceIte]
    by_cases c2 : m = 0
    · simp only [c2, ↓reduceIte]
      rw [narrow_special s 0 hs (by omega)]
      simp only [↓reduceIte]
      omega
    · have c3 : ¬ m < 2 ^ 22 := by omega
      simp only [c2, c3, ↓reduceIte]
      rw [narrow_special s (m * 2 ^ 29) hs (by omega)]
      have c4 : ¬ m * 2 ^ 29 = 0 := by omega
      have c5 : m * 2 ^ 29 / 2 ^ 29 = m := by omega
      simp only [↓reduceIte, c4, c5, c3]
      omega
  · simp only [c1, ↓reduceIte]
    by_cases c2 : e = 0
    · simp only [c2, ↓reduceIte]
      by_cases c3 : m = 0
      · simp only [c3, ↓reduceIte]
        have e0 : s * 2 ^ 63 = s * 2 ^ 63 + 0 * 2 ^ 52 + 0 := by omega
        rw [e0, narrow_tiny s 0 hs (by omega)]
        subst c2 c3
        rw [hx]
        simp
      · simp only [c3, ↓reduceIte]
        -- subnormal: m = 2^k + rest, exactly representable
        have hk1 : 2 ^ Nat.log2 m ≤ m := Nat.log2_self_le c3
        have hk2 : m < 2 ^ (Nat.log2 m + 1) := Nat.lt_log2_self
        generalize Nat.log2 m = k at hk1 hk2
        have hk : k ≤ 22 := by
          rcases Nat.lt_or_ge k 23 with hc | hc
          · omega
          · have : 2 ^ 23 ≤ 2 ^ k := Nat.pow_le_pow_right (by omega) hc
            omega
        have hpow : 2 ^ k * 2 ^ (52 - k) = 2 ^ 52 := by rw [← Nat.pow_add]; congr 1; omega
        have hlt : (m - 2 ^ k) * 2 ^ (52 - k) < 2 ^ 52 := by
          rw [← hpow]
          apply Nat.mul_lt_mul_of_lt_of_le _ (Nat.le_refl _) (Nat.two_pow_pos _)
          rw [Nat.pow_succ] at hk2; omega
        have hsig : 2 ^ 52 + (m - 2 ^ k) * 2 ^ (52 - k) = m * 2 ^ (52 - k) := by
          rw [← hpow, ← Nat.add_mul]; congr 1; omega
        rw [narrow_small s (k + 874) _ hs (by omega) (by omega) hlt]
        have c7 : 926 - (k + 874) = 52 - k := by omega
        simp only [hsig, c7, rne_exact]
        have c8 : ¬ m ≥ 255 * 2 ^ 23 := by omega
        simp only [c8, ↓reduceIte]
        omega
    · simp only [c2, ↓reduceIte]
      rw [narrow_normal s (e + 896) (m * 2 ^ 29) hs (by omega) (by omega) (by omega)]
      have hsig : 2 ^ 52 + m * 2 ^ 29 = (2 ^ 23 + m) * 2 ^ 29 := by omega
      simp only [hsig, rne_exact]
      have c8 : ¬ (e + 896 - 897) * 2 ^ 23 + (2 ^ 23 + m) ≥ 255 * 2 ^ 23 := by omega
      simp only [c8, ↓reduceIte]
      omega


/-- a signalling NaN comes back as the quiet NaN with the same payload (bit 22 set) -/
theorem narrow_widen_snan (x : Nat) (h : x < 2 ^ 32) (hn : isSNaN32 x) : narrow (widen x) = x + 2 ^ 22 := by
  obtain ⟨hs, he, hm, hx⟩ := fields32 x h
  unfold isSNaN32 at hn
  generalize hsd : x / 2 ^ 31 % 2 = s at hs hx
  generalize hed : x / 2 ^ 23 % 256 = e at he hx hn
  generalize hmd : x % 2 ^ 23 = m at hm hx hn
  obtain ⟨c1, h0, h22⟩ := hn
  unfold widen
  have c2 : ¬ m = 0 := by omega
  simp only [hsd, hed, hmd, c1, c2, h22, ↓reduceIte]
  rw [narrow_special s ((m + 2 ^ 22) * 2 ^ 29) hs (by omega)]
  have c4 : ¬ (m + 2 ^ 22) * 2 ^ 29 = 0 := by omega
  have c5 : (m + 2 ^ 22) * 2 ^ 29 / 2 ^ 29 = m + 2 ^ 22 := by omega
  have c6 : ¬ m + 2 ^ 22 < 2 ^ 22 := by omega
  simp only [c4, c5, c6, ↓reduceIte]
  omega

/-- the magnitude (pattern without the sign bit) of a widened float32 -/
theorem widen_mag (x : Nat) (h : x < 2 ^ 32) :
    (x / 2 ^ 23 % 256 = 255 ∧ x % 2 ^ 23 = 0 ∧ widen x % 2 ^ 63 = 2047 * 2 ^ 52) ∨
    (x / 2 ^ 23 % 256 = 255 ∧ x % 2 ^ 23 ≠ 0 ∧ widen x % 2 ^ 63 > 2047 * 2 ^ 52) ∨
    (x / 2 ^ 23 % 256 ≠ 255 ∧ widen x % 2 ^ 63 ≤ maxF32) := by
  obtain ⟨hs, he, hm, hx⟩ := fields32 x h
  generalize hsd : x / 2 ^ 31 % 2 = s at hs hx
  generalize hed : x / 2 ^ 23 % 256 = e at he hx
  generalize hmd : x % 2 ^ 23 = m at hm hx
  unfold widen maxF32
  simp only [hsd, hed, hmd]
  by_cases c1 : e = 255
  · simp only [c1, ↓reduceIte]
    by_cases c2 : m = 0
    · left
      simp only [c2, ↓reduceIte]
      exact ⟨trivial, trivial, by omega⟩
    · right; left
      simp only [c2, ↓reduceIte]
      refine ⟨trivial, by omega, ?_⟩
      split
      · rw [(fields64 s 2047 ((m + 2 ^ 22) * 2 ^ 29) hs (by omega) (by omega)).2.2.2]; omega
      · rw [(fields64 s 2047 (m * 2 ^ 29) hs (by omega) (by omega)).2.2.2]; omega
  · right; right
    refine ⟨c1, ?_⟩
    simp only [c1, ↓reduceIte]
    by_cases c2 : e = 0
    · simp only [c2, ↓reduceIte]
      by_cases c3 : m = 0
      · simp only [c3, ↓reduceIte]; omega
      · simp only [c3, ↓reduceIte]
        have hk1 : 2 ^ Nat.log2 m ≤ m := Nat.log2_self_le c3
        have hk2 : m < 2 ^ (Nat.log2 m + 1) := Nat.lt_log2_self
        generalize Nat.log2 m = k at hk1 hk2
        have hk : k ≤ 22 := by
          rcases Nat.lt_or_ge k 23 with hc | hc
          · omega
          · have : 2 ^ 23 ≤ 2 ^ k := Nat.pow_le_pow_right (by omega) hc
            omega
        have hpow : 2 ^ k * 2 ^ (52 - k) = 2 ^ 52 := by rw [← Nat.pow_add]; congr 1; omega
        have hlt : (m - 2 ^ k) * 2 ^ (52 - k) < 2 ^ 52 := by
          rw [← hpow]
          apply Nat.mul_lt_mul_of_lt_of_le _ (Nat.le_refl _) (Nat.two_pow_pos _)
          rw [Nat.pow_succ] at hk2; omega
        rw [(fields64 s (k + 874) _ hs (by omega) hlt).2.2.2]
        omega
    · simp only [c2, ↓reduceIte]
      rw [(fields64 s (e + 896) (m * 2 ^ 29) hs (by omega) (by omega)).2.2.2]
      omega

/-- a widened float32 is an infinity, or a NaN / a value inside the float32 range: the comparisons
of DecodeFloat32 never report an overflow for it -/
theorem widen_in_range (x : Nat) (h : x < 2 ^ 32) :
    isInf (widen x) = true ∨ (ltNegMax (widen x) = false ∧ gtMax (widen x) = false) := by
  rcases widen_mag x h with ⟨_, _, h3⟩ | ⟨_, _, h3⟩ | ⟨_, h3⟩
  · left; unfold isInf; simp [h3]
  · right
    have : isNaN64 (widen x) = true := by unfold isNaN64; simpa using h3
    unfold ltNegMax gtMax; simp [this]
  · right
    have : ¬ widen x % 2 ^ 63 > maxF32 := by omega
    unfold ltNegMax gtMax; simp [this]

end SpecVerif.IEEE
