/-
C01/C08/C16 helper lemmas: reading back the containers laid out by `encList` / `encMsg`, behind an
arbitrary prefix, parametric in the already encoded children.
-/
import SpecVerif.Lemmas.Access
import SpecVerif.Lemmas.Scalars
namespace SpecVerif
open Pinned

/-- decoding the trailer written by EncodeListTable / EncodeMessageTable -/
theorem decodeTable_enc (small big : UInt8) (esS esB : Nat) (p data table : Bytes) (ty : UInt8)
    (hty : ty = small ∨ ty = big) (hne : small ≠ big)
    (hal : table.length % (if ty = big then esB else esS) = 0)
    (hd : data.length < 2 ^ 32) (ht : table.length < 2 ^ 32) :
    decodeTable small big esS esB
        (p ++ (data ++ table ++ putRevU32 data.length ++ putRevU32 table.length ++ [ty])) =
      .ok (⟨table, data.length, ty == big⟩,
           data.length + table.length + (putRevU32 data.length).length + (putRevU32 table.length).length + 1) := by
  have e0 : p ++ (data ++ table ++ putRevU32 data.length ++ putRevU32 table.length ++ [ty]) =
      (p ++ data ++ table ++ putRevU32 data.length ++ putRevU32 table.length) ++ [ty] := by simp
  rw [e0]
  unfold decodeTable
  simp only [snoc_length_ne, ↓reduceIte, decodeType_snoc, take_len_sub_one_snoc]
  have c0 : ¬ (ty ≠ small ∧ ty ≠ big) := by rcases hty with h | h <;> simp [h]
  simp only [c0, ↓reduceIte]
  have e1 : p ++ data ++ table ++ putRevU32 data.length ++ putRevU32 table.length =
      (p ++ data ++ table ++ putRevU32 data.length) ++ putRevU32 table.length := by simp
  rw [e1, decodeSize_put _ _ ht]
  have hp1 := putRevU32_pos table.length
  have hp2 := putRevU32_pos data.length
  simp only
  have c1 : ¬ ((putRevU32 table.length).length : Int) < 0 := by omega
  simp only [c1, ↓reduceIte, Int.toNat_natCast]
  -- the data-size varint
  have e2 : List.take ((p ++ data ++ table ++ putRevU32 data.length ++ putRevU32 table.length ++ [ty]).length - 1 - (putRevU32 table.length).length)
      (p ++ data ++ table ++ putRevU32 data.length ++ putRevU32 table.length ++ [ty]) =
      (p ++ data ++ table) ++ putRevU32 data.length := by
    have : p ++ data ++ table ++ putRevU32 data.length ++ putRevU32 table.length ++ [ty] =
        (p ++ data ++ table ++ putRevU32 data.length) ++ (putRevU32 table.length ++ [ty]) := by simp
    rw [this]; apply List.take_left'; simp; omega
  rw [e2, decodeSize_put _ _ hd]
  simp only
  have c2 : ¬ ((putRevU32 data.length).length : Int) < 0 := by omega
  simp only [c2, ↓reduceIte, Int.toNat_natCast]
  have hE : (p ++ data ++ table ++ putRevU32 data.length ++ putRevU32 table.length ++ [ty]).length - 1 -
      (putRevU32 table.length).length - (putRevU32 data.length).length = p.length + data.length + table.length := by
    simp; omega
  rw [hE]
  have c3 : ¬ p.length + data.length + table.length < table.length := by omega
  have c4 : ¬ (table.length % (if (ty == big) = true then esB else esS) ≠ 0) := by
    simp only [beq_iff_eq, ne_eq, Decidable.not_not]; exact hal
  have c5 : ¬ p.length + data.length + table.length < table.length + data.length := by omega
  rw [if_neg c3, if_neg c4, if_neg c5]
  simp only [Res.ok.injEq, Prod.mk.injEq]
  refine ⟨?_, by omega⟩
  congr 1
  have : p ++ data ++ table ++ putRevU32 data.length ++ putRevU32 table.length ++ [ty] =
      ((p ++ data) ++ table) ++ (putRevU32 data.length ++ putRevU32 table.length ++ [ty]) := by simp
  rw [this, List.take_left' (by simp; omega)]
  have : p.length + data.length + table.length - table.length = (p ++ data).length := by simp
  rw [this, List.drop_left' rfl]

/-! ### offset tables -/

theorem readBE_shift (a rest : Bytes) (off k : Nat) :
    readBE (a ++ rest) (a.length + off) k = readBE rest off k := by
  unfold readBE
  simp only [List.length_append]
  have hd : List.drop (a.length + off) (a ++ rest) = List.drop off rest := by
    rw [List.drop_append]
    have : List.drop (a.length + off) a = [] := List.drop_eq_nil_of_le (by omega)
    rw [this]; simp
  rw [hd]
  by_cases c : off + k ≤ rest.length
  · have c' : a.length + off + k ≤ a.length + rest.length := by omega
    simp [c, c']
  · have c' : ¬ a.length + off + k ≤ a.length + rest.length := by omega
    simp [c, c']

theorem readBE_head (a rest : Bytes) (k : Nat) (h : a.length = k) :
    readBE (a ++ rest) 0 k = some (be a) := by
  unfold readBE
  have : 0 + k ≤ (a ++ rest).length := by simp; omega
  simp only [this, ↓reduceIte, List.drop_zero]
  rw [List.take_left' h]

/-- reading entry `i` of a table of fixed-width big-endian numbers -/
theorem readBE_flatMap (k : Nat) (xs : List Nat) (i : Nat) (hi : i < xs.length)
    (hx : ∀ x ∈ xs, x < 256 ^ k) :
    readBE (xs.flatMap fun o => toBE k o) (i * k) k = some (xs[i]) := by
  induction xs generalizing i with
  | nil => simp at hi
  | cons x xs ih =>
    simp only [List.flatMap_cons]
    cases i with
    | zero =>
      rw [Nat.zero_mul, readBE_head _ _ k (toBE_length k x), be_toBE k x (hx x (by simp))]
      simp
    | succ j =>
      have e : (j + 1) * k = (toBE k x).length + j * k := by rw [Nat.succ_mul, toBE_length]; omega
      rw [e, readBE_shift]
      simpa using ih j (by simpa using hi) (fun y hy => hx y (by simp [hy]))

end SpecVerif
