/-
C02 helper lemmas, accessor layer: tables opened from arbitrary bytes can be indexed, searched and
sliced without a panic; element/field bytes are strictly shorter than the container.
-/
import SpecVerif.Lemmas.Safe
namespace SpecVerif
open Pinned

theorem suffix_ok (b : Bytes) (n : Nat) (h : n ≤ b.length) : suffix b n = .ok (lastN n b) := by
  unfold suffix; simp; omega

theorem readBE_some (t : Bytes) (off k : Nat) (h : off + k ≤ t.length) :
    ∃ v, readBE t off k = some v := by
  unfold readBE; simp [h]

theorem slice?_some (b : Bytes) (lo hi : Nat) (h1 : lo ≤ hi) (h2 : hi ≤ b.length) :
    slice? b lo hi = some ((b.take hi).drop lo) := by
  unfold slice?; simp [h1, h2]

/-- well-formedness of an opened list/message: what `decodeTable` established -/
structure WFTable (esS esB : Nat) (t : Table) (bytesLen : Nat) : Prop where
  aligned : t.table.length % (if t.big then esB else esS) = 0
  room : t.table.length = 0 ∨ t.data + t.table.length + 3 ≤ bytesLen

theorem wf_of_decodeTable (small big : UInt8) (esS esB : Nat) (b : Bytes) (t : Table) (size : Nat)
    (h : decodeTable small big esS esB b = .ok (t, size)) :
    size ≤ b.length ∧ WFTable esS esB t size := by
  rcases decodeTable_ok small big esS esB b t size h with ⟨h0, ht⟩ | ok
  · subst h0 ht
    exact ⟨by omega, ⟨by simp [Table.empty], Or.inl (by simp [Table.empty])⟩⟩
  · exact ⟨ok.size_le, ⟨ok.aligned, Or.inr ok.room⟩⟩

/-! ### lists -/

def ListV.WF (l : ListV) : Prop := WFTable listElemSmall listElemBig l.table l.bytes.length

theorem openListErr_spec (b : Bytes) :
    (∃ l, openListErr b = .ok l ∧ l.WF ∧ l.bytes.length ≤ b.length) ∨ (∃ e, openListErr b = .err e 0) := by
  unfold openListErr
  have hs := decodeTable_safe tList tBigList listElemSmall listElemBig b
  unfold decodeListTable
  generalize hd : decodeTable tList tBigList listElemSmall listElemBig b = r at hs
  match r, hd with
  | .ok (t, n), hd =>
    have ⟨hle, wf⟩ := wf_of_decodeTable _ _ _ _ b t n hd
    left
    refine ⟨⟨t, lastN n b⟩, ?_, ?_, ?_⟩
    · simp only [suffix_ok b n hle]; rfl
    · unfold ListV.WF; simp only [lastN_length_le]; rw [Nat.min_eq_left hle]; exact wf
    · simp; omega
  | .err e k, _ => right; exact ⟨e, rfl⟩
  | .panic, _ => simp at hs

theorem listOffset_ok (l : ListV) (wf : l.WF) (i : Nat) (hi : i < l.len) :
    ∃ s e, l.table.listOffset i = .ok (some (s, e)) := by
  unfold ListV.len Table.listLen at hi
  unfold Table.listOffset
  have hal := wf.aligned
  cases hb : l.table.big <;> simp only [hb, listElemSmall, listElemBig, Bool.false_eq_true, ↓reduceIte] at hi hal ⊢
  · have h1 : ¬ (i ≥ l.table.table.length / 2) := by omega
    simp only [h1, ↓reduceIte]
    obtain ⟨e, he⟩ := readBE_some l.table.table (i * 2) 2 (by omega)
    by_cases h0 : i > 0
    · obtain ⟨s, hs⟩ := readBE_some l.table.table (i * 2 - 2) 2 (by omega)
      simp [h0, hs, he]
    · simp [h0, he]
  · have h1 : ¬ (i ≥ l.table.table.length / 4) := by omega
    simp only [h1, ↓reduceIte]
    obtain ⟨e, he⟩ := readBE_some l.table.table (i * 4) 4 (by omega)
    by_cases h0 : i > 0
    · obtain ⟨s, hs⟩ := readBE_some l.table.table (i * 4 - 4) 4 (by omega)
      simp [h0, hs, he]
    · simp [h0, he]

/-- `List.Get(i)` / `GetBytes(i)` for `i < Len()`: never a panic; the element is strictly shorter
than the list value it came from. -/
theorem getBytes_ok (l : ListV) (wf : l.WF) (i : Nat) (hi : i < l.len) :
    ∃ v, l.getBytes i = .ok v ∧ v.length + 3 ≤ l.bytes.length := by
  obtain ⟨s, e, h⟩ := listOffset_ok l wf i hi
  have hroom := wf.room
  have hpos : l.table.table.length ≠ 0 := by
    unfold ListV.len Table.listLen at hi
    intro h0; simp [h0] at hi
  have hr : l.table.data + l.table.table.length + 3 ≤ l.bytes.length := by
    rcases hroom with h0 | h1
    · exact absurd h0 hpos
    · exact h1
  unfold ListV.getBytes
  simp only [h]
  by_cases c : e > l.table.data ∨ s > e
  · simp only [c, ↓reduceIte]
    exact ⟨[], rfl, by simp; omega⟩
  · simp only [c, ↓reduceIte]
    have c1 : e ≤ l.table.data := by omega
    have c2 : s ≤ e := by omega
    rw [slice?_some l.bytes s e c2 (by omega)]
    exact ⟨_, rfl, by simp; omega⟩

/-! ### messages -/

def MsgV.WF (m : MsgV) : Prop := WFTable msgFieldSmall msgFieldBig m.table m.bytes.length

/-- The binary search terminates within its fuel and never reads outside the table. -/
theorem bsearch_ok (tb : Bytes) (es tw tag n : Nat) (htw : tw ≤ es) (hn : n * es ≤ tb.length) :
    ∀ (fuel : Nat) (left right : Int), 0 ≤ left → right < n → left ≤ right + 1 →
      right - left + 2 ≤ fuel → ∃ r, bsearch tb es tw tag fuel left right = .ok r := by
  intro fuel
  induction fuel with
  | zero => intro left right h0 h1 h2 h3; omega
  | succ fuel ih =>
    intro left right h0 h1 h2 h3
    unfold bsearch
    by_cases c : left > right
    · simp [c]
    · simp only [c, ↓reduceIte]
      have hmid : ((left + right) / 2).toNat < n := by omega
      have hm : (((left + right) / 2).toNat + 1) * es ≤ n * es := Nat.mul_le_mul_right es (by omega)
      rw [Nat.succ_mul] at hm
      obtain ⟨cur, hc⟩ := readBE_some tb (((left + right) / 2).toNat * es) tw (by omega)
      simp only [hc]
      by_cases c1 : cur < tag
      · simp only [c1, ↓reduceIte]
        exact ih _ _ (by omega) h1 (by omega) (by omega)
      · simp only [c1, ↓reduceIte]
        by_cases c2 : cur > tag
        · simp only [c2, ↓reduceIte]
          exact ih _ _ h0 (by omega) (by omega) (by omega)
        · simp only [c2, ↓reduceIte]
          obtain ⟨o, ho⟩ := readBE_some tb (((left + right) / 2).toNat * es + tw) (es - tw) (by omega)
          simp [ho]

theorem msgOffset_ok (m : MsgV) (tag : Nat) : ∃ r, m.table.msgOffset tag = .ok r := by
  unfold Table.msgOffset
  by_cases c : m.table.table.length < m.table.entrySize
  · simp [c]
  · simp only [c, ↓reduceIte]
    have hes : 0 < m.table.entrySize := by unfold Table.entrySize msgFieldBig msgFieldSmall; split <;> omega
    have htw : m.table.tagSize ≤ m.table.entrySize := by
      unfold Table.entrySize Table.tagSize msgFieldBig msgFieldSmall; split <;> omega
    have hn : m.table.table.length / m.table.entrySize * m.table.entrySize ≤ m.table.table.length :=
      Nat.div_mul_le_self _ _
    have hpos : 0 < m.table.table.length / m.table.entrySize := Nat.div_pos (by omega) hes
    exact bsearch_ok _ _ _ tag _ htw hn _ 0 _ (by omega) (by omega) (by omega) (by omega)

theorem openMessageErr_spec (b : Bytes) :
    (∃ m, openMessageErr b = .ok m ∧ m.WF ∧ m.bytes.length ≤ b.length) ∨ (∃ e, openMessageErr b = .err e 0) := by
  unfold openMessageErr
  have hs := decodeTable_safe tMessage tBigMessage msgFieldSmall msgFieldBig b
  unfold decodeMessageTable
  generalize hd : decodeTable tMessage tBigMessage msgFieldSmall msgFieldBig b = r at hs
  match r, hd with
  | .ok (t, n), hd =>
    have ⟨hle, wf⟩ := wf_of_decodeTable _ _ _ _ b t n hd
    left
    refine ⟨⟨t, lastN n b⟩, ?_, ?_, ?_⟩
    · simp only [suffix_ok b n hle]; rfl
    · unfold MsgV.WF; simp only [lastN_length_le]; rw [Nat.min_eq_left hle]; exact wf
    · simp; omega
  | .err e k, _ => right; exact ⟨e, rfl⟩
  | .panic, _ => simp at hs

/-- a field's raw bytes: no panic; strictly shorter than the message when non-empty -/
theorem fieldRaw_ok (m : MsgV) (wf : m.WF) (tag : Nat) :
    ∃ v, m.fieldRaw tag = .ok v ∧ (v.length = 0 ∨ v.length + 3 ≤ m.bytes.length) := by
  obtain ⟨r, hr⟩ := msgOffset_ok m tag
  unfold MsgV.fieldRaw
  simp only [hr]
  cases r with
  | none => exact ⟨[], rfl, Or.inl rfl⟩
  | some e =>
    simp only
    by_cases c : e > m.table.data
    · simp only [c, ↓reduceIte]; exact ⟨[], rfl, Or.inl rfl⟩
    · simp only [c, ↓reduceIte]
      rcases wf.room with h0 | h1
      · -- an empty table cannot produce an offset
        exfalso
        unfold Table.msgOffset at hr
        have : m.table.table.length < m.table.entrySize := by
          unfold Table.entrySize msgFieldBig msgFieldSmall; split <;> omega
        simp [this] at hr
      · rw [slice?_some m.bytes 0 e (by omega) (by omega)]
        exact ⟨_, rfl, Or.inr (by simp; omega)⟩

theorem hasField_ok (m : MsgV) (tag : Nat) : ∃ r, m.hasField tag = .ok r := by
  obtain ⟨r, hr⟩ := msgOffset_ok m tag
  unfold MsgV.hasField
  simp only [hr]
  cases r <;> simp

theorem msgOffsetByIndex_ok (m : MsgV) (wf : m.WF) (i : Nat) : ∃ r, m.table.msgOffsetByIndex i = .ok r := by
  unfold Table.msgOffsetByIndex
  by_cases c : i ≥ m.table.msgLen
  · simp [c]
  · simp only [c, ↓reduceIte]
    have hal := wf.aligned
    unfold Table.msgLen at c
    unfold Table.entrySize Table.tagSize at *
    cases hb : m.table.big <;> simp only [hb, msgFieldSmall, msgFieldBig, Bool.false_eq_true, ↓reduceIte] at c hal ⊢
    · obtain ⟨o, ho⟩ := readBE_some m.table.table (i * 3 + 1) 2 (by omega)
      simp [ho]
    · obtain ⟨o, ho⟩ := readBE_some m.table.table (i * 6 + 2) 4 (by omega)
      simp [ho]

theorem msgFieldEntry_ok (m : MsgV) (wf : m.WF) (i : Nat) : ∃ r, m.table.msgFieldEntry i = .ok r := by
  unfold Table.msgFieldEntry
  by_cases c : i ≥ m.table.msgLen
  · simp [c]
  · simp only [c, ↓reduceIte]
    have hal := wf.aligned
    unfold Table.msgLen at c
    unfold Table.entrySize Table.tagSize at *
    cases hb : m.table.big <;> simp only [hb, msgFieldSmall, msgFieldBig, Bool.false_eq_true, ↓reduceIte] at c hal ⊢
    · obtain ⟨t, ht⟩ := readBE_some m.table.table (i * 3) 1 (by omega)
      obtain ⟨o, ho⟩ := readBE_some m.table.table (i * 3 + 1) 2 (by omega)
      simp [ht, ho]
    · obtain ⟨t, ht⟩ := readBE_some m.table.table (i * 6) 2 (by omega)
      obtain ⟨o, ho⟩ := readBE_some m.table.table (i * 6 + 2) 4 (by omega)
      simp [ht, ho]

theorem fieldAtRaw_ok (m : MsgV) (wf : m.WF) (i : Nat) :
    ∃ v, m.fieldAtRaw i = .ok v ∧ (v.length = 0 ∨ v.length + 3 ≤ m.bytes.length) := by
  obtain ⟨r, hr⟩ := msgOffsetByIndex_ok m wf i
  unfold MsgV.fieldAtRaw
  simp only [hr]
  cases r with
  | none => exact ⟨[], rfl, Or.inl rfl⟩
  | some e =>
    simp only
    by_cases c : e > m.table.data
    · simp only [c, ↓reduceIte]; exact ⟨[], rfl, Or.inl rfl⟩
    · simp only [c, ↓reduceIte]
      rcases wf.room with h0 | h1
      · exfalso
        unfold Table.msgOffsetByIndex Table.msgLen at hr
        simp [h0] at hr
      · rw [slice?_some m.bytes 0 e (by omega) (by omega)]
        exact ⟨_, rfl, Or.inr (by simp; omega)⟩

theorem tagAt_ok (m : MsgV) (wf : m.WF) (i : Nat) : ∃ r, m.tagAt i = .ok r := by
  obtain ⟨r, hr⟩ := msgFieldEntry_ok m wf i
  unfold MsgV.tagAt
  simp [hr, bind, Res.bind, pure]

end SpecVerif
