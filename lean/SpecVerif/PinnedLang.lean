/-
Pinned facts of the schema parser: the productions of grammar.y (actions removed, `!error` marks
productions whose action rejects the input), the keyword table, and the result of regenerating
grammar.go with goyacc. `TiesLang.lean` proves the facts regenerated from /repo on every run equal these.
-/
namespace SpecVerif.PinnedLang

def grammarRules : List String :=
  ["field_name -> IDENT", "field_name -> keyword", "keyword -> ANY", "keyword -> IMPORT", "keyword -> MESSAGE", "keyword -> OPTIONS", "keyword -> STRUCT", "keyword -> SERVICE", "keyword -> SUBSERVICE", "file -> imports options definitions", "import -> STRING", "import -> IDENT STRING", "import_list ->", "import_list -> import_list import", "imports ->", "imports -> IMPORT '(' import_list ')'", "options ->", "options -> OPTIONS '(' option_list ')'", "option_list ->", "option_list -> option_list option", "option -> IDENT '=' STRING", "type -> base_type", "type -> '[' ']' base_type", "base_type -> IDENT", "base_type -> IDENT '.' IDENT", "base_type -> ANY", "base_type -> MESSAGE", "definition -> enum", "definition -> message", "definition -> struct", "definition -> service", "definition -> subservice", "definitions ->", "definitions -> definitions definition", "enum -> ENUM IDENT '{' enum_values '}'", "enum_value -> field_name '=' INTEGER ';'", "enum_values ->", "enum_values -> enum_values enum_value", "message -> MESSAGE IDENT '{' fields semi_opt '}'", "field -> field_name type INTEGER", "fields ->", "fields -> field", "fields -> fields ';' field", "struct -> STRUCT IDENT '{' struct_fields '}'", "struct_field -> field_name type ';'", "struct_fields ->", "struct_fields -> struct_fields struct_field", "service -> SERVICE IDENT '{' methods '}'", "subservice -> SUBSERVICE IDENT '{' methods '}'", "methods ->", "methods -> methods method", "method -> field_name method_input ';'", "method -> field_name method_input method_oneway ';'", "method -> field_name method_input method_output ';'", "method -> field_name method_input method_channel ';'", "method -> field_name method_input method_channel method_output ';'", "method_input -> '(' base_type ')'", "method_input -> '(' method_field_list ')'", "method_oneway -> ONEWAY", "method_output -> base_type", "method_output -> '(' method_field_list ')'", "method_channel -> '(' method_channel_in ')'", "method_channel -> '(' method_channel_out ')'", "method_channel -> '(' method_channel_in ',' method_channel_out ')'", "method_channel -> '(' method_channel_out ',' method_channel_in ')' !error", "method_channel_in -> '<' '-' type", "method_channel_in -> type '<' '-' !error", "method_channel_out -> type '-' '>'", "method_channel_out -> '-' '>' type !error", "method_field_list -> method_fields comma_opt", "method_fields ->", "method_fields -> method_field", "method_fields -> method_fields ',' method_field", "method_field -> field_name type INTEGER", "comma_opt ->", "comma_opt -> ','", "semi_opt ->", "semi_opt -> ';'"]
def lexKeywords : List String :=
  ["any=ANY", "enum=ENUM", "import=IMPORT", "message=MESSAGE", "oneway=ONEWAY", "options=OPTIONS", "service=SERVICE", "struct=STRUCT", "subservice=SUBSERVICE"]
def grammarRegenerated : String :=
  "yes"
def grammarConflicts : String :=
  "0 shift/reduce, 0 reduce/reduce conflicts reported"

end SpecVerif.PinnedLang
