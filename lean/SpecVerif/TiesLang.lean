/-
Ties for the schema parser facts (see PinnedLang.lean), and their links to the Lean model.
-/
import SpecVerif.PinnedLang
import SpecVerif.PinnedMpx
import SpecVerif.Generated.Facts
import SpecVerif.Lang.Syntax
namespace SpecVerif.TiesLang
set_option maxRecDepth 100000

theorem grammarRules_tie : Generated.grammarRules = PinnedLang.grammarRules := by decide
theorem lexKeywords_tie : Generated.lexKeywords = PinnedLang.lexKeywords := by decide
theorem grammarRegenerated_tie : Generated.grammarRegenerated = PinnedLang.grammarRegenerated := by decide
theorem grammarConflicts_tie : Generated.grammarConflicts = PinnedLang.grammarConflicts := by decide

/-- grammar.go in the repository is what goyacc generates from grammar.y, without conflicts: the
generated parser accepts exactly the language of the pinned productions -/
theorem parser_tables_current : PinnedLang.grammarRegenerated = "yes" ∧
    PinnedLang.grammarConflicts = "0 shift/reduce, 0 reduce/reduce conflicts reported" := by decide

open SpecVerif.Lang in
/-- the model's keyword table is keywords.go -/
theorem keywords_model : (∀ s ∈ PinnedLang.lexKeywords, s ∈ Kw.all.map Kw.entry) ∧
    PinnedLang.lexKeywords.length = Kw.all.length := by decide

open SpecVerif.Lang in
/-- the model's contextual keywords (`Kw.isName`) are the alternatives of the `keyword` nonterminal -/
theorem name_keywords_model : ∀ k ∈ Kw.all,
    k.isName = decide (k.nameRule ∈ PinnedLang.grammarRules) := by decide

/-- `a` is immediately followed by `b` somewhere in `l` -/
def adjacent (a b : String) : List String → Bool
  | x :: y :: r => (x == a && y == b) || adjacent a b (y :: r)
  | _ => false

def scalarKinds : List String :=
  ["Bool", "Byte", "Int16", "Int32", "Int64", "Uint16", "Uint32", "Uint64", "Bin64", "Bin128", "Bin256",
   "Float32", "Float64", "Bytes", "String"]

def writeCase : String → String × String
  | "Bool" => ("case model.KindBool", "return \"spec.EncodeBool\"") | "Byte" => ("case model.KindByte", "return \"spec.EncodeByte\"")
  | "Int16" => ("case model.KindInt16", "return \"spec.EncodeInt16\"") | "Int32" => ("case model.KindInt32", "return \"spec.EncodeInt32\"")
  | "Int64" => ("case model.KindInt64", "return \"spec.EncodeInt64\"") | "Uint16" => ("case model.KindUint16", "return \"spec.EncodeUint16\"")
  | "Uint32" => ("case model.KindUint32", "return \"spec.EncodeUint32\"") | "Uint64" => ("case model.KindUint64", "return \"spec.EncodeUint64\"")
  | "Bin64" => ("case model.KindBin64", "return \"spec.EncodeBin64\"") | "Bin128" => ("case model.KindBin128", "return \"spec.EncodeBin128\"")
  | "Bin256" => ("case model.KindBin256", "return \"spec.EncodeBin256\"") | "Float32" => ("case model.KindFloat32", "return \"spec.EncodeFloat32\"")
  | "Float64" => ("case model.KindFloat64", "return \"spec.EncodeFloat64\"") | "Bytes" => ("case model.KindBytes", "return \"spec.EncodeBytes\"")
  | "String" => ("case model.KindString", "return \"spec.EncodeString\"") | _ => ("", "")

def decodeCase : String → String × String
  | "Bool" => ("case model.KindBool", "return \"spec.DecodeBool\"") | "Byte" => ("case model.KindByte", "return \"spec.DecodeByte\"")
  | "Int16" => ("case model.KindInt16", "return \"spec.DecodeInt16\"") | "Int32" => ("case model.KindInt32", "return \"spec.DecodeInt32\"")
  | "Int64" => ("case model.KindInt64", "return \"spec.DecodeInt64\"") | "Uint16" => ("case model.KindUint16", "return \"spec.DecodeUint16\"")
  | "Uint32" => ("case model.KindUint32", "return \"spec.DecodeUint32\"") | "Uint64" => ("case model.KindUint64", "return \"spec.DecodeUint64\"")
  | "Bin64" => ("case model.KindBin64", "return \"spec.DecodeBin64\"") | "Bin128" => ("case model.KindBin128", "return \"spec.DecodeBin128\"")
  | "Bin256" => ("case model.KindBin256", "return \"spec.DecodeBin256\"") | "Float32" => ("case model.KindFloat32", "return \"spec.DecodeFloat32\"")
  | "Float64" => ("case model.KindFloat64", "return \"spec.DecodeFloat64\"") | "Bytes" => ("case model.KindBytes", "return \"spec.DecodeBytes\"")
  | "String" => ("case model.KindString", "return \"spec.DecodeString\"") | _ => ("", "")

/-- the generator pairs every scalar kind with the encoder and the decoder of that kind (C05: each
generated accessor reads and writes the wire type declared in the schema) -/
theorem generator_scalar_tables :
    (scalarKinds.all fun k => adjacent (writeCase k).1 (writeCase k).2 PinnedMpx.ev_gen_typeWriteFunc) = true ∧
    (scalarKinds.all fun k => adjacent (decodeCase k).1 (decodeCase k).2 PinnedMpx.ev_gen_typeDecodeFunc) = true := by
  decide

end SpecVerif.TiesLang
