/-
Ties for the schema parser facts (see PinnedLang.lean), and their links to the Lean model.
-/
import SpecVerif.PinnedLang
import SpecVerif.Generated.Facts
import SpecVerif.Lang.Syntax
namespace SpecVerif.TiesLang
set_option maxRecDepth 100000

theorem grammarRules_tie : Generated.grammarRules = PinnedLang.grammarRules := by decide
theorem lexKeywords_tie : Generated.lexKeywords = PinnedLang.lexKeywords := by decide
theorem grammarRegenerated_tie : Generated.grammarRegenerated = PinnedLang.grammarRegenerated := by decide
theorem grammarConflicts_tie : Generated.grammarConflicts = PinnedLang.grammarConflicts := by decide

/-- grammar.go in the repository is what goyacc generates from grammar.y, without conflicts: the
generated parser accepts exactly the language of the pinned productions -/
theorem parser_tables_current : PinnedLang.grammarRegenerated = "yes" ∧
    PinnedLang.grammarConflicts = "0 shift/reduce, 0 reduce/reduce conflicts reported" := by decide

open SpecVerif.Lang in
/-- the model's keyword table is keywords.go -/
theorem keywords_model : (∀ s ∈ PinnedLang.lexKeywords, s ∈ Kw.all.map Kw.entry) ∧
    PinnedLang.lexKeywords.length = Kw.all.length := by decide

open SpecVerif.Lang in
/-- the model's contextual keywords (`Kw.isName`) are the alternatives of the `keyword` nonterminal -/
theorem name_keywords_model : ∀ k ∈ Kw.all,
    k.isName = decide (k.nameRule ∈ PinnedLang.grammarRules) := by decide

end SpecVerif.TiesLang
