/-
Ties between the facts regenerated from /repo's source on every run (`Generated.Facts`) and the
hand-written `Pinned` values the models are built on. A change of any of these facts in the code
breaks a proof obligation here at `lake build`.
-/
import SpecVerif.Pinned
import SpecVerif.Generated.Facts
namespace SpecVerif.Ties

theorem typeCodes_tie : Generated.typeCodes = Pinned.typeCodes := by decide
theorem listElemSmall_tie : Generated.listElemSmall = Pinned.listElemSmall := by decide
theorem listElemBig_tie : Generated.listElemBig = Pinned.listElemBig := by decide
theorem msgFieldSmall_tie : Generated.msgFieldSmall = Pinned.msgFieldSmall := by decide
theorem msgFieldBig_tie : Generated.msgFieldBig = Pinned.msgFieldBig := by decide
theorem maxSize_tie : Generated.maxSize = Pinned.maxSize := by decide
theorem protocolLine_tie : Generated.protocolLine = Pinned.protocolLine := by decide
theorem maxReadChunk_tie : Generated.maxReadChunk = Pinned.maxReadChunk := by decide

/-- the `Pinned` type-code definitions used by the models agree with the pinned table -/
theorem pinned_codes_consistent :
    Pinned.typeCodes.map (·.2) =
      [Pinned.tUndefined, Pinned.tTrue, Pinned.tFalse, Pinned.tByte, Pinned.tInt16, Pinned.tInt32,
       Pinned.tInt64, Pinned.tUint16, Pinned.tUint32, Pinned.tUint64, Pinned.tFloat32,
       Pinned.tFloat64, Pinned.tBin64, Pinned.tBin128, Pinned.tBin256, Pinned.tBytes,
       Pinned.tString, Pinned.tList, Pinned.tBigList, Pinned.tMessage, Pinned.tBigMessage,
       Pinned.tStruct].map (·.toNat) := by decide

end SpecVerif.Ties
