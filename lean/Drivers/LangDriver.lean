/-
Driver of the schema-language model (C15/C14): one operation per line.
  compile <class> <pkg/file=hex;...> →   ok | err | unmodelled   (C14: the rules of the language)
  parse <hex of the source text>   →   <tokens, tab separated> | ok <dump>   or   ... | err
                                        unmodelled               (outside the lexer model)
  toks <hex>                        →   the token part only
-/
import SpecVerif.Lang.Lexer
import SpecVerif.Lang.Parser
import SpecVerif.Lang.Check
open SpecVerif.Lang

def hexVal (c : Char) : Option Nat :=
  if '0' ≤ c ∧ c ≤ '9' then some (c.toNat - 48)
  else if 'a' ≤ c ∧ c ≤ 'f' then some (c.toNat - 87)
  else none

def parseHexChars : List Char → List Char → Option (List Char)
  | [], acc => some acc.reverse
  | [_], _ => none
  | a :: b :: rest, acc =>
    match hexVal a, hexVal b with
    | some x, some y => parseHexChars rest (Char.ofNat (x * 16 + y) :: acc)
    | _, _ => none

def parseText (hex : String) : Option (List Char) :=
  if hex = "-" then some [] else parseHexChars hex.toList []

/-- one file of a bundle: `pkg/file=hex` -/
inductive FileRes
  | ok (pkg name : String) (f : File)
  | parseErr
  | unmodelled
  | bad

def readPart (part : String) : FileRes :=
  match part.splitOn "=" with
  | [k, hex] =>
    (match k.splitOn "/" with
     | [pkg, name] =>
       (match parseText hex with
        | none => .bad
        | some cs =>
          match lexChars cs with
          | none => .unmodelled
          | some ts =>
            match parseFile ts with
            | some f => .ok pkg name f
            | none => .parseErr)
     | _ => .bad)
  | _ => .bad

def plainId (s : String) : Bool := !s.isEmpty && s.toList.all fun c => isIdChar c

/-- group the files by package, keeping the order of first appearance -/
def groupFiles (fs : List (String × String × File)) : Bundle :=
  let ids := fs.foldl (fun acc (p, _, _) => if p ∈ acc then acc else acc ++ [p]) ([] : List String)
  ids.map fun id => { id := id, files := (fs.filter fun (p, _, _) => p == id).map fun (_, n, f) => { name := n, file := f } }

/-- `compile <class> <bundle>` → ok | err | unmodelled -/
def compileAnswer (bundle : String) : String :=
  let parts := (bundle.splitOn ";").map readPart
  if parts.any (fun r => match r with | .bad => true | _ => false) then "bad-op"
  else if parts.any (fun r => match r with | .unmodelled => true | _ => false) then "unmodelled"
  else if parts.any (fun r => match r with | .parseErr => true | _ => false) then "err"
  else
    let fs := parts.filterMap fun r => match r with | .ok p n f => some (p, n, f) | _ => none
    let b := groupFiles fs
    if b.any (fun p => p.files.any fun pf => pf.file.imports.any fun im => !plainId im.id) then "unmodelled"
    else if wfBundle b then "ok" else "err"

def answer (line : String) : String :=
  match line.splitOn " " with
  | ["parse", hex] =>
    (match parseText hex with
     | none => "bad-op"
     | some cs =>
       match lexChars cs with
       | none => "unmodelled"
       | some ts =>
         "\t".intercalate (ts.map Tok.show) ++ " | " ++
           (match parseFile ts with
            | some f => "ok " ++ f.dump
            | none => "err"))
  | ["parsev", hex, want] =>
    (match parseText hex, parseText want with
     | some cs, some w =>
       match lexChars cs with
       | none => "unmodelled"
       | some ts =>
         "\t".intercalate (ts.map Tok.show) ++ " | " ++
           (match parseFile ts with
            | some f => "ok " ++ f.dump ++ (if f.dump = String.ofList w then "" else " MODEL-DIFFERS")
            | none => "err MODEL-DIFFERS")
     | _, _ => "bad-op")
  | ["compile", _, bundle] => compileAnswer bundle
  | ["toks", hex] =>
    (match parseText hex with
     | none => "bad-op"
     | some cs =>
       match lexChars cs with
       | none => "unmodelled"
       | some ts => "\t".intercalate (ts.map Tok.show))
  | _ => "bad-op"

partial def loop (h : IO.FS.Stream) (out : IO.FS.Stream) : IO Unit := do
  let line ← h.getLine
  if line.isEmpty then return ()
  out.putStrLn (answer line.trimAsciiEnd.toString)
  loop h out

def main : IO Unit := do
  loop (← IO.getStdin) (← IO.getStdout)
