/-
Driver of the schema-language model (C15/C14): one operation per line.
  parse <hex of the source text>   →   <tokens, tab separated> | ok <dump>   or   ... | err
                                        unmodelled               (outside the lexer model)
  toks <hex>                        →   the token part only
-/
import SpecVerif.Lang.Lexer
import SpecVerif.Lang.Parser
open SpecVerif.Lang

def hexVal (c : Char) : Option Nat :=
  if '0' ≤ c ∧ c ≤ '9' then some (c.toNat - 48)
  else if 'a' ≤ c ∧ c ≤ 'f' then some (c.toNat - 87)
  else none

def parseHexChars : List Char → List Char → Option (List Char)
  | [], acc => some acc.reverse
  | [_], _ => none
  | a :: b :: rest, acc =>
    match hexVal a, hexVal b with
    | some x, some y => parseHexChars rest (Char.ofNat (x * 16 + y) :: acc)
    | _, _ => none

def parseText (hex : String) : Option (List Char) :=
  if hex = "-" then some [] else parseHexChars hex.toList []

def answer (line : String) : String :=
  match line.splitOn " " with
  | ["parse", hex] =>
    (match parseText hex with
     | none => "bad-op"
     | some cs =>
       match lexChars cs with
       | none => "unmodelled"
       | some ts =>
         "\t".intercalate (ts.map Tok.show) ++ " | " ++
           (match parseFile ts with
            | some f => "ok " ++ f.dump
            | none => "err"))
  | ["parsev", hex, want] =>
    (match parseText hex, parseText want with
     | some cs, some w =>
       match lexChars cs with
       | none => "unmodelled"
       | some ts =>
         "\t".intercalate (ts.map Tok.show) ++ " | " ++
           (match parseFile ts with
            | some f => "ok " ++ f.dump ++ (if f.dump = String.ofList w then "" else " MODEL-DIFFERS")
            | none => "err MODEL-DIFFERS")
     | _, _ => "bad-op")
  | ["toks", hex] =>
    (match parseText hex with
     | none => "bad-op"
     | some cs =>
       match lexChars cs with
       | none => "unmodelled"
       | some ts => "\t".intercalate (ts.map Tok.show))
  | _ => "bad-op"

partial def loop (h : IO.FS.Stream) (out : IO.FS.Stream) : IO Unit := do
  let line ← h.getLine
  if line.isEmpty then return ()
  out.putStrLn (answer line.trimAsciiEnd.toString)
  loop h out

def main : IO Unit := do
  loop (← IO.getStdin) (← IO.getStdout)
