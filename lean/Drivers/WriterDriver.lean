import Drivers.Common
import SpecVerif.Writer.Ref
open SpecVerif SpecVerif.Writer Drivers

def F := modelFloat

def scalarEnc (kind arg : String) : Option Bytes :=
  match kind with
  | "bool" => some (encBool (arg == "true"))
  | "byte" => arg.toNat?.map fun v => encByte (UInt8.ofNat v)
  | "i16" => arg.toInt?.map encInt16
  | "i32" => arg.toInt?.map encInt32
  | "i64" => arg.toInt?.map encInt64
  | "u16" => arg.toNat?.map encUint16
  | "u32" => arg.toNat?.map encUint32
  | "u64" => arg.toNat?.map encUint64
  | "f32" => arg.toNat?.map encFloat32
  | "f64" => arg.toNat?.map encFloat64
  | "bin64" => (parseHex arg).map encBin64
  | "bin128" => (parseHex arg).map encBin128
  | "bin256" => (parseHex arg).map encBin256
  | "bytes" => (parseHex arg).map encBytes
  | "str" => (parseHex arg).map encString
  | _ => none

def splitHandle (op : String) : String × Option Nat :=
  match op.splitOn "@" with
  | [o, h] => (o, h.toNat?)
  | _ => (op, none)

def parseCall (c : String) : Call :=
  match c.splitOn " " with
  | [] => .bad
  | op :: args =>
    let (o, h) := splitHandle op
    match o, h, args with
    | "msg", none, [] => .msg
    | "list", none, [] => .list
    | "v", none, [k, a] => match scalarEnc k a with | some e => .v e | none => .bad
    | "vany", none, [a] => match parseHex a with | some b => .v b | none => .bad
    | "vbuild", none, [] => .vbuild
    | "f", some h, [t, k, a] =>
      match t.toNat?, scalarEnc k a with | some t, some e => .f h t e | _, _ => .bad
    | "fw", some h, [t, a, "ok"] =>
      match t.toNat?, parseHex a with | some t, some b => .f h t b | _, _ => .bad
    | "fw", some h, [_, _, "fail"] => .fwfail h
    | "ew", some h, [a, "ok"] => match parseHex a with | some b => .e h b | none => .bad
    | "ew", some h, [_, "fail"] => .ewfail h
    | "fany", some h, [t, a] =>
      match t.toNat?, parseHex a with | some t, some b => .f h t b | _, _ => .bad
    | "fmsg", some h, [t] => match t.toNat? with | some t => .fmsg h t | none => .bad
    | "flist", some h, [t] => match t.toNat? with | some t => .flist h t | none => .bad
    | "has", some h, [t] => match t.toNat? with | some t => .has h t | none => .bad
    | "copy", some h, [a] => match parseHex a with | some b => .copy h b | none => .bad
    | "merge", some h, [a] => match parseHex a with | some b => .copy h b | none => .bad
    | "e", some h, [k, a] => match scalarEnc k a with | some e => .e h e | none => .bad
    | "eany", some h, [a] => match parseHex a with | some b => .e h b | none => .bad
    | "emsg", some h, [] => .emsg h
    | "elist", some h, [] => .elist h
    | "len", some h, [] => .len h
    | "end", some h, [] => .end_ h
    | "build", some h, [] => .build h
    | "err", none, [] => .err
    | "reset", none, [] => .reset
    | "free", none, [] => .free
    | _, _, _ => .bad

def tok : Out → String
  | .ok => "ok"
  | .built b => "ok:" ++ toString b.length
  | .err .closed => "ec"
  | .err (.at k) => "e" ++ toString k
  | .bool b => toString b
  | .nat n => toString n
  | .panic => "p"
  | .badop => "bad-op"

def step (line : String) : String :=
  match line.splitOn " " with
  | mode :: rest =>
    let prog := " ".intercalate rest
    let variant := (mode.splitOn ",").headD ""
    let pre : Bytes := match variant.splitOn ":" with
      | ["wp", h] => (parseHex h).getD []
      | _ => []
    let calls := (prog.splitOn ";").map parseCall
    let (s, outs) := run calls pre
    let toks := " ".intercalate (outs.map tok)
    -- programs marked with an expected walk are well nested: the pinned layout must give the same bytes
    let refNote := if (mode.splitOn ",x=").length > 1 then
        (match refRun calls, s.built with
         | some r, some b => if r == b then "" else " | REF-MISMATCH"
         | none, _ => if ((prog.splitOn "any").length > 1 || (prog.splitOn "copy").length > 1 || (prog.splitOn "merge").length > 1) then "" else " | REF-UNSUPPORTED"
         | some _, none => " | REF-MISMATCH")
      else ""
    match s.built with
    | none => toks ++ " | - | - | -" ++ refNote
    | some b =>
      toks ++ " | " ++ hexOf b ++ " | " ++
        showRes (fun (n : Nat) => toString n) (parseValue F (2 * b.length + 2) b) ++ " | " ++
        walk F (b.length + 1) b ++ refNote
  | _ => "bad-op"

def main : IO Unit := do
  let stdin ← IO.getStdin
  let stdout ← IO.getStdout
  loop stdin stdout step
