import SpecVerif.Wire.Walk
import SpecVerif.Wire.IEEE
namespace Drivers
open SpecVerif

def hexVal (c : Char) : Option Nat :=
  if '0' ≤ c ∧ c ≤ '9' then some (c.toNat - 48)
  else if 'a' ≤ c ∧ c ≤ 'f' then some (c.toNat - 87)
  else none

def parseHexAux : List Char → Bytes → Option Bytes
  | [], acc => some acc.reverse
  | [_], _ => none
  | a :: b :: rest, acc =>
    match hexVal a, hexVal b with
    | some x, some y => parseHexAux rest (UInt8.ofNat (x * 16 + y) :: acc)
    | _, _ => none

/-- "-" is the empty string -/
def parseHex (s : String) : Option Bytes :=
  if s = "-" then some [] else parseHexAux s.toList []

/-- the float operations the decoders run with: the bit-level IEEE model the laws are proved for
(Wire/IEEE.lean); every float decode of the streams compares it with Go's conversions -/
def modelFloat : FloatOps := SpecVerif.IEEE.ieee

/-- the platform's own conversions, used only to cross-check `modelFloat` (`fcheck` lines) -/
def nativeFloat : FloatOps where
  widen x := (Float32.ofBits x.toUInt32).toFloat.toBits.toNat
  narrow x := (Float.ofBits x.toUInt64).toFloat32.toBits.toNat
  isInf x := (Float.ofBits x.toUInt64).isInf
  ltNegMax x := Float.ofBits x.toUInt64 < -3.4028234663852886e38
  gtMax x := Float.ofBits x.toUInt64 > 3.4028234663852886e38

partial def loop (h : IO.FS.Stream) (out : IO.FS.Stream) (step : String → String) : IO Unit := do
  let line ← h.getLine
  if line.isEmpty then return ()
  out.putStrLn (step (line.trimAsciiEnd.toString))
  loop h out step

end Drivers
