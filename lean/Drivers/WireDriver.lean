import Drivers.Common
import SpecVerif.Wire.Encode
open SpecVerif Drivers

def F := nativeFloat

def showV {α} (f : α → String) : Res (α × Nat) → String :=
  showRes fun (a, n) => f a ++ " " ++ toString n

def showTable : Res (Table × Nat) → String :=
  showRes fun (t, n) => hexOf t.table ++ " " ++ toString t.data ++ " " ++ toString t.big ++ " " ++ toString n

def decodeOp (op : String) (b : Bytes) : String :=
  match op with
  | "bool" => showV (fun (x : Bool) => toString x) (decodeBool b)
  | "byte" => showV (fun (x : UInt8) => toString x.toNat) (decodeByte b)
  | "i16" => showV (fun (x : Int) => toString x) (decodeInt16 b)
  | "i32" => showV (fun (x : Int) => toString x) (decodeInt32 b)
  | "i64" => showV (fun (x : Int) => toString x) (decodeInt64 b)
  | "u16" => showV (fun (x : Nat) => toString x) (decodeUint16 b)
  | "u32" => showV (fun (x : Nat) => toString x) (decodeUint32 b)
  | "u64" => showV (fun (x : Nat) => toString x) (decodeUint64 b)
  | "f32" => showV showF32 (decodeFloat32 F b)
  | "f64" => showV showF64 (decodeFloat64 F b)
  | "bin64" => showV hexOf (decodeBin64 b)
  | "bin128" => showV hexOf (decodeBin128 b)
  | "bin256" => showV hexOf (decodeBin256 b)
  | "bytes" => showV hexOf (decodeBytes b)
  | "str" => showV hexOf (decodeString b)
  | "struct" => showV (fun (x : Nat) => toString x) (decodeStruct b)
  | "ltab" => showTable (decodeListTable b)
  | "mtab" => showTable (decodeMessageTable b)
  | "type" => let (t, n) := decodeType b; s!"ok {t.toNat} {n}"
  | "typesize" => showV (fun (x : UInt8) => toString x.toNat) (decodeTypeSize b)
  | "open" => showRes hexOf (openValue b)
  | "parse" => showRes (fun (n : Nat) => toString n) (parseValue F (b.length + 1) b)
  | "parselist" => showRes (fun (n : Nat) => toString n) (parseList F (b.length + 1) b)
  | "parsemsg" => showRes (fun (n : Nat) => toString n) (parseMessage F (b.length + 1) b)
  | "walk" => walk F (b.length + 1) b
  | _ => "bad-op"

def encodeOp (op : String) (arg : String) : String :=
  match op with
  | "e_bool" => hexOf (encBool (arg = "true"))
  | "e_byte" => match arg.toNat? with | some v => hexOf (encByte (UInt8.ofNat v)) | none => "bad-op"
  | "e_i16" => match arg.toInt? with | some v => hexOf (encInt16 v) | none => "bad-op"
  | "e_i32" => match arg.toInt? with | some v => hexOf (encInt32 v) | none => "bad-op"
  | "e_i64" => match arg.toInt? with | some v => hexOf (encInt64 v) | none => "bad-op"
  | "e_u16" => match arg.toNat? with | some v => hexOf (encUint16 v) | none => "bad-op"
  | "e_u32" => match arg.toNat? with | some v => hexOf (encUint32 v) | none => "bad-op"
  | "e_u64" => match arg.toNat? with | some v => hexOf (encUint64 v) | none => "bad-op"
  | "e_f32" => match arg.toNat? with | some v => hexOf (encFloat32 v) | none => "bad-op"
  | "e_f64" => match arg.toNat? with | some v => hexOf (encFloat64 v) | none => "bad-op"
  | "e_bin64" => match parseHex arg with | some v => hexOf (encBin64 v) | none => "bad-op"
  | "e_bin128" => match parseHex arg with | some v => hexOf (encBin128 v) | none => "bad-op"
  | "e_bin256" => match parseHex arg with | some v => hexOf (encBin256 v) | none => "bad-op"
  | "e_bytes" => match parseHex arg with | some v => hexOf (encBytes v) | none => "bad-op"
  | "e_str" => match parseHex arg with | some v => hexOf (encString v) | none => "bad-op"
  | _ => "bad-op"

def step (line : String) : String :=
  match line.splitOn " " with
  | [op, arg] =>
    if op.startsWith "e_" then encodeOp op arg else
    match parseHex arg with
    | some b => decodeOp op b
    | none => "bad-op"
  | _ => "bad-op"

def main : IO Unit := do
  let stdin ← IO.getStdin
  let stdout ← IO.getStdout
  loop stdin stdout step
