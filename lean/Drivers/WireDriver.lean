import Drivers.Common
import SpecVerif.Wire.Encode
open SpecVerif Drivers

def F := modelFloat

def showV {α} (f : α → String) : Res (α × Nat) → String :=
  showRes fun (a, n) => f a ++ " " ++ toString n

def showTable : Res (Table × Nat) → String :=
  showRes fun (t, n) => hexOf t.table ++ " " ++ toString t.data ++ " " ++ toString t.big ++ " " ++ toString n

def decodeOp (op : String) (b : Bytes) : String :=
  match op with
  | "bool" => showV (fun (x : Bool) => toString x) (decodeBool b)
  | "byte" => showV (fun (x : UInt8) => toString x.toNat) (decodeByte b)
  | "i16" => showV (fun (x : Int) => toString x) (decodeInt16 b)
  | "i32" => showV (fun (x : Int) => toString x) (decodeInt32 b)
  | "i64" => showV (fun (x : Int) => toString x) (decodeInt64 b)
  | "u16" => showV (fun (x : Nat) => toString x) (decodeUint16 b)
  | "u32" => showV (fun (x : Nat) => toString x) (decodeUint32 b)
  | "u64" => showV (fun (x : Nat) => toString x) (decodeUint64 b)
  | "f32" => showV showF32 (decodeFloat32 F b)
  | "f64" => showV showF64 (decodeFloat64 F b)
  | "bin64" => showV hexOf (decodeBin64 b)
  | "bin128" => showV hexOf (decodeBin128 b)
  | "bin256" => showV hexOf (decodeBin256 b)
  | "bytes" => showV hexOf (decodeBytes b)
  | "str" => showV hexOf (decodeString b)
  | "struct" => showV (fun (x : Nat) => toString x) (decodeStruct b)
  | "ltab" => showTable (decodeListTable b)
  | "mtab" => showTable (decodeMessageTable b)
  | "type" => let (t, n) := decodeType b; s!"ok {t.toNat} {n}"
  | "typesize" => showV (fun (x : UInt8) => toString x.toNat) (decodeTypeSize b)
  | "open" => showRes hexOf (openValue b)
  | "parse" => showRes (fun (n : Nat) => toString n) (parseValue F (2 * b.length + 2) b)
  | "parselist" => showRes (fun (n : Nat) => toString n) (parseList F (2 * b.length + 2) b)
  | "parsemsg" => showRes (fun (n : Nat) => toString n) (parseMessage F (2 * b.length + 2) b)
  | "walk" => walk F (b.length + 1) b
  | "typed" => "ok"     -- Go-side oracle only (typed list wrappers): no panic, sizes and views inside the input
  | _ => "bad-op"

def encodeOp (op : String) (arg : String) : String :=
  match op with
  | "e_bool" => hexOf (encBool (arg = "true"))
  | "e_byte" => match arg.toNat? with | some v => hexOf (encByte (UInt8.ofNat v)) | none => "bad-op"
  | "e_i16" => match arg.toInt? with | some v => hexOf (encInt16 v) | none => "bad-op"
  | "e_i32" => match arg.toInt? with | some v => hexOf (encInt32 v) | none => "bad-op"
  | "e_i64" => match arg.toInt? with | some v => hexOf (encInt64 v) | none => "bad-op"
  | "e_u16" => match arg.toNat? with | some v => hexOf (encUint16 v) | none => "bad-op"
  | "e_u32" => match arg.toNat? with | some v => hexOf (encUint32 v) | none => "bad-op"
  | "e_u64" => match arg.toNat? with | some v => hexOf (encUint64 v) | none => "bad-op"
  | "e_f32" => match arg.toNat? with | some v => hexOf (encFloat32 v) | none => "bad-op"
  | "e_f64" => match arg.toNat? with | some v => hexOf (encFloat64 v) | none => "bad-op"
  | "e_bin64" => match parseHex arg with | some v => hexOf (encBin64 v) | none => "bad-op"
  | "e_bin128" => match parseHex arg with | some v => hexOf (encBin128 v) | none => "bad-op"
  | "e_bin256" => match parseHex arg with | some v => hexOf (encBin256 v) | none => "bad-op"
  | "e_bytes" => match parseHex arg with | some v => hexOf (encBytes v) | none => "bad-op"
  | "e_str" => match parseHex arg with | some v => hexOf (encString v) | none => "bad-op"
  | _ => "bad-op"

/-- the model's evaluation of the C10 oracle ops -/
def okI (r : Res (Int × Nat)) (v : Int) (n : Nat) (fits : Bool) : Bool :=
  match r with
  | .ok (x, m) => fits && x == v && m == n
  | .err .overflow _ => !fits
  | _ => false

def okU (r : Res (Nat × Nat)) (v : Nat) (n : Nat) (fits : Bool) : Bool :=
  match r with
  | .ok (x, m) => fits && x == v && m == n
  | .err .overflow _ => !fits
  | _ => false

def rtPrefixes : List Bytes := [[], [1, 2, 0xfd], [0xff, 0xfe]]

def rtInt (enc : Bytes) (v : Int) : Bool :=
  rtPrefixes.all fun p =>
    okI (decodeInt16 (p ++ enc)) v enc.length (-32768 ≤ v && v ≤ 32767) &&
    okI (decodeInt32 (p ++ enc)) v enc.length (-2147483648 ≤ v && v ≤ 2147483647) &&
    okI (decodeInt64 (p ++ enc)) v enc.length true

def rtUint (enc : Bytes) (v : Nat) : Bool :=
  rtPrefixes.all fun p =>
    okU (decodeUint16 (p ++ enc)) v enc.length (v ≤ 65535) &&
    okU (decodeUint32 (p ++ enc)) v enc.length (v ≤ 4294967295) &&
    okU (decodeUint64 (p ++ enc)) v enc.length true

def isNaN32 (bits : Nat) : Bool := (bits / 2^23) % 256 == 255 && bits % 2^23 != 0
def isNaN64 (bits : Nat) : Bool := (bits / 2^52) % 2048 == 2047 && bits % 2^52 != 0

def rtOp (op arg : String) : String :=
  let b2s (b : Bool) := if b then "ok" else "VIOL model"
  match op with
  | "rt_i16" => match arg.toInt? with | some v => b2s (rtInt (encInt16 v) v) | none => "bad-op"
  | "rt_i32" => match arg.toInt? with | some v => b2s (rtInt (encInt32 v) v) | none => "bad-op"
  | "rt_i64" => match arg.toInt? with | some v => b2s (rtInt (encInt64 v) v) | none => "bad-op"
  | "rt_u16" => match arg.toNat? with | some v => b2s (rtUint (encUint16 v) v) | none => "bad-op"
  | "rt_u32" => match arg.toNat? with | some v => b2s (rtUint (encUint32 v) v) | none => "bad-op"
  | "rt_u64" => match arg.toNat? with | some v => b2s (rtUint (encUint64 v) v) | none => "bad-op"
  | "rt_f32" =>
    match arg.toNat? with
    | none => "bad-op"
    | some x =>
      let enc := encFloat32 x
      b2s <| rtPrefixes.all fun p =>
        (match decodeFloat32 F (p ++ enc) with
          | .ok (y, n) => n == 5 && (y == x || (isNaN32 x && isNaN32 y))
          | _ => false) &&
        (match decodeFloat64 F (p ++ enc) with
          | .ok (y, n) => n == 5 && (y == F.widen x || (isNaN32 x && isNaN64 y))
          | _ => false)
  | "rt_f64" =>
    match arg.toNat? with
    | none => "bad-op"
    | some y =>
      let enc := encFloat64 y
      let representable := isNaN64 y || F.isInf y || !(F.ltNegMax y || F.gtMax y)
      b2s <| rtPrefixes.all fun p =>
        (match decodeFloat64 F (p ++ enc) with
          | .ok (z, n) => n == 9 && z == y
          | _ => false) &&
        (match decodeFloat32 F (p ++ enc) with
          | .ok (z, n) => representable && n == 9 && (z == F.narrow y || (isNaN64 y && isNaN32 z))
          | .err .overflow _ => !representable
          | _ => false)
  | "rt_bytes" =>
    match parseHex arg with
    | none => "bad-op"
    | some v => b2s <| rtPrefixes.all fun p =>
        match decodeBytes (p ++ encBytes v) with
        | .ok (x, n) => x == v && n == (encBytes v).length
        | _ => false
  | "rt_str" =>
    match parseHex arg with
    | none => "bad-op"
    | some v => b2s <| rtPrefixes.all fun p =>
        match decodeString (p ++ encString v) with
        | .ok (x, n) => x == v && n == (encString v).length
        | _ => false
  | _ => "bad-op"

/-- C13 composite check on the model: parse / probe / open agree, decoding is local. -/
def c13Prefixes : List Bytes := [[0xfd], [0xfe, 0xfe], [0xff, 0xff, 0xff], [1, 2, 0xfd], [0x00], [7, 0xfe, 0xff, 0xfd, 3]]

def c13Op (b : Bytes) : String :=
  match parseValue F (2 * b.length + 2) b with
  | .panic => "VIOL parse-panic"
  | .err _ _ => "rejected"
  | .ok n =>
    let v := lastN n b
    let bad : List String :=
      (match decodeTypeSize b with
        | .ok (t, m) => if m == n && t == (decodeType b).1 then [] else ["probe-size"]
        | _ => ["probe-rejects"]) ++
      (match openValue b with
        | .ok o => if o == v then [] else ["open-differs"]
        | _ => ["open-fails"]) ++
      (match parseValue F (2 * v.length + 2) v with
        | .ok m => if m == n then [] else ["reparse-size"]
        | _ => ["reparse-fails"]) ++
      (let w := walk F (v.length + 1) v
       (if (w.splitOn "!").length > 1 || (w.splitOn "PANIC").length > 1 then ["reread-error"] else []) ++
       (c13Prefixes.flatMap fun p =>
          let pb := p ++ v
          (match parseValue F (2 * pb.length + 2) pb with
            | .ok m => if m == n then [] else ["prefix-parse-size"]
            | _ => ["prefix-parse-fails"]) ++
          (if walk F (pb.length + 1) pb == w then [] else ["prefix-walk-differs"])))
    if bad.isEmpty then "accepted " ++ toString n else "VIOL " ++ " ".intercalate bad.eraseDups

def step (line : String) : String :=
  match line.splitOn " " with
  | [op, arg] =>
    if op.startsWith "e_" then encodeOp op arg else
    if op.startsWith "rt_" then rtOp op arg else
    if op == "c13" then (match parseHex arg with | some b => c13Op b | none => "bad-op") else
    match parseHex arg with
    | some b => decodeOp op b
    | none => "bad-op"
  | _ => "bad-op"

def main : IO Unit := do
  let stdin ← IO.getStdin
  let stdout ← IO.getStdout
  loop stdin stdout step
