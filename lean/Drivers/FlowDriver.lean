import SpecVerif.Mpx.Flow
import SpecVerif.Mpx.Client
/-
Line protocol of the flow-control correspondence (C07): one script per line
  `<W> <op> <op> ...`   ops: `s<n>` Send of n bytes (ignored while a Send is pending), `c` the
                         receiver consumes one message, `x<n>` SendAndClose of n bytes.
After every op the network is run to quiescence (all data and window frames delivered, the sender
retried), then one token is printed: `<op>:<i|p>[:<consumed size|->]` with i = no Send pending,
p = a Send is blocked.  Last token: `adm=<sizes admitted, comma separated>`.
-/
open SpecVerif.Mpx.Flow

/-- run network and sender to quiescence (bounded by fuel; everything but `consume`) -/
def settle : Nat → State → State
  | 0, s => s
  | fuel+1, s =>
    match step s .deliverData with
    | some s' => settle fuel s'
    | none =>
      match step s .deliverWindow with
      | some s' => settle fuel s'
      | none =>
        match step s .load with
        | some s' => settle fuel s'
        | none =>
          match step s .decide with
          | some s' => settle fuel s'
          | none =>
            match step s .wake with
            | some s' => settle fuel s'
            | none => s

def pending (s : State) : String := match s.pc with | .idle => "i" | _ => "p"

def doOp (s : State) (op : String) : State × String :=
  let fuel := 10000
  if op.startsWith "s" then
    match (op.drop 1).toNat? with
    | some n =>
      let s1 := match s.pc with
        | .idle => if s.opened then (step s (.send n)).getD s else (step s (.sendOpen n)).getD s
        | _ => s
      let s2 := settle fuel s1
      (s2, op ++ ":" ++ pending s2)
    | none => (s, "bad-op")
  else if op == "c" then
    let sz := match s.rq with | n :: _ => toString n | [] => "-"
    let s1 := (step s .consume).getD s
    let s2 := settle fuel s1
    (s2, "c:" ++ pending s2 ++ ":" ++ sz)
  else if op.startsWith "x" then
    match (op.drop 1).toNat? with
    | some n =>
      let s1 := match s.pc with | .idle => (step s (.sendClose n)).getD s | _ => s
      let s2 := settle fuel s1
      (s2, op ++ ":" ++ pending s2)
    | none => (s, "bad-op")
  else (s, "bad-op")

def runScript (line : String) : String :=
  match line.splitOn " " with
  | w :: ops =>
    match w.toNat? with
    | some W =>
      let (s, toks) := ops.foldl (fun (acc : State × List String) op =>
        let (s', t) := doOp acc.1 op; (s', acc.2 ++ [t])) (init W, [])
      " ".intercalate toks ++ " adm=" ++ ",".intercalate (s.admitted.map toString)
    | none => "bad-op"
  | _ => "bad-op"

/-- the receiver consumes everything it has (and the network settles after each message) -/
def drain : Nat → State → State
  | 0, s => s
  | fuel+1, s =>
    match s.rq with
    | [] => s
    | _ => drain fuel (settle 10000 ((step s .consume).getD s))

/-- one sender streaming `m` messages of `n` bytes to a greedy receiver: after every Send the
receiver drains its queue, until the Send is admitted (bounded by fuel; a model that could not
admit it would deliver fewer bytes). Returns the final state. -/
def streamOne (n : Nat) : Nat → State → State
  | 0, s => s
  | m+1, s =>
    let s1 := (doOp s ("s" ++ toString n)).1
    let s2 := drain 64 s1
    let s3 := match s2.pc with | .idle => s2 | _ => drain 64 (settle 10000 s2)
    match s3.pc with
    | .idle => streamOne n m s3
    | _ => s3

/-- `stream <W> <size> <channels> <messages>` → the same line with `delivered=<bytes>`: every channel
is an independent copy of the one-channel model -/
def runStream (line : String) (W n c m : Nat) : String :=
  let s := drain 64 (streamOne n m (init W))
  let bytes := (s.admitted.foldl (· + ·) 0) * c
  line ++ " delivered=" ++ toString bytes

/-- `backoff <attempt>` → `backoff <attempt> <nanoseconds>` (C19) -/
def answer (line : String) : String :=
  match line.splitOn " " with
  | ["backoff", a] =>
    (match a.toNat? with
     | some n => "backoff " ++ a ++ " " ++ toString (SpecVerif.Mpx.Client.reconnectTimeout n)
     | none => "bad-op")
  | ["stream", w, n, c, m] =>
    (match w.toNat?, n.toNat?, c.toNat?, m.toNat? with
     | some W, some n', some c', some m' => runStream line W n' c' m'
     | _, _, _, _ => "bad-op")
  | ["mstream", w, n, k, m] =>
    -- one channel, k concurrent senders: the channel serialises them, so the model is one sender
    -- of k·m messages
    (match w.toNat?, n.toNat?, k.toNat?, m.toNat? with
     | some W, some n', some k', some m' => runStream line W n' 1 (k' * m')
     | _, _, _, _ => "bad-op")
  | _ => runScript line

partial def loop (h : IO.FS.Stream) (out : IO.FS.Stream) : IO Unit := do
  let line ← h.getLine
  if line.isEmpty then return ()
  out.putStrLn (answer line.trimAsciiEnd.toString)
  loop h out

def main : IO Unit := do
  loop (← IO.getStdin) (← IO.getStdout)
