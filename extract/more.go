package main

import (
	"path/filepath"
)

// extractMore: facts beyond the wire constants (grows with the models).
func extractMore(repo string, o *leanOut) {
	mc := consts(parseDir(filepath.Join(repo, "mpx")))
	o.str("protocolLine", mc.str("ProtocolLine"))
	o.nat("maxReadChunk", mc.int("maxReadChunk"))
	extractEvents(repo, o)
	extractGrammar(repo, o)
	extractPools(repo, o)
}
