package main

import (
	"go/ast"
	"go/token"
	"path/filepath"
	"sort"
)

// extractPools: for every pooled state type, the fields its reset() method does NOT assign
// (`*s = T{}` assigns all). A recycled object can only carry what is in this list.
func extractPools(repo string, o *leanOut) {
	specs := []struct{ lean, dir, typ string }{
		{"unreset_writerState", "internal/writer", "writerState"},
		{"unreset_mpx_channelState", "mpx", "channelState"},
		{"unreset_rpc_channelState", "rpc", "channelState"},
		{"unreset_rpc_requestState", "rpc", "requestState"},
		{"unreset_rpc_serverChannelState", "rpc", "serverChannelState"},
	}
	for _, sp := range specs {
		files := parseDir(filepath.Join(repo, sp.dir))
		var fields []string
		assigned := map[string]bool{}
		all := false
		for _, f := range files {
			for _, d := range f.Decls {
				switch x := d.(type) {
				case *ast.GenDecl:
					if x.Tok != token.TYPE {
						continue
					}
					for _, s := range x.Specs {
						ts := s.(*ast.TypeSpec)
						st, ok := ts.Type.(*ast.StructType)
						if !ok || ts.Name.Name != sp.typ {
							continue
						}
						for _, fl := range st.Fields.List {
							for _, n := range fl.Names {
								fields = append(fields, n.Name)
							}
						}
					}
				case *ast.FuncDecl:
					if x.Body == nil {
						continue
					}
					recv := ""
					switch {
					case x.Name.Name == "reset" && x.Recv != nil && len(x.Recv.List) == 1 &&
						exprText(x.Recv.List[0].Type) == "*"+sp.typ:
						if len(x.Recv.List[0].Names) == 1 {
							recv = x.Recv.List[0].Names[0].Name
						}
					case x.Recv == nil && len(x.Name.Name) > 7 && x.Name.Name[:7] == "release" &&
						len(x.Type.Params.List) == 1 && exprText(x.Type.Params.List[0].Type) == "*"+sp.typ:
						// the release function of the pool: what it clears besides calling reset()
						if len(x.Type.Params.List[0].Names) == 1 {
							recv = x.Type.Params.List[0].Names[0].Name
						}
					default:
						continue
					}
					if recv == "" {
						continue
					}
					ast.Inspect(x.Body, func(n ast.Node) bool {
						as, ok := n.(*ast.AssignStmt)
						if !ok {
							return true
						}
						for _, l := range as.Lhs {
							switch t := l.(type) {
							case *ast.SelectorExpr:
								if id, ok := t.X.(*ast.Ident); ok && id.Name == recv {
									assigned[t.Sel.Name] = true
								}
							case *ast.StarExpr:
								if id, ok := t.X.(*ast.Ident); ok && id.Name == recv {
									all = true
								}
							}
						}
						return true
					})
					// method calls on a field that reset it in place: s.f.reset() / s.f.Reset(...)
					ast.Inspect(x.Body, func(n ast.Node) bool {
						c, ok := n.(*ast.CallExpr)
						if !ok {
							return true
						}
						if sel, ok := c.Fun.(*ast.SelectorExpr); ok && (sel.Sel.Name == "reset" || sel.Sel.Name == "Reset") {
							if inner, ok := sel.X.(*ast.SelectorExpr); ok {
								if id, ok := inner.X.(*ast.Ident); ok && id.Name == recv {
									assigned[inner.Sel.Name] = true
								}
							}
						}
						return true
					})
				}
			}
		}
		if len(fields) == 0 {
			fatal("pooled type %s.%s not found", sp.dir, sp.typ)
		}
		var un []string
		for _, f := range fields {
			if !all && !assigned[f] {
				un = append(un, f)
			}
		}
		sort.Strings(un)
		o.strList(sp.lean, un)
	}
}
