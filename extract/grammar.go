package main

import (
	"bytes"
	"os"
	"os/exec"
	"path/filepath"
	"regexp"
	"sort"
	"strings"
)

// extractGrammar: facts about the parser generator input.
//
//	grammarRules          the productions of grammar.y, actions and comments removed
//	grammarRegenerated    "yes" iff goyacc (vendored under /verif/extract/goyacc) run on grammar.y
//	                      reproduces the repository's grammar.go byte for byte
//	grammarConflicts      the conflict summary line of the generator
//	lexKeywords           keywords.go: text=TOKEN pairs
func extractGrammar(repo string, o *leanOut) {
	dir := filepath.Join(repo, "internal/lang/parser")
	src, err := os.ReadFile(filepath.Join(dir, "grammar.y"))
	if err != nil {
		fatal("grammar.y: %v", err)
	}
	o.strList("grammarRules", grammarRules(string(src)))

	// regenerate the tables
	regen, conflicts := "no", "goyacc not run"
	self, _ := os.Executable()
	gy := filepath.Join(filepath.Dir(self), "goyacc")
	tmp, err := os.MkdirTemp(filepath.Dir(self), "gy")
	if err == nil {
		defer os.RemoveAll(tmp)
		os.WriteFile(filepath.Join(tmp, "grammar.y"), src, 0o644)
		cmd := exec.Command(gy, "-l", "-v", "grammar.out", "-o", "grammar.go", "grammar.y")
		cmd.Dir = tmp
		out, err := cmd.CombinedOutput()
		if err != nil {
			conflicts = "goyacc failed: " + strings.TrimSpace(string(out))
		} else {
			gen, _ := os.ReadFile(filepath.Join(tmp, "grammar.go"))
			have, _ := os.ReadFile(filepath.Join(dir, "grammar.go"))
			if len(gen) > 0 && bytes.Equal(gen, have) {
				regen = "yes"
			}
			conflicts = "no conflict line"
			if y, err := os.ReadFile(filepath.Join(tmp, "grammar.out")); err == nil {
				for _, l := range strings.Split(string(y), "\n") {
					if strings.Contains(l, "conflicts reported") {
						conflicts = strings.TrimSpace(l)
					}
				}
			}
			if s := strings.TrimSpace(string(out)); s != "" {
				conflicts += " | " + s
			}
		}
	}
	o.str("grammarRegenerated", regen)
	o.str("grammarConflicts", conflicts)

	// keywords
	kw, err := os.ReadFile(filepath.Join(dir, "keywords.go"))
	if err != nil {
		fatal("keywords.go: %v", err)
	}
	var ks []string
	for _, m := range regexp.MustCompile(`"(\w+)":\s*(\w+),`).FindAllStringSubmatch(string(kw), -1) {
		ks = append(ks, m[1]+"="+m[2])
	}
	sort.Strings(ks)
	o.strList("lexKeywords", ks)
}

// grammarRules strips comments and actions from the rules section and returns "lhs -> rhs" lines.
func grammarRules(src string) []string {
	i := strings.Index(src, "\n%%")
	if i < 0 {
		fatal("grammar.y: no rules section")
	}
	body := src[i+3:]
	if j := strings.Index(body, "\n%%"); j >= 0 {
		body = body[:j]
	}
	var sb strings.Builder
	n := len(body)
	for k := 0; k < n; {
		c := body[k]
		switch {
		case c == '/' && k+1 < n && body[k+1] == '/':
			for k < n && body[k] != '\n' {
				k++
			}
		case c == '/' && k+1 < n && body[k+1] == '*':
			k += 2
			for k+1 < n && !(body[k] == '*' && body[k+1] == '/') {
				k++
			}
			k += 2
		case c == '\'':
			// character literal token
			e := k + 1
			for e < n && body[e] != '\'' {
				if body[e] == '\\' {
					e++
				}
				e++
			}
			sb.WriteString(body[k : e+1])
			k = e + 1
		case c == '{':
			// action: skip to the matching brace, minding Go literals and comments
			depth := 0
			actionStart := k
			for k < n {
				d := body[k]
				switch {
				case d == '{':
					depth++
					k++
				case d == '}':
					depth--
					k++
				case d == '"' || d == '\'' || d == '`':
					e := k + 1
					for e < n && body[e] != d {
						if body[e] == '\\' && d != '`' {
							e++
						}
						e++
					}
					k = e + 1
				case d == '/' && k+1 < n && body[k+1] == '/':
					for k < n && body[k] != '\n' {
						k++
					}
				default:
					k++
				}
				if depth == 0 {
					break
				}
			}
			if strings.Contains(body[actionStart:k], "return yyLexError") {
				sb.WriteString(" !error ") // the action rejects the input
			}
			sb.WriteString(" ")
		default:
			sb.WriteByte(c)
			k++
		}
	}
	var rules []string
	lastLHS := ""
	for _, r := range splitRules(sb.String()) {
		r = strings.TrimSpace(r)
		if r == "" {
			continue
		}
		// yacc: a rule that starts with '|' continues the previous left-hand side
		if strings.HasPrefix(r, "|") && lastLHS != "" {
			r = lastLHS + ":" + r[1:]
		}
		p := strings.SplitN(r, ":", 2)
		if len(p) != 2 {
			rules = append(rules, "?? "+strings.Join(strings.Fields(r), " "))
			continue
		}
		lhs := strings.TrimSpace(p[0])
		lastLHS = lhs
		for _, alt := range splitAlts(p[1]) {
			rules = append(rules, strings.TrimSpace(lhs+" -> "+strings.Join(strings.Fields(alt), " ")))
		}
	}
	return rules
}

// splitRules splits on ';' outside character literals.
func splitRules(s string) []string { return splitOutsideQuotes(s, ';') }
func splitAlts(s string) []string  { return splitOutsideQuotes(s, '|') }

func splitOutsideQuotes(s string, sep byte) []string {
	var out []string
	start := 0
	for k := 0; k < len(s); k++ {
		if s[k] == '\'' {
			e := k + 1
			for e < len(s) && s[e] != '\'' {
				e++
			}
			k = e
			continue
		}
		if s[k] == sep {
			out = append(out, s[start:k])
			start = k + 1
		}
	}
	return append(out, s[start:])
}
