/*
Derived from Inferno's utils/iyacc/yacc.c
http://code.google.com/p/inferno-os/source/browse/utils/iyacc/yacc.c

This copyright NOTICE applies to all files in this directory and
subdirectories, unless another copyright notice appears in a given
file or subdirectory.  If you take substantial code from this software to use in
other programs, you must somehow include with it an appropriate
copyright notice that includes the copyright notice and the other
notices below.  It is fine (and often tidier) to do that in a separate
file such as NOTICE, LICENCE or COPYING.

	Copyright © 1994-1999 Lucent Technologies Inc.  All rights reserved.
	Portions Copyright © 1995-1997 C H Forsyth (forsyth@terzarima.net)
	Portions Copyright © 1997-1999 Vita Nuova Limited
	Portions Copyright © 2000-2007 Vita Nuova Holdings Limited (www.vitanuova.com)
	Portions Copyright © 2004,2006 Bruce Ellis
	Portions Copyright © 2005-2007 C H Forsyth (forsyth@terzarima.net)
	Revisions Copyright © 2000-2007 Lucent Technologies Inc. and others
	Portions Copyright © 2009 The Go Authors. All rights reserved.

Permission is hereby granted, free of charge, to any person obtaining a copy
of this software and associated documentation files (the "Software"), to deal
in the Software without restriction, including without limitation the rights
to use, copy, modify, merge, publish, distribute, sublicense, and/or sell
copies of the Software, and to permit persons to whom the Software is
furnished to do so, subject to the following conditions:

The above copyright notice and this permission notice shall be included in
all copies or substantial portions of the Software.

THE SOFTWARE IS PROVIDED "AS IS", WITHOUT WARRANTY OF ANY KIND, EXPRESS OR
IMPLIED, INCLUDING BUT NOT LIMITED TO THE WARRANTIES OF MERCHANTABILITY,
FITNESS FOR A PARTICULAR PURPOSE AND NONINFRINGEMENT.  IN NO EVENT SHALL THE
AUTHORS OR COPYRIGHT HOLDERS BE LIABLE FOR ANY CLAIM, DAMAGES OR OTHER
LIABILITY, WHETHER IN AN ACTION OF CONTRACT, TORT OR OTHERWISE, ARISING FROM,
OUT OF OR IN CONNECTION WITH THE SOFTWARE OR THE USE OR OTHER DEALINGS IN
THE SOFTWARE.
*/

package main

// yacc
// major difference is lack of stem ("y" variable)
//

import (
	"bufio"
	"bytes"
	"flag"
	"fmt"
	"go/format"
	"math"
	"os"
	"strconv"
	"strings"
	"unicode"
)

// the following are adjustable
// according to memory size
const (
	ACTSIZE  = 240000
	NSTATES  = 16000
	TEMPSIZE = 16000

	SYMINC   = 50  // increase for non-term or term
	RULEINC  = 50  // increase for max rule length prodptr[i]
	PRODINC  = 100 // increase for productions     prodptr
	WSETINC  = 50  // increase for working sets    wsets
	STATEINC = 200 // increase for states          statemem

	PRIVATE = 0xE000 // unicode private use

	// relationships which must hold:
	//	TEMPSIZE >= NTERMS + NNONTERM + 1;
	//	TEMPSIZE >= NSTATES;
	//

	NTBASE     = 010000
	ERRCODE    = 8190
	ACCEPTCODE = 8191
	YYLEXUNK   = 3
	TOKSTART   = 4 //index of first defined token
)

// no, left, right, binary assoc.
const (
	NOASC = iota
	LASC
	RASC
	BASC
)

// flags for state generation
const (
	DONE = iota
	MUSTDO
	MUSTLOOKAHEAD
)

// flags for a rule having an action, and being reduced
const (
	ACTFLAG = 1 << (iota + 2)
	REDFLAG
)

// output parser flags
const yyFlag = -1000

// parse tokens
const (
	IDENTIFIER = PRIVATE + iota
	MARK
	TERM
	LEFT
	RIGHT
	BINARY
	PREC
	LCURLY
	IDENTCOLON
	NUMBER
	START
	TYPEDEF
	TYPENAME
	UNION
	ERROR
)

const ENDFILE = 0
const EMPTY = 1
const WHOKNOWS = 0
const OK = 1
const NOMORE = -1000

// macros for getting associativity and precedence levels
func ASSOC(i int) int { return i & 3 }

func PLEVEL(i int) int { return (i >> 4) & 077 }

func TYPE(i int) int { return (i >> 10) & 077 }

// macros for setting associativity and precedence levels
func SETASC(i, j int) int { return i | j }

func SETPLEV(i, j int) int { return i | (j << 4) }

func SETTYPE(i, j int) int { return i | (j << 10) }

// I/O descriptors
var finput *bufio.Reader // input file
var stderr *bufio.Writer
var ftable *bufio.Writer    // y.go file
var fcode = &bytes.Buffer{} // saved code
var foutput *bufio.Writer   // y.output file

var fmtImported bool // output file has recorded an import of "fmt"

var oflag string  // -o [y.go]		- y.go file
var vflag string  // -v [y.output]	- y.output file
var lflag bool    // -l			- disable line directives
var prefix string // name prefix for identifiers, default yy

func init() {
	flag.StringVar(&oflag, "o", "y.go", "parser output")
	flag.StringVar(&prefix, "p", "yy", "name prefix to use in generated code")
	flag.StringVar(&vflag, "v", "y.output", "create parsing tables")
	flag.BoolVar(&lflag, "l", false, "disable line directives")
}

var initialstacksize = 16

// communication variables between various I/O routines
var infile string  // input file name
var numbval int    // value of an input number
var tokname string // input token name, slop for runes and 0
var tokflag = false

// structure declarations
type Lkset []int

type Pitem struct {
	prod   []int
	off    int // offset within the production
	first  int // first term or non-term in item
	prodno int // production number for sorting
}

type Item struct {
	pitem Pitem
	look  Lkset
}

type Symb struct {
	name    string
	noconst bool
	value   int
}

type Wset struct {
	pitem Pitem
	flag  int
	ws    Lkset
}

// storage of types
var ntypes int                     // number of types defined
var typeset = make(map[int]string) // pointers to type tags

// token information

var ntokens = 0 // number of tokens
var tokset []Symb
var toklev []int // vector with the precedence of the terminals

// nonterminal information

var nnonter = -1 // the number of nonterminals
var nontrst []Symb
var start int // start symbol

// state information

var nstate = 0                      // number of states
var pstate = make([]int, NSTATES+2) // index into statemem to the descriptions of the states
var statemem []Item
var tystate = make([]int, NSTATES) // contains type information about the states
var tstates []int                  // states generated by terminal gotos
var ntstates []int                 // states generated by nonterminal gotos
var mstates = make([]int, NSTATES) // chain of overflows of term/nonterm generation lists
var lastred int                    // number of last reduction of a state
var defact = make([]int, NSTATES)  // default actions of states

// lookahead set information

var nolook = 0  // flag to turn off lookahead computations
var tbitset = 0 // size of lookahead sets
var clset Lkset // temporary storage for lookahead computations

// working set information

var wsets []Wset
var cwp int

// storage for action table

var amem []int                   // action table storage
var memp int                     // next free action table position
var indgo = make([]int, NSTATES) // index to the stored goto table

// temporary vector, indexable by states, terms, or ntokens

var temp1 = make([]int, TEMPSIZE) // temporary storage, indexed by terms + ntokens or states
var lineno = 1                    // current input line number
var fatfl = 1                     // if on, error is fatal
var nerrors = 0                   // number of errors

// assigned token type values

var extval = 0

// grammar rule information

var nprod = 1      // number of productions
var prdptr [][]int // pointers to descriptions of productions
var levprd []int   // precedence levels for the productions
var rlines []int   // line number for this rule

// statistics collection variables

var zzgoent = 0
var zzgobest = 0
var zzacent = 0
var zzexcp = 0
var zzclose = 0
var zzrrconf = 0
var zzsrconf = 0
var zzstate = 0

// optimizer arrays

var yypgo [][]int
var optst [][]int
var ggreed []int
var pgo []int

var maxspr int // maximum spread of any entry
var maxoff int // maximum offset into a array
var maxa int

// storage for information about the nonterminals

var pres [][][]int // vector of pointers to productions yielding each nonterminal
var pfirst []Lkset
var pempty []int // vector of nonterminals nontrivially deriving e

// random stuff picked out from between functions

var indebug = 0 // debugging flag for cpfir
var pidebug = 0 // debugging flag for putitem
var gsdebug = 0 // debugging flag for stagen
var cldebug = 0 // debugging flag for closure
var pkdebug = 0 // debugging flag for apack
var g2debug = 0 // debugging for go2gen
var adb = 0     // debugging for callopt

type Resrv struct {
	name  string
	value int
}

var resrv = []Resrv{
	{"binary", BINARY},
	{"left", LEFT},
	{"nonassoc", BINARY},
	{"prec", PREC},
	{"right", RIGHT},
	{"start", START},
	{"term", TERM},
	{"token", TERM},
	{"type", TYPEDEF},
	{"union", UNION},
	{"struct", UNION},
	{"error", ERROR},
}

type Error struct {
	lineno int
	tokens []string
	msg    string
}

var errors []Error

type Row struct {
	actions       []int
	defaultAction int
}

var stateTable []Row

var zznewstate = 0

const EOF = -1

func main() {

	setup() // initialize and read productions

	tbitset = (ntokens + 32) / 32
	cpres()  // make table of which productions yield a given nonterminal
	cempty() // make a table of which nonterminals can match the empty string
	cpfir()  // make a table of firsts of nonterminals

	stagen() // generate the states

	yypgo = make([][]int, nnonter+1)
	optst = make([][]int, nstate)
	output() // write the states and the tables
	go2out()

	hideprod()
	summary()

	callopt()

	others()

	exit(0)
}

func setup() {
	var j, ty int

	stderr = bufio.NewWriter(os.Stderr)
	foutput = nil

	flag.Parse()
	if flag.NArg() != 1 {
		usage()
	}
	if initialstacksize < 1 {
		// never set so cannot happen
		fmt.Fprintf(stderr, "yacc: stack size too small\n")
		usage()
	}
	yaccpar = strings.Replace(yaccpartext, "$$", prefix, -1)
	openup()

	fmt.Fprintf(ftable, "// Code generated by goyacc %s. DO NOT EDIT.\n", strings.Join(os.Args[1:], " "))

	defin(0, "$end")
	extval = PRIVATE // tokens start in unicode 'private use'
	defin(0, "error")
	defin(1, "$accept")
	defin(0, "$unk")
	i := 0

	t := gettok()

outer:
	for {
		switch t {
		default:
			errorf("syntax error tok=%v", t-PRIVATE)

		case MARK, ENDFILE:
			break outer

		case ';':
			// Do nothing.

		case START:
			t = gettok()
			if t != IDENTIFIER {
				errorf("bad %%start construction")
			}
			start = chfind(1, tokname)

		case ERROR:
			lno := lineno
			var tokens []string
			for {
				t := gettok()
				if t == ':' {
					break
				}
				if t != IDENTIFIER && t != IDENTCOLON {
					errorf("bad syntax in %%error")
				}
				tokens = append(tokens, tokname)
				if t == IDENTCOLON {
					break
				}
			}
			if gettok() != IDENTIFIER {
				errorf("bad syntax in %%error")
			}
			errors = append(errors, Error{lno, tokens, tokname})

		case TYPEDEF:
			t = gettok()
			if t != TYPENAME {
				errorf("bad syntax in %%type")
			}
			ty = numbval
			for {
				t = gettok()
				switch t {
				case IDENTIFIER:
					t = chfind(1, tokname)
					if t < NTBASE {
						j = TYPE(toklev[t])
						if j != 0 && j != ty {
							errorf("type redeclaration of token %s",
								tokset[t].name)
						} else {
							toklev[t] = SETTYPE(toklev[t], ty)
						}
					} else {
						j = nontrst[t-NTBASE].value
						if j != 0 && j != ty {
							errorf("type redeclaration of nonterminal %v",
								nontrst[t-NTBASE].name)
						} else {
							nontrst[t-NTBASE].value = ty
						}
					}
					continue

				case ',':
					continue
				}
				break
			}
			continue

		case UNION:
			cpyunion()

		case LEFT, BINARY, RIGHT, TERM:
			// nonzero means new prec. and assoc.
			lev := t - TERM
			if lev != 0 {
				i++
			}
			ty = 0

			// get identifiers so defined
			t = gettok()

			// there is a type defined
			if t == TYPENAME {
				ty = numbval
				t = gettok()
			}
			for {
				switch t {
				case ',':
					t = gettok()
					continue

				case ';':
					// Do nothing.

				case IDENTIFIER:
					j = chfind(0, tokname)
					if j >= NTBASE {
						errorf("%v defined earlier as nonterminal", tokname)
					}
					if lev != 0 {
						if ASSOC(toklev[j]) != 0 {
							errorf("redeclaration of precedence of %v", tokname)
						}
						toklev[j] = SETASC(toklev[j], lev)
						toklev[j] = SETPLEV(toklev[j], i)
					}
					if ty != 0 {
						if TYPE(toklev[j]) != 0 {
							errorf("redeclaration of type of %v", tokname)
						}
						toklev[j] = SETTYPE(toklev[j], ty)
					}
					t = gettok()
					if t == NUMBER {
						tokset[j].value = numbval
						t = gettok()
					}

					continue
				}
				break
			}
			continue

		case LCURLY:
			cpycode()
		}
		t = gettok()
	}

	if t == ENDFILE {
		errorf("unexpected EOF before %%")
	}

	fmt.Fprintf(fcode, "switch %snt {\n", prefix)

	moreprod()
	prdptr[0] = []int{NTBASE, start, 1, 0}

	nprod = 1
	curprod := make([]int, RULEINC)
	t = gettok()
	if t != IDENTCOLON {
		errorf("bad syntax on first rule")
	}

	if start == 0 {
		prdptr[0][1] = chfind(1, tokname)
	}

	// read rules
	// put into prdptr array in the format
	// target
	// followed by id's of terminals and non-terminals
	// followed by -nprod

	for t != MARK && t != ENDFILE {
		mem := 0

		// process a rule
		rlines[nprod] = lineno
		ruleline := lineno
		if t == '|' {
			curprod[mem] = prdptr[nprod-1][0]
			mem++
		} else if t == IDENTCOLON {
			curprod[mem] = chfind(1, tokname)
			if curprod[mem] < NTBASE {
				lerrorf(ruleline, "token illegal on LHS of grammar rule")
			}
			mem++
		} else {
			lerrorf(ruleline, "illegal rule: missing semicolon or | ?")
		}

		// read rule body
		t = gettok()
		for {
			for t == IDENTIFIER {
				curprod[mem] = chfind(1, tokname)
				if curprod[mem] < NTBASE {
					levprd[nprod] = toklev[curprod[mem]]
				}
				mem++
				if mem >= len(curprod) {
					ncurprod := make([]int, mem+RULEINC)
					copy(ncurprod, curprod)
					curprod = ncurprod
				}
				t = gettok()
			}
			if t == PREC {
				if gettok() != IDENTIFIER {
					lerrorf(ruleline, "illegal %%prec syntax")
				}
				j = chfind(2, tokname)
				if j >= NTBASE {
					lerrorf(ruleline, "nonterminal %s illegal after %%prec", nontrst[j-NTBASE].name)
				}
				levprd[nprod] = toklev[j]
				t = gettok()
			}
			if t != '=' {
				break
			}
			levprd[nprod] |= ACTFLAG
			fmt.Fprintf(fcode, "\n\tcase %v:", nprod)
			fmt.Fprintf(fcode, "\n\t\t%sDollar = %sS[%spt-%v:%spt+1]", prefix, prefix, prefix, mem-1, prefix)
			cpyact(curprod, mem)

			// action within rule...
			t = gettok()
			if t == IDENTIFIER {
				// make it a nonterminal
				j = chfind(1, fmt.Sprintf("$$%v", nprod))

				//
				// the current rule will become rule number nprod+1
				// enter null production for action
				//
				prdptr[nprod] = make([]int, 2)
				prdptr[nprod][0] = j
				prdptr[nprod][1] = -nprod

				// update the production information
				nprod++
				moreprod()
				levprd[nprod] = levprd[nprod-1] & ^ACTFLAG
				levprd[nprod-1] = ACTFLAG
				rlines[nprod] = lineno

				// make the action appear in the original rule
				curprod[mem] = j
				mem++
				if mem >= len(curprod) {
					ncurprod := make([]int, mem+RULEINC)
					copy(ncurprod, curprod)
					curprod = ncurprod
				}
			}
		}

		for t == ';' {
			t = gettok()
		}
		curprod[mem] = -nprod
		mem++

		// check that default action is reasonable
		if ntypes != 0 && (levprd[nprod]&ACTFLAG) == 0 &&
			nontrst[curprod[0]-NTBASE].value != 0 {
			// no explicit action, LHS has value
			tempty := curprod[1]
			if tempty < 0 {
				lerrorf(ruleline, "must return a value, since LHS has a type")
			}
			if tempty >= NTBASE {
				tempty = nontrst[tempty-NTBASE].value
			} else {
				tempty = TYPE(toklev[tempty])
			}
			if tempty != nontrst[curprod[0]-NTBASE].value {
				lerrorf(ruleline, "default action causes potential type clash")
			}
		}
		moreprod()
		prdptr[nprod] = make([]int, mem)
		copy(prdptr[nprod], curprod)
		nprod++
		moreprod()
		levprd[nprod] = 0
	}

	if TEMPSIZE < ntokens+nnonter+1 {
		errorf("too many tokens (%d) or non-terminals (%d)", ntokens, nnonter)
	}

	//
	// end of all rules
	// dump out the prefix code
	//

	fmt.Fprintf(fcode, "\n\t}")

	// put out non-literal terminals
	for i := TOKSTART; i <= ntokens; i++ {
		// non-literals
		if !tokset[i].noconst {
			fmt.Fprintf(ftable, "const %v = %v\n", tokset[i].name, tokset[i].value)
		}
	}

	// put out names of tokens
	ftable.WriteRune('\n')
	fmt.Fprintf(ftable, "var %sToknames = [...]string{\n", prefix)
	for i := 1; i <= ntokens; i++ {
		fmt.Fprintf(ftable, "\t%q,\n", tokset[i].name)
	}
	fmt.Fprintf(ftable, "}\n")

	// put out names of states.
	// commented out to avoid a huge table just for debugging.
	// re-enable to have the names in the binary.
	ftable.WriteRune('\n')
	fmt.Fprintf(ftable, "var %sStatenames = [...]string{\n", prefix)
	//	for i:=TOKSTART; i<=ntokens; i++ {
	//		fmt.Fprintf(ftable, "\t%q,\n", tokset[i].name);
	//	}
	fmt.Fprintf(ftable, "}\n")

	ftable.WriteRune('\n')
	fmt.Fprintf(ftable, "const %sEofCode = 1\n", prefix)
	fmt.Fprintf(ftable, "const %sErrCode = 2\n", prefix)
	fmt.Fprintf(ftable, "const %sInitialStackSize = %v\n", prefix, initialstacksize)

	//
	// copy any postfix code
	//
	if t == MARK {
		if !lflag {
			fmt.Fprintf(ftable, "\n//line %v:%v\n", infile, lineno)
		}
		for {
			c := getrune(finput)
			if c == EOF {
				break
			}
			ftable.WriteRune(c)
		}
	}
}

// allocate enough room to hold another production
func moreprod() {
	n := len(prdptr)
	if nprod >= n {
		nn := n + PRODINC
		aprod := make([][]int, nn)
		alevprd := make([]int, nn)
		arlines := make([]int, nn)

		copy(aprod, prdptr)
		copy(alevprd, levprd)
		copy(arlines, rlines)

		prdptr = aprod
		levprd = alevprd
		rlines = arlines
	}
}

// define s to be a terminal if nt==0
// or a nonterminal if nt==1
func defin(nt int, s string) int {
	val := 0
	if nt != 0 {
		nnonter++
		if nnonter >= len(nontrst) {
			anontrst := make([]Symb, nnonter+SYMINC)
			copy(anontrst, nontrst)
			nontrst = anontrst
		}
		nontrst[nnonter] = Symb{name: s}
		return NTBASE + nnonter
	}

	// must be a token
	ntokens++
	if ntokens >= len(tokset) {
		nn := ntokens + SYMINC
		atokset := make([]Symb, nn)
		atoklev := make([]int, nn)

		copy(atoklev, toklev)
		copy(atokset, tokset)

		tokset = atokset
		toklev = atoklev
	}
	tokset[ntokens].name = s
	toklev[ntokens] = 0

	// establish value for token
	// single character literal
	if s[0] == '\'' || s[0] == '"' {
		q, err := strconv.Unquote(s)
		if err != nil {
			errorf("invalid token: %s", err)
		}
		rq := []rune(q)
		if len(rq) != 1 {
			errorf("character token too long: %s", s)
		}
		val = int(rq[0])
		if val == 0 {
			errorf("token value 0 is illegal")
		}
		tokset[ntokens].noconst = true
	} else {
		val = extval
		extval++
		if s[0] == '$' {
			tokset[ntokens].noconst = true
		}
	}

	tokset[ntokens].value = val
	return ntokens
}

var peekline = 0

func gettok() int {
	var i int
	var match, c rune

	tokname = ""
	for {
		lineno += peekline
		peekline = 0
		c = getrune(finput)
		for c == ' ' || c == '\n' || c == '\t' || c == '\v' || c == '\r' {
			if c == '\n' {
				lineno++
			}
			c = getrune(finput)
		}

		// skip comment -- fix
		if c != '/' {
			break
		}
		lineno += skipcom()
	}

	switch c {
	case EOF:
		if tokflag {
			fmt.Printf(">>> ENDFILE %v\n", lineno)
		}
		return ENDFILE

	case '{':
		ungetrune(finput, c)
		if tokflag {
			fmt.Printf(">>> ={ %v\n", lineno)
		}
		return '='

	case '<':
		// get, and look up, a type name (union member name)
		c = getrune(finput)
		for c != '>' && c != EOF && c != '\n' {
			tokname += string(c)
			c = getrune(finput)
		}

		if c != '>' {
			errorf("unterminated < ... > clause")
		}

		for i = 1; i <= ntypes; i++ {
			if typeset[i] == tokname {
				numbval = i
				if tokflag {
					fmt.Printf(">>> TYPENAME old <%v> %v\n", tokname, lineno)
				}
				return TYPENAME
			}
		}
		ntypes++
		numbval = ntypes
		typeset[numbval] = tokname
		if tokflag {
			fmt.Printf(">>> TYPENAME new <%v> %v\n", tokname, lineno)
		}
		return TYPENAME

	case '"', '\'':
		match = c
		tokname = string(c)
		for {
			c = getrune(finput)
			if c == '\n' || c == EOF {
				errorf("illegal or missing ' or \"")
			}
			if c == '\\' {
				tokname += string('\\')
				c = getrune(finput)
			} else if c == match {
				if tokflag {
					fmt.Printf(">>> IDENTIFIER \"%v\" %v\n", tokname, lineno)
				}
				tokname += string(c)
				return IDENTIFIER
			}
			tokname += string(c)
		}

	case '%':
		c = getrune(finput)
		switch c {
		case '%':
			if tokflag {
				fmt.Printf(">>> MARK %%%% %v\n", lineno)
			}
			return MARK
		case '=':
			if tokflag {
				fmt.Printf(">>> PREC %%= %v\n", lineno)
			}
			return PREC
		case '{':
			if tokflag {
				fmt.Printf(">>> LCURLY %%{ %v\n", lineno)
			}
			return LCURLY
		}

		getword(c)
		// find a reserved word
		for i := range resrv {
			if tokname == resrv[i].name {
				if tokflag {
					fmt.Printf(">>> %%%v %v %v\n", tokname,
						resrv[i].value-PRIVATE, lineno)
				}
				return resrv[i].value
			}
		}
		errorf("invalid escape, or illegal reserved word: %v", tokname)

	case '0', '1', '2', '3', '4', '5', '6', '7', '8', '9':
		numbval = int(c - '0')
		for {
			c = getrune(finput)
			if !isdigit(c) {
				break
			}
			numbval = numbval*10 + int(c-'0')
		}
		ungetrune(finput, c)
		if tokflag {
			fmt.Printf(">>> NUMBER %v %v\n", numbval, lineno)
		}
		return NUMBER

	default:
		if isword(c) || c == '.' || c == '$' {
			getword(c)
			break
		}
		if tokflag {
			fmt.Printf(">>> OPERATOR %v %v\n", string(c), lineno)
		}
		return int(c)
	}

	// look ahead to distinguish IDENTIFIER from IDENTCOLON
	c = getrune(finput)
	for c == ' ' || c == '\t' || c == '\n' || c == '\v' || c == '\r' || c == '/' {
		if c == '\n' {
			peekline++
		}
		// look for comments
		if c == '/' {
			peekline += skipcom()
		}
		c = getrune(finput)
	}
	if c == ':' {
		if tokflag {
			fmt.Printf(">>> IDENTCOLON %v: %v\n", tokname, lineno)
		}
		return IDENTCOLON
	}

	ungetrune(finput, c)
	if tokflag {
		fmt.Printf(">>> IDENTIFIER %v %v\n", tokname, lineno)
	}
	return IDENTIFIER
}

func getword(c rune) {
	tokname = ""
	for isword(c) || isdigit(c) || c == '.' || c == '$' {
		tokname += string(c)
		c = getrune(finput)
	}
	ungetrune(finput, c)
}

// determine the type of a symbol
func fdtype(t int) int {
	var v int
	var s string

	if t >= NTBASE {
		v = nontrst[t-NTBASE].value
		s = nontrst[t-NTBASE].name
	} else {
		v = TYPE(toklev[t])
		s = tokset[t].name
	}
	if v <= 0 {
		errorf("must specify type for %v", s)
	}
	return v
}

func chfind(t int, s string) int {
	if s[0] == '"' || s[0] == '\'' {
		t = 0
	}
	for i := 0; i <= ntokens; i++ {
		if s == tokset[i].name {
			return i
		}
	}
	for i := 0; i <= nnonter; i++ {
		if s == nontrst[i].name {
			return NTBASE + i
		}
	}

	// cannot find name
	if t > 1 {
		errorf("%v should have been defined earlier", s)
	}
	return defin(t, s)
}

// copy the union declaration to the output, and the define file if present
func cpyunion() {

	if !lflag {
		fmt.Fprintf(ftable, "\n//line %v:%v\n", infile, lineno)
	}
	fmt.Fprintf(ftable, "type %sSymType struct", prefix)

	level := 0

out:
	for {
		c := getrune(finput)
		if c == EOF {
			errorf("EOF encountered while processing %%union")
		}
		ftable.WriteRune(c)
		switch c {
		case '\n':
			lineno++
		case '{':
			if level == 0 {
				fmt.Fprintf(ftable, "\n\tyys int")
			}
			level++
		case '}':
			level--
			if level == 0 {
				break out
			}
		}
	}
	fmt.Fprintf(ftable, "\n\n")
}

// saves code between %{ and %}
// adds an import for __fmt__ the first time
func cpycode() {
	lno := lineno

	c := getrune(finput)
	if c == '\n' {
		c = getrune(finput)
		lineno++
	}
	if !lflag {
		fmt.Fprintf(ftable, "\n//line %v:%v\n", infile, lineno)
	}
	// accumulate until %}
	code := make([]rune, 0, 1024)
	for c != EOF {
		if c == '%' {
			c = getrune(finput)
			if c == '}' {
				emitcode(code, lno+1)
				return
			}
			code = append(code, '%')
		}
		code = append(code, c)
		if c == '\n' {
			lineno++
		}
		c = getrune(finput)
	}
	lineno = lno
	errorf("eof before %%}")
}

// emits code saved up from between %{ and %}
// called by cpycode
// adds an import for __yyfmt__ after the package clause
func emitcode(code []rune, lineno int) {
	for i, line := range lines(code) {
		writecode(line)
		if !fmtImported && isPackageClause(line) {
			fmt.Fprintln(ftable, `import __yyfmt__ "fmt"`)
			if !lflag {
				fmt.Fprintf(ftable, "//line %v:%v\n\t\t", infile, lineno+i)
			}
			fmtImported = true
		}
	}
}

// does this line look like a package clause?  not perfect: might be confused by early comments.
func isPackageClause(line []rune) bool {
	line = skipspace(line)

	// must be big enough.
	if len(line) < len("package X\n") {
		return false
	}

	// must start with "package"
	for i, r := range []rune("package") {
		if line[i] != r {
			return false
		}
	}
	line = skipspace(line[len("package"):])

	// must have another identifier.
	if len(line) == 0 || (!unicode.IsLetter(line[0]) && line[0] != '_') {
		return false
	}
	for len(line) > 0 {
		if !unicode.IsLetter(line[0]) && !unicode.IsDigit(line[0]) && line[0] != '_' {
			break
		}
		line = line[1:]
	}
	line = skipspace(line)

	// eol, newline, or comment must follow
	if len(line) == 0 {
		return true
	}
	if line[0] == '\r' || line[0] == '\n' {
		return true
	}
	if len(line) >= 2 {
		return line[0] == '/' && (line[1] == '/' || line[1] == '*')
	}
	return false
}

// skip initial spaces
func skipspace(line []rune) []rune {
	for len(line) > 0 {
		if line[0] != ' ' && line[0] != '\t' {
			break
		}
		line = line[1:]
	}
	return line
}

// break code into lines
func lines(code []rune) [][]rune {
	l := make([][]rune, 0, 100)
	for len(code) > 0 {
		// one line per loop
		var i int
		for i = range code {
			if code[i] == '\n' {
				break
			}
		}
		l = append(l, code[:i+1])
		code = code[i+1:]
	}
	return l
}

// writes code to ftable
func writecode(code []rune) {
	for _, r := range code {
		ftable.WriteRune(r)
	}
}

// skip over comments
// skipcom is called after reading a '/'
func skipcom() int {
	c := getrune(finput)
	if c == '/' {
		for c != EOF {
			if c == '\n' {
				return 1
			}
			c = getrune(finput)
		}
		errorf("EOF inside comment")
		return 0
	}
	if c != '*' {
		errorf("illegal comment")
	}

	nl := 0 // lines skipped
	c = getrune(finput)

l1:
	switch c {
	case '*':
		c = getrune(finput)
		if c == '/' {
			break
		}
		goto l1

	case '\n':
		nl++
		fallthrough

	default:
		c = getrune(finput)
		goto l1
	}
	return nl
}

// copy action to the next ; or closing }
func cpyact(curprod []int, max int) {

	if !lflag {
		fmt.Fprintf(fcode, "\n//line %v:%v", infile, lineno)
	}
	fmt.Fprint(fcode, "\n\t\t")

	lno := lineno
	brac := 0

loop:
	for {
		c := getrune(finput)

	swt:
		switch c {
		case ';':
			if brac == 0 {
				fcode.WriteRune(c)
				return
			}

		case '{':
			brac++

		case '$':
			s := 1
			tok := -1
			c = getrune(finput)

			// type description
			if c == '<' {
				ungetrune(finput, c)
				if gettok() != TYPENAME {
					errorf("bad syntax on $<ident> clause")
				}
				tok = numbval
				c = getrune(finput)
			}
			if c == '$' {
				fmt.Fprintf(fcode, "%sVAL", prefix)

				// put out the proper tag...
				if ntypes != 0 {
					if tok < 0 {
						tok = fdtype(curprod[0])
					}
					fmt.Fprintf(fcode, ".%v", typeset[tok])
				}
				continue loop
			}
			if c == '-' {
				s = -s
				c = getrune(finput)
			}
			j := 0
			if isdigit(c) {
				for isdigit(c) {
					j = j*10 + int(c-'0')
					c = getrune(finput)
				}
				ungetrune(finput, c)
				j = j * s
				if j >= max {
					errorf("Illegal use of $%v", j)
				}
			} else if isword(c) || c == '.' {
				// look for $name
				ungetrune(finput, c)
				if gettok() != IDENTIFIER {
					errorf("$ must be followed by an identifier")
				}
				tokn := chfind(2, tokname)
				fnd := -1
				c = getrune(finput)
				if c != '@' {
					ungetrune(finput, c)
				} else if gettok() != NUMBER {
					errorf("@ must be followed by number")
				} else {
					fnd = numbval
				}
				for j = 1; j < max; j++ {
					if tokn == curprod[j] {
						fnd--
						if fnd <= 0 {
							break
						}
					}
				}
				if j >= max {
					errorf("$name or $name@number not found")
				}
			} else {
				fcode.WriteRune('$')
				if s < 0 {
					fcode.WriteRune('-')
				}
				ungetrune(finput, c)
				continue loop
			}
			fmt.Fprintf(fcode, "%sDollar[%v]", prefix, j)

			// put out the proper tag
			if ntypes != 0 {
				if j <= 0 && tok < 0 {
					errorf("must specify type of $%v", j)
				}
				if tok < 0 {
					tok = fdtype(curprod[j])
				}
				fmt.Fprintf(fcode, ".%v", typeset[tok])
			}
			continue loop

		case '}':
			brac--
			if brac != 0 {
				break
			}
			fcode.WriteRune(c)
			return

		case '/':
			nc := getrune(finput)
			if nc != '/' && nc != '*' {
				ungetrune(finput, nc)
				break
			}
			// a comment
			fcode.WriteRune(c)
			fcode.WriteRune(nc)
			c = getrune(finput)
			for c != EOF {
				switch {
				case c == '\n':
					lineno++
					if nc == '/' { // end of // comment
						break swt
					}
				case c == '*' && nc == '*': // end of /* comment?
					nnc := getrune(finput)
					if nnc == '/' {
						fcode.WriteRune('*')
						fcode.WriteRune('/')
						continue loop
					}
					ungetrune(finput, nnc)
				}
				fcode.WriteRune(c)
				c = getrune(finput)
			}
			errorf("EOF inside comment")

		case '\'', '"':
			// character string or constant
			match := c
			fcode.WriteRune(c)
			c = getrune(finput)
			for c != EOF {
				if c == '\\' {
					fcode.WriteRune(c)
					c = getrune(finput)
					if c == '\n' {
						lineno++
					}
				} else if c == match {
					break swt
				}
				if c == '\n' {
					errorf("newline in string or char const")
				}
				fcode.WriteRune(c)
				c = getrune(finput)
			}
			errorf("EOF in string or character constant")

		case EOF:
			lineno = lno
			errorf("action does not terminate")

		case '\n':
			fmt.Fprint(fcode, "\n\t")
			lineno++
			continue loop
		}

		fcode.WriteRune(c)
	}
}

func openup() {
	infile = flag.Arg(0)
	finput = open(infile)
	if finput == nil {
		errorf("cannot open %v", infile)
	}

	foutput = nil
	if vflag != "" {
		foutput = create(vflag)
		if foutput == nil {
			errorf("can't create file %v", vflag)
		}
	}

	ftable = nil
	if oflag == "" {
		oflag = "y.go"
	}
	ftable = create(oflag)
	if ftable == nil {
		errorf("can't create file %v", oflag)
	}

}

// return a pointer to the name of symbol i
func symnam(i int) string {
	var s string

	if i >= NTBASE {
		s = nontrst[i-NTBASE].name
	} else {
		s = tokset[i].name
	}
	return s
}

// set elements 0 through n-1 to c
func aryfil(v []int, n, c int) {
	for i := 0; i < n; i++ {
		v[i] = c
	}
}

// compute an array with the beginnings of productions yielding given nonterminals
// The array pres points to these lists
// the array pyield has the lists: the total size is only NPROD+1
func cpres() {
	pres = make([][][]int, nnonter+1)
	curres := make([][]int, nprod)

	if false {
		for j := 0; j <= nnonter; j++ {
			fmt.Printf("nnonter[%v] = %v\n", j, nontrst[j].name)
		}
		for j := 0; j < nprod; j++ {
			fmt.Printf("prdptr[%v][0] = %v+NTBASE\n", j, prdptr[j][0]-NTBASE)
		}
	}

	fatfl = 0 // make undefined symbols nonfatal
	for i := 0; i <= nnonter; i++ {
		n := 0
		c := i + NTBASE
		for j := 0; j < nprod; j++ {
			if prdptr[j][0] == c {
				curres[n] = prdptr[j][1:]
				n++
			}
		}
		if n == 0 {
			errorf("nonterminal %v not defined", nontrst[i].name)
			continue
		}
		pres[i] = make([][]int, n)
		copy(pres[i], curres)
	}
	fatfl = 1
	if nerrors != 0 {
		summary()
		exit(1)
	}
}

// mark nonterminals which derive the empty string
// also, look for nonterminals which don't derive any token strings
func cempty() {
	var i, p, np int
	var prd []int

	pempty = make([]int, nnonter+1)

	// first, use the array pempty to detect productions that can never be reduced
	// set pempty to WHONOWS
	aryfil(pempty, nnonter+1, WHOKNOWS)

	// now, look at productions, marking nonterminals which derive something
more:
	for {
		for i = 0; i < nprod; i++ {
			prd = prdptr[i]
			if pempty[prd[0]-NTBASE] != 0 {
				continue
			}
			np = len(prd) - 1
			for p = 1; p < np; p++ {
				if prd[p] >= NTBASE && pempty[prd[p]-NTBASE] == WHOKNOWS {
					break
				}
			}
			// production can be derived
			if p == np {
				pempty[prd[0]-NTBASE] = OK
				continue more
			}
		}
		break
	}

	// now, look at the nonterminals, to see if they are all OK
	for i = 0; i <= nnonter; i++ {
		// the added production rises or falls as the start symbol ...
		if i == 0 {
			continue
		}
		if pempty[i] != OK {
			fatfl = 0
			errorf("nonterminal %s never derives any token string", nontrst[i].name)
		}
	}

	if nerrors != 0 {
		summary()
		exit(1)
	}

	// now, compute the pempty array, to see which nonterminals derive the empty string
	// set pempty to WHOKNOWS
	aryfil(pempty, nnonter+1, WHOKNOWS)

	// loop as long as we keep finding empty nonterminals

again:
	for {
	next:
		for i = 1; i < nprod; i++ {
			// not known to be empty
			prd = prdptr[i]
			if pempty[prd[0]-NTBASE] != WHOKNOWS {
				continue
			}
			np = len(prd) - 1
			for p = 1; p < np; p++ {
				if prd[p] < NTBASE || pempty[prd[p]-NTBASE] != EMPTY {
					continue next
				}
			}

			// we have a nontrivially empty nonterminal
			pempty[prd[0]-NTBASE] = EMPTY

			// got one ... try for another
			continue again
		}
		return
	}
}

// compute an array with the first of nonterminals
func cpfir() {
	var s, n, p, np, ch, i int
	var curres [][]int
	var prd []int

	wsets = make([]Wset, nnonter+WSETINC)
	pfirst = make([]Lkset, nnonter+1)
	for i = 0; i <= nnonter; i++ {
		wsets[i].ws = mkset()
		pfirst[i] = mkset()
		curres = pres[i]
		n = len(curres)

		// initially fill the sets
		for s = 0; s < n; s++ {
			prd = curres[s]
			np = len(prd) - 1
			for p = 0; p < np; p++ {
				ch = prd[p]
				if ch < NTBASE {
					setbit(pfirst[i], ch)
					break
				}
				if pempty[ch-NTBASE] == 0 {
					break
				}
			}
		}
	}

	// now, reflect transitivity
	changes := 1
	for changes != 0 {
		changes = 0
		for i = 0; i <= nnonter; i++ {
			curres = pres[i]
			n = len(curres)
			for s = 0; s < n; s++ {
				prd = curres[s]
				np = len(prd) - 1
				for p = 0; p < np; p++ {
					ch = prd[p] - NTBASE
					if ch < 0 {
						break
					}
					changes |= setunion(pfirst[i], pfirst[ch])
					if pempty[ch] == 0 {
						break
					}
				}
			}
		}
	}

	if indebug == 0 {
		return
	}
	if foutput != nil {
		for i = 0; i <= nnonter; i++ {
			fmt.Fprintf(foutput, "\n%v: %v %v\n",
				nontrst[i].name, pfirst[i], pempty[i])
		}
	}
}

// generate the states
func stagen() {
	// initialize
	nstate = 0
	tstates = make([]int, ntokens+1)  // states generated by terminal gotos
	ntstates = make([]int, nnonter+1) // states generated by nonterminal gotos
	amem = make([]int, ACTSIZE)
	memp = 0

	clset = mkset()
	pstate[0] = 0
	pstate[1] = 0
	aryfil(clset, tbitset, 0)
	putitem(Pitem{prdptr[0], 0, 0, 0}, clset)
	tystate[0] = MUSTDO
	nstate = 1
	pstate[2] = pstate[1]

	//
	// now, the main state generation loop
	// first pass generates all of the states
	// later passes fix up lookahead
	// could be sped up a lot by remembering
	// results of the first pass rather than recomputing
	//
	first := 1
	for more := 1; more != 0; first = 0 {
		more = 0
		for i := 0; i < nstate; i++ {
			if tystate[i] != MUSTDO {
				continue
			}

			tystate[i] = DONE
			aryfil(temp1, nnonter+1, 0)

			// take state i, close it, and do gotos
			closure(i)

			// generate goto's
			for p := 0; p < cwp; p++ {
				pi := wsets[p]
				if pi.flag != 0 {
					continue
				}
				wsets[p].flag = 1
				c := pi.pitem.first
				if c <= 1 {
					if pstate[i+1]-pstate[i] <= p {
						tystate[i] = MUSTLOOKAHEAD
					}
					continue
				}

				// do a goto on c
				putitem(wsets[p].pitem, wsets[p].ws)
				for q := p + 1; q < cwp; q++ {
					// this item contributes to the goto
					if c == wsets[q].pitem.first {
						putitem(wsets[q].pitem, wsets[q].ws)
						wsets[q].flag = 1
					}
				}

				if c < NTBASE {
					state(c) // register new state
				} else {
					temp1[c-NTBASE] = state(c)
				}
			}

			if gsdebug != 0 && foutput != nil {
				fmt.Fprintf(foutput, "%v: ", i)
				for j := 0; j <= nnonter; j++ {
					if temp1[j] != 0 {
						fmt.Fprintf(foutput, "%v %v,", nontrst[j].name, temp1[j])
					}
				}
				fmt.Fprintf(foutput, "\n")
			}

			if first != 0 {
				indgo[i] = apack(temp1[1:], nnonter-1) - 1
			}

			more++
		}
	}
}

// generate the closure of state i
func closure(i int) {
	zzclose++

	// first, copy kernel of state i to wsets
	cwp = 0
	q := pstate[i+1]
	for p := pstate[i]; p < q; p++ {
		wsets[cwp].pitem = statemem[p].pitem
		wsets[cwp].flag = 1 // this item must get closed
		copy(wsets[cwp].ws, statemem[p].look)
		cwp++
	}

	// now, go through the loop, closing each item
	work := 1
	for work != 0 {
		work = 0
		for u := 0; u < cwp; u++ {
			if wsets[u].flag == 0 {
				continue
			}

			// dot is before c
			c := wsets[u].pitem.first
			if c < NTBASE {
				wsets[u].flag = 0
				// only interesting case is where . is before nonterminal
				continue
			}

			// compute the lookahead
			aryfil(clset, tbitset, 0)

			// find items involving c
			for v := u; v < cwp; v++ {
				if wsets[v].flag != 1 || wsets[v].pitem.first != c {
					continue
				}
				pi := wsets[v].pitem.prod
				ipi := wsets[v].pitem.off + 1

				wsets[v].flag = 0
				if nolook != 0 {
					continue
				}

				ch := pi[ipi]
				ipi++
				for ch > 0 {
					// terminal symbol
					if ch < NTBASE {
						setbit(clset, ch)
						break
					}

					// nonterminal symbol
					setunion(clset, pfirst[ch-NTBASE])
					if pempty[ch-NTBASE] == 0 {
						break
					}
					ch = pi[ipi]
					ipi++
				}
				if ch <= 0 {
					setunion(clset, wsets[v].ws)
				}
			}

			//
			// now loop over productions derived from c
			//
			curres := pres[c-NTBASE]
			n := len(curres)

		nexts:
			// initially fill the sets
			for s := 0; s < n; s++ {
				prd := curres[s]

				//
				// put these items into the closure
				// is the item there
				//
				for v := 0; v < cwp; v++ {
					// yes, it is there
					if wsets[v].pitem.off == 0 &&
						aryeq(wsets[v].pitem.prod, prd) != 0 {
						if nolook == 0 &&
							setunion(wsets[v].ws, clset) != 0 {
							wsets[v].flag = 1
							work = 1
						}
						continue nexts
					}
				}

				//  not there; make a new entry
				if cwp >= len(wsets) {
					awsets := make([]Wset, cwp+WSETINC)
					copy(awsets, wsets)
					wsets = awsets
				}
				wsets[cwp].pitem = Pitem{prd, 0, prd[0], -prd[len(prd)-1]}
				wsets[cwp].flag = 1
				wsets[cwp].ws = mkset()
				if nolook == 0 {
					work = 1
					copy(wsets[cwp].ws, clset)
				}
				cwp++
			}
		}
	}

	// have computed closure; flags are reset; return
	if cldebug != 0 && foutput != nil {
		fmt.Fprintf(foutput, "\nState %v, nolook = %v\n", i, nolook)
		for u := 0; u < cwp; u++ {
			if wsets[u].flag != 0 {
				fmt.Fprintf(foutput, "flag set\n")
			}
			wsets[u].flag = 0
			fmt.Fprintf(foutput, "\t%v", writem(wsets[u].pitem))
			prlook(wsets[u].ws)
			fmt.Fprintf(foutput, "\n")
		}
	}
}

// sorts last state,and sees if it equals earlier ones. returns state number
func state(c int) int {
	zzstate++
	p1 := pstate[nstate]
	p2 := pstate[nstate+1]
	if p1 == p2 {
		return 0 // null state
	}

	// sort the items
	var k, l int
	for k = p1 + 1; k < p2; k++ { // make k the biggest
		for l = k; l > p1; l-- {
			if statemem[l].pitem.prodno < statemem[l-1].pitem.prodno ||
				statemem[l].pitem.prodno == statemem[l-1].pitem.prodno &&
					statemem[l].pitem.off < statemem[l-1].pitem.off {
				s := statemem[l]
				statemem[l] = statemem[l-1]
				statemem[l-1] = s
			} else {
				break
			}
		}
	}

	size1 := p2 - p1 // size of state

	var i int
	if c >= NTBASE {
		i = ntstates[c-NTBASE]
	} else {
		i = tstates[c]
	}

look:
	for ; i != 0; i = mstates[i] {
		// get ith state
		q1 := pstate[i]
		q2 := pstate[i+1]
		size2 := q2 - q1
		if size1 != size2 {
			continue
		}
		k = p1
		for l = q1; l < q2; l++ {
			if aryeq(statemem[l].pitem.prod, statemem[k].pitem.prod) == 0 ||
				statemem[l].pitem.off != statemem[k].pitem.off {
				continue look
			}
			k++
		}

		// found it
		pstate[nstate+1] = pstate[nstate] // delete last state

		// fix up lookaheads
		if nolook != 0 {
			return i
		}
		k = p1
		for l = q1; l < q2; l++ {
			if setunion(statemem[l].look, statemem[k].look) != 0 {
				tystate[i] = MUSTDO
			}
			k++
		}
		return i
	}

	// state is new
	zznewstate++
	if nolook != 0 {
		errorf("yacc state/nolook error")
	}
	pstate[nstate+2] = p2
	if nstate+1 >= NSTATES {
		errorf("too many states")
	}
	if c >= NTBASE {
		mstates[nstate] = ntstates[c-NTBASE]
		ntstates[c-NTBASE] = nstate
	} else {
		mstates[nstate] = tstates[c]
		tstates[c] = nstate
	}
	tystate[nstate] = MUSTDO
	nstate++
	return nstate - 1
}

func putitem(p Pitem, set Lkset) {
	p.off++
	p.first = p.prod[p.off]

	if pidebug != 0 && foutput != nil {
		fmt.Fprintf(foutput, "putitem(%v), state %v\n", writem(p), nstate)
	}
	j := pstate[nstate+1]
	if j >= len(statemem) {
		asm := make([]Item, j+STATEINC)
		copy(asm, statemem)
		statemem = asm
	}
	statemem[j].pitem = p
	if nolook == 0 {
		s := mkset()
		copy(s, set)
		statemem[j].look = s
	}
	j++
	pstate[nstate+1] = j
}

// creates output string for item pointed to by pp
func writem(pp Pitem) string {
	var i int

	p := pp.prod
	q := chcopy(nontrst[prdptr[pp.prodno][0]-NTBASE].name) + ": "
	npi := pp.off

	pi := aryeq(p, prdptr[pp.prodno])

	for {
		c := ' '
		if pi == npi {
			c = '.'
		}
		q += string(c)

		i = p[pi]
		pi++
		if i <= 0 {
			break
		}
		q += chcopy(symnam(i))
	}

	// an item calling for a reduction
	i = p[npi]
	if i < 0 {
		q += fmt.Sprintf("    (%v)", -i)
	}

	return q
}

// pack state i from temp1 into amem
func apack(p []int, n int) int {
	//
	// we don't need to worry about checking because
	// we will only look at entries known to be there...
	// eliminate leading and trailing 0's
	//
	off := 0
	pp := 0
	for ; pp <= n && p[pp] == 0; pp++ {
		off--
	}

	// no actions
	if pp > n {
		return 0
	}
	for ; n > pp && p[n] == 0; n-- {
	}
	p = p[pp : n+1]

	// now, find a place for the elements from p to q, inclusive
	r := len(amem) - len(p)

nextk:
	for rr := 0; rr <= r; rr++ {
		qq := rr
		for pp = 0; pp < len(p); pp++ {
			if p[pp] != 0 {
				if p[pp] != amem[qq] && amem[qq] != 0 {
					continue nextk
				}
			}
			qq++
		}

		// we have found an acceptable k
		if pkdebug != 0 && foutput != nil {
			fmt.Fprintf(foutput, "off = %v, k = %v\n", off+rr, rr)
		}
		qq = rr
		for pp = 0; pp < len(p); pp++ {
			if p[pp] != 0 {
				if qq > memp {
					memp = qq
				}
				amem[qq] = p[pp]
			}
			qq++
		}
		if pkdebug != 0 && foutput != nil {
			for pp = 0; pp <= memp; pp += 10 {
				fmt.Fprintf(foutput, "\n")
				for qq = pp; qq <= pp+9; qq++ {
					fmt.Fprintf(foutput, "%v ", amem[qq])
				}
				fmt.Fprintf(foutput, "\n")
			}
		}
		return off + rr
	}
	errorf("no space in action table")
	return 0
}

// print the output for the states
func output() {
	var c, u, v int

	if !lflag {
		fmt.Fprintf(ftable, "\n//line yacctab:1")
	}
	var actions []int

	if len(errors) > 0 {
		stateTable = make([]Row, nstate)
	}

	noset := mkset()

	// output the stuff for state i
	for i := 0; i < nstate; i++ {
		nolook = 0
		if tystate[i] != MUSTLOOKAHEAD {
			nolook = 1
		}
		closure(i)

		// output actions
		nolook = 1
		aryfil(temp1, ntokens+nnonter+1, 0)
		for u = 0; u < cwp; u++ {
			c = wsets[u].pitem.first
			if c > 1 && c < NTBASE && temp1[c] == 0 {
				for v = u; v < cwp; v++ {
					if c == wsets[v].pitem.first {
						putitem(wsets[v].pitem, noset)
					}
				}
				temp1[c] = state(c)
			} else if c > NTBASE {
				c -= NTBASE
				if temp1[c+ntokens] == 0 {
					temp1[c+ntokens] = amem[indgo[i]+c]
				}
			}
		}
		if i == 1 {
			temp1[1] = ACCEPTCODE
		}

		// now, we have the shifts; look at the reductions
		lastred = 0
		for u = 0; u < cwp; u++ {
			c = wsets[u].pitem.first

			// reduction
			if c > 0 {
				continue
			}
			lastred = -c
			us := wsets[u].ws
			for k := 0; k <= ntokens; k++ {
				if bitset(us, k) == 0 {
					continue
				}
				if temp1[k] == 0 {
					temp1[k] = c
				} else if temp1[k] < 0 { // reduce/reduce conflict
					if foutput != nil {
						fmt.Fprintf(foutput,
							"\n %v: reduce/reduce conflict  (red'ns "+
								"%v and %v) on %v",
							i, -temp1[k], lastred, symnam(k))
					}
					if -temp1[k] > lastred {
						temp1[k] = -lastred
					}
					zzrrconf++
				} else {
					// potential shift/reduce conflict
					precftn(lastred, k, i)
				}
			}
		}
		actions = addActions(actions, i)
	}

	arrayOutColumns("Exca", actions, 2, false)
	fmt.Fprintf(ftable, "\n")
	ftable.WriteRune('\n')
	fmt.Fprintf(ftable, "const %sPrivate = %v\n", prefix, PRIVATE)
}

// decide a shift/reduce conflict by precedence.
// r is a rule number, t a token number
// the conflict is in state s
// temp1[t] is changed to reflect the action
func precftn(r, t, s int) {
	action := NOASC

	lp := levprd[r]
	lt := toklev[t]
	if PLEVEL(lt) == 0 || PLEVEL(lp) == 0 {
		// conflict
		if foutput != nil {
			fmt.Fprintf(foutput,
				"\n%v: shift/reduce conflict (shift %v(%v), red'n %v(%v)) on %v",
				s, temp1[t], PLEVEL(lt), r, PLEVEL(lp), symnam(t))
		}
		zzsrconf++
		return
	}
	if PLEVEL(lt) == PLEVEL(lp) {
		action = ASSOC(lt)
	} else if PLEVEL(lt) > PLEVEL(lp) {
		action = RASC // shift
	} else {
		action = LASC
	} // reduce
	switch action {
	case BASC: // error action
		temp1[t] = ERRCODE
	case LASC: // reduce
		temp1[t] = -r
	}
}

// output state i
// temp1 has the actions, lastred the default
func addActions(act []int, i int) []int {
	var p, p1 int

	// find the best choice for lastred
	lastred = 0
	ntimes := 0
	for j := 0; j <= ntokens; j++ {
		if temp1[j] >= 0 {
			continue
		}
		if temp1[j]+lastred == 0 {
			continue
		}
		// count the number of appearances of temp1[j]
		count := 0
		tred := -temp1[j]
		levprd[tred] |= REDFLAG
		for p = 0; p <= ntokens; p++ {
			if temp1[p]+tred == 0 {
				count++
			}
		}
		if count > ntimes {
			lastred = tred
			ntimes = count
		}
	}

	//
	// for error recovery, arrange that, if there is a shift on the
	// error recovery token, `error', that the default be the error action
	//
	if temp1[2] > 0 {
		lastred = 0
	}

	// clear out entries in temp1 which equal lastred
	// count entries in optst table
	n := 0
	for p = 0; p <= ntokens; p++ {
		p1 = temp1[p]
		if p1+lastred == 0 {
			temp1[p] = 0
			p1 = 0
		}
		if p1 > 0 && p1 != ACCEPTCODE && p1 != ERRCODE {
			n++
		}
	}

	wrstate(i)
	defact[i] = lastred
	flag := 0
	os := make([]int, n*2)
	n = 0
	for p = 0; p <= ntokens; p++ {
		p1 = temp1[p]
		if p1 != 0 {
			if p1 < 0 {
				p1 = -p1
			} else if p1 == ACCEPTCODE {
				p1 = -1
			} else if p1 == ERRCODE {
				p1 = 0
			} else {
				os[n] = p
				n++
				os[n] = p1
				n++
				zzacent++
				continue
			}
			if flag == 0 {
				act = append(act, -1, i)
			}
			flag++
			act = append(act, p, p1)
			zzexcp++
		}
	}
	if flag != 0 {
		defact[i] = -2
		act = append(act, -2, lastred)
	}
	optst[i] = os
	return act
}

// writes state i
func wrstate(i int) {
	var j0, j1, u int
	var pp, qq int

	if len(errors) > 0 {
		actions := append([]int(nil), temp1...)
		defaultAction := ERRCODE
		if lastred != 0 {
			defaultAction = -lastred
		}
		stateTable[i] = Row{actions, defaultAction}
	}

	if foutput == nil {
		return
	}
	fmt.Fprintf(foutput, "\nstate %v\n", i)
	qq = pstate[i+1]
	for pp = pstate[i]; pp < qq; pp++ {
		fmt.Fprintf(foutput, "\t%v\n", writem(statemem[pp].pitem))
	}
	if tystate[i] == MUSTLOOKAHEAD {
		// print out empty productions in closure
		for u = pstate[i+1] - pstate[i]; u < cwp; u++ {
			if wsets[u].pitem.first < 0 {
				fmt.Fprintf(foutput, "\t%v\n", writem(wsets[u].pitem))
			}
		}
	}

	// check for state equal to another
	for j0 = 0; j0 <= ntokens; j0++ {
		j1 = temp1[j0]
		if j1 != 0 {
			fmt.Fprintf(foutput, "\n\t%v  ", symnam(j0))

			// shift, error, or accept
			if j1 > 0 {
				if j1 == ACCEPTCODE {
					fmt.Fprintf(foutput, "accept")
				} else if j1 == ERRCODE {
					fmt.Fprintf(foutput, "error")
				} else {
					fmt.Fprintf(foutput, "shift %v", j1)
				}
			} else {
				fmt.Fprintf(foutput, "reduce %v (src line %v)", -j1, rlines[-j1])
			}
		}
	}

	// output the final production
	if lastred != 0 {
		fmt.Fprintf(foutput, "\n\t.  reduce %v (src line %v)\n\n",
			lastred, rlines[lastred])
	} else {
		fmt.Fprintf(foutput, "\n\t.  error\n\n")
	}

	// now, output nonterminal actions
	j1 = ntokens
	for j0 = 1; j0 <= nnonter; j0++ {
		j1++
		if temp1[j1] != 0 {
			fmt.Fprintf(foutput, "\t%v  goto %v\n", symnam(j0+NTBASE), temp1[j1])
		}
	}
}

// output the gotos for the nontermninals
func go2out() {
	for i := 1; i <= nnonter; i++ {
		go2gen(i)

		// find the best one to make default
		best := -1
		times := 0

		// is j the most frequent
		for j := 0; j < nstate; j++ {
			if tystate[j] == 0 {
				continue
			}
			if tystate[j] == best {
				continue
			}

			// is tystate[j] the most frequent
			count := 0
			cbest := tystate[j]
			for k := j; k < nstate; k++ {
				if tystate[k] == cbest {
					count++
				}
			}
			if count > times {
				best = cbest
				times = count
			}
		}

		// best is now the default entry
		zzgobest += times - 1
		n := 0
		for j := 0; j < nstate; j++ {
			if tystate[j] != 0 && tystate[j] != best {
				n++
			}
		}
		goent := make([]int, 2*n+1)
		n = 0
		for j := 0; j < nstate; j++ {
			if tystate[j] != 0 && tystate[j] != best {
				goent[n] = j
				n++
				goent[n] = tystate[j]
				n++
				zzgoent++
			}
		}

		// now, the default
		if best == -1 {
			best = 0
		}

		zzgoent++
		goent[n] = best
		yypgo[i] = goent
	}
}

// output the gotos for nonterminal c
func go2gen(c int) {
	var i, cc, p, q int

	// first, find nonterminals with gotos on c
	aryfil(temp1, nnonter+1, 0)
	temp1[c] = 1
	work := 1
	for work != 0 {
		work = 0
		for i = 0; i < nprod; i++ {
			// cc is a nonterminal with a goto on c
			cc = prdptr[i][1] - NTBASE
			if cc >= 0 && temp1[cc] != 0 {
				// thus, the left side of production i does too
				cc = prdptr[i][0] - NTBASE
				if temp1[cc] == 0 {
					work = 1
					temp1[cc] = 1
				}
			}
		}
	}

	// now, we have temp1[c] = 1 if a goto on c in closure of cc
	if g2debug != 0 && foutput != nil {
		fmt.Fprintf(foutput, "%v: gotos on ", nontrst[c].name)
		for i = 0; i <= nnonter; i++ {
			if temp1[i] != 0 {
				fmt.Fprintf(foutput, "%v ", nontrst[i].name)
			}
		}
		fmt.Fprintf(foutput, "\n")
	}

	// now, go through and put gotos into tystate
	aryfil(tystate, nstate, 0)
	for i = 0; i < nstate; i++ {
		q = pstate[i+1]
		for p = pstate[i]; p < q; p++ {
			cc = statemem[p].pitem.first
			if cc >= NTBASE {
				// goto on c is possible
				if temp1[cc-NTBASE] != 0 {
					tystate[i] = amem[indgo[i]+c]
					break
				}
			}
		}
	}
}

// in order to free up the mem and amem arrays for the optimizer,
// and still be able to output yyr1, etc., after the sizes of
// the action array is known, we hide the nonterminals
// derived by productions in levprd.
func hideprod() {
	nred := 0
	levprd[0] = 0
	for i := 1; i < nprod; i++ {
		if (levprd[i] & REDFLAG) == 0 {
			if foutput != nil {
				fmt.Fprintf(foutput, "Rule not reduced: %v\n",
					writem(Pitem{prdptr[i], 0, 0, i}))
			}
			fmt.Printf("rule %v never reduced\n", writem(Pitem{prdptr[i], 0, 0, i}))
			nred++
		}
		levprd[i] = prdptr[i][0] - NTBASE
	}
	if nred != 0 {
		fmt.Printf("%v rules never reduced\n", nred)
	}
}

func callopt() {
	var j, k, p, q, i int
	var v []int

	pgo = make([]int, nnonter+1)
	pgo[0] = 0
	maxoff = 0
	maxspr = 0
	for i = 0; i < nstate; i++ {
		k = 32000
		j = 0
		v = optst[i]
		q = len(v)
		for p = 0; p < q; p += 2 {
			if v[p] > j {
				j = v[p]
			}
			if v[p] < k {
				k = v[p]
			}
		}

		// nontrivial situation
		if k <= j {
			// j is now the range
			//			j -= k;			// call scj
			if k > maxoff {
				maxoff = k
			}
		}
		tystate[i] = q + 2*j
		if j > maxspr {
			maxspr = j
		}
	}

	// initialize ggreed table
	ggreed = make([]int, nnonter+1)
	for i = 1; i <= nnonter; i++ {
		ggreed[i] = 1
		j = 0

		// minimum entry index is always 0
		v = yypgo[i]
		q = len(v) - 1
		for p = 0; p < q; p += 2 {
			ggreed[i] += 2
			if v[p] > j {
				j = v[p]
			}
		}
		ggreed[i] = ggreed[i] + 2*j
		if j > maxoff {
			maxoff = j
		}
	}

	// now, prepare to put the shift actions into the amem array
	for i = 0; i < ACTSIZE; i++ {
		amem[i] = 0
	}
	maxa = 0
	for i = 0; i < nstate; i++ {
		if tystate[i] == 0 && adb > 1 {
			fmt.Fprintf(ftable, "State %v: null\n", i)
		}
		indgo[i] = yyFlag
	}

	i = nxti()
	for i != NOMORE {
		if i >= 0 {
			stin(i)
		} else {
			gin(-i)
		}
		i = nxti()
	}

	// print amem array
	if adb > 2 {
		for p = 0; p <= maxa; p += 10 {
			fmt.Fprintf(ftable, "%v  ", p)
			for i = 0; i < 10; i++ {
				fmt.Fprintf(ftable, "%v  ", amem[p+i])
			}
			ftable.WriteRune('\n')
		}
	}

	aoutput()
	osummary()
}

// finds the next i
func nxti() int {
	max := 0
	maxi := 0
	for i := 1; i <= nnonter; i++ {
		if ggreed[i] >= max {
			max = ggreed[i]
			maxi = -i
		}
	}
	for i := 0; i < nstate; i++ {
		if tystate[i] >= max {
			max = tystate[i]
			maxi = i
		}
	}
	if max == 0 {
		return NOMORE
	}
	return maxi
}

func gin(i int) {
	var s int

	// enter gotos on nonterminal i into array amem
	ggreed[i] = 0

	q := yypgo[i]
	nq := len(q) - 1

	// now, find amem place for it
nextgp:
	for p := 0; p < ACTSIZE; p++ {
		if amem[p] != 0 {
			continue
		}
		for r := 0; r < nq; r += 2 {
			s = p + q[r] + 1
			if s > maxa {
				maxa = s
				if maxa >= ACTSIZE {
					errorf("a array overflow")
				}
			}
			if amem[s] != 0 {
				continue nextgp
			}
		}

		// we have found amem spot
		amem[p] = q[nq]
		if p > maxa {
			maxa = p
		}
		for r := 0; r < nq; r += 2 {
			s = p + q[r] + 1
			amem[s] = q[r+1]
		}
		pgo[i] = p
		if adb > 1 {
			fmt.Fprintf(ftable, "Nonterminal %v, entry at %v\n", i, pgo[i])
		}
		return
	}
	errorf("cannot place goto %v\n", i)
}

func stin(i int) {
	var s int

	tystate[i] = 0

	// enter state i into the amem array
	q := optst[i]
	nq := len(q)

nextn:
	// find an acceptable place
	for n := -maxoff; n < ACTSIZE; n++ {
		flag := 0
		for r := 0; r < nq; r += 2 {
			s = q[r] + n
			if s < 0 || s > ACTSIZE {
				continue nextn
			}
			if amem[s] == 0 {
				flag++
			} else if amem[s] != q[r+1] {
				continue nextn
			}
		}

		// check the position equals another only if the states are identical
		for j := 0; j < nstate; j++ {
			if indgo[j] == n {

				// we have some disagreement
				if flag != 0 {
					continue nextn
				}
				if nq == len(optst[j]) {

					// states are equal
					indgo[i] = n
					if adb > 1 {
						fmt.Fprintf(ftable, "State %v: entry at"+
							"%v equals state %v\n",
							i, n, j)
					}
					return
				}

				// we have some disagreement
				continue nextn
			}
		}

		for r := 0; r < nq; r += 2 {
			s = q[r] + n
			if s > maxa {
				maxa = s
			}
			if amem[s] != 0 && amem[s] != q[r+1] {
				errorf("clobber of a array, pos'n %v, by %v", s, q[r+1])
			}
			amem[s] = q[r+1]
		}
		indgo[i] = n
		if adb > 1 {
			fmt.Fprintf(ftable, "State %v: entry at %v\n", i, indgo[i])
		}
		return
	}
	errorf("Error; failure to place state %v", i)
}

// this version is for limbo
// write out the optimized parser
func aoutput() {
	ftable.WriteRune('\n')
	fmt.Fprintf(ftable, "const %sLast = %v\n", prefix, maxa+1)
	arout("Act", amem, maxa+1)
	arout("Pact", indgo, nstate)
	arout("Pgo", pgo, nnonter+1)
}

// put out other arrays, copy the parsers
func others() {
	var i, j int

	arout("R1", levprd, nprod)
	aryfil(temp1, nprod, 0)

	//
	//yyr2 is the number of rules for each production
	//
	for i = 1; i < nprod; i++ {
		temp1[i] = len(prdptr[i]) - 2
	}
	arout("R2", temp1, nprod)

	aryfil(temp1, nstate, -1000)
	for i = 0; i <= ntokens; i++ {
		for j := tstates[i]; j != 0; j = mstates[j] {
			temp1[j] = i
		}
	}
	for i = 0; i <= nnonter; i++ {
		for j = ntstates[i]; j != 0; j = mstates[j] {
			temp1[j] = -i
		}
	}
	arout("Chk", temp1, nstate)
	arrayOutColumns("Def", defact[:nstate], 10, false)

	// put out token translation tables
	// table 1 has 0-256
	aryfil(temp1, 256, 0)
	c := 0
	for i = 1; i <= ntokens; i++ {
		j = tokset[i].value
		if j >= 0 && j < 256 {
			if temp1[j] != 0 {
				fmt.Print("yacc bug -- cannot have 2 different Ts with same value\n")
				fmt.Printf("	%s and %s\n", tokset[i].name, tokset[temp1[j]].name)
				nerrors++
			}
			temp1[j] = i
			if j > c {
				c = j
			}
		}
	}
	for i = 0; i <= c; i++ {
		if temp1[i] == 0 {
			temp1[i] = YYLEXUNK
		}
	}
	arout("Tok1", temp1, c+1)

	// table 2 has PRIVATE-PRIVATE+256
	aryfil(temp1, 256, 0)
	c = 0
	for i = 1; i <= ntokens; i++ {
		j = tokset[i].value - PRIVATE
		if j >= 0 && j < 256 {
			if temp1[j] != 0 {
				fmt.Print("yacc bug -- cannot have 2 different Ts with same value\n")
				fmt.Printf("	%s and %s\n", tokset[i].name, tokset[temp1[j]].name)
				nerrors++
			}
			temp1[j] = i
			if j > c {
				c = j
			}
		}
	}
	arout("Tok2", temp1, c+1)

	// table 3 has everything else
	ftable.WriteRune('\n')
	var v []int
	for i = 1; i <= ntokens; i++ {
		j = tokset[i].value
		if j >= 0 && j < 256 {
			continue
		}
		if j >= PRIVATE && j < 256+PRIVATE {
			continue
		}

		v = append(v, j, i)
	}
	v = append(v, 0)
	arout("Tok3", v, len(v))
	fmt.Fprintf(ftable, "\n")

	// Custom error messages.
	fmt.Fprintf(ftable, "\n")
	fmt.Fprintf(ftable, "var %sErrorMessages = [...]struct {\n", prefix)
	fmt.Fprintf(ftable, "\tstate int\n")
	fmt.Fprintf(ftable, "\ttoken int\n")
	fmt.Fprintf(ftable, "\tmsg   string\n")
	fmt.Fprintf(ftable, "}{\n")
	for _, error := range errors {
		lineno = error.lineno
		state, token := runMachine(error.tokens)
		fmt.Fprintf(ftable, "\t{%v, %v, %s},\n", state, token, error.msg)
	}
	fmt.Fprintf(ftable, "}\n")

	// copy parser text
	ch := getrune(finput)
	for ch != EOF {
		ftable.WriteRune(ch)
		ch = getrune(finput)
	}

	// copy yaccpar
	if !lflag {
		fmt.Fprintf(ftable, "\n//line yaccpar:1\n")
	}

	parts := strings.SplitN(yaccpar, prefix+"run()", 2)
	fmt.Fprintf(ftable, "%v", parts[0])
	ftable.Write(fcode.Bytes())
	fmt.Fprintf(ftable, "%v", parts[1])
}

func runMachine(tokens []string) (state, token int) {
	var stack []int
	i := 0
	token = -1

Loop:
	if token < 0 {
		token = chfind(2, tokens[i])
		i++
	}

	row := stateTable[state]

	c := token
	if token >= NTBASE {
		c = token - NTBASE + ntokens
	}
	action := row.actions[c]
	if action == 0 {
		action = row.defaultAction
	}

	switch {
	case action == ACCEPTCODE:
		errorf("tokens are accepted")
		return
	case action == ERRCODE:
		if token >= NTBASE {
			errorf("error at non-terminal token %s", symnam(token))
		}
		return
	case action > 0:
		// Shift to state action.
		stack = append(stack, state)
		state = action
		token = -1
		goto Loop
	default:
		// Reduce by production -action.
		prod := prdptr[-action]
		if rhsLen := len(prod) - 2; rhsLen > 0 {
			n := len(stack) - rhsLen
			state = stack[n]
			stack = stack[:n]
		}
		if token >= 0 {
			i--
		}
		token = prod[0]
		goto Loop
	}
}

func minMax(v []int) (min, max int) {
	if len(v) == 0 {
		return
	}
	min = v[0]
	max = v[0]
	for _, i := range v {
		if i < min {
			min = i
		}
		if i > max {
			max = i
		}
	}
	return
}

// return the smaller integral base type to store the values in v
func minType(v []int, allowUnsigned bool) (typ string) {
	typ = "int"
	typeLen := 8
	min, max := minMax(v)
	checkType := func(name string, size, minType, maxType int) {
		if min >= minType && max <= maxType && typeLen > size {
			typ = name
			typeLen = size
		}
	}
	checkType("int32", 4, math.MinInt32, math.MaxInt32)
	checkType("int16", 2, math.MinInt16, math.MaxInt16)
	checkType("int8", 1, math.MinInt8, math.MaxInt8)
	if allowUnsigned {
		// Do not check for uint32, not worth and won't compile on 32 bit systems
		checkType("uint16", 2, 0, math.MaxUint16)
		checkType("uint8", 1, 0, math.MaxUint8)
	}
	return
}

func arrayOutColumns(s string, v []int, columns int, allowUnsigned bool) {
	s = prefix + s
	ftable.WriteRune('\n')
	minType := minType(v, allowUnsigned)
	fmt.Fprintf(ftable, "var %v = [...]%s{", s, minType)
	for i, val := range v {
		if i%columns == 0 {
			fmt.Fprintf(ftable, "\n\t")
		} else {
			ftable.WriteRune(' ')
		}
		fmt.Fprintf(ftable, "%d,", val)
	}
	fmt.Fprintf(ftable, "\n}\n")
}

func arout(s string, v []int, n int) {
	arrayOutColumns(s, v[:n], 10, true)
}

// output the summary on y.output
func summary() {
	if foutput != nil {
		fmt.Fprintf(foutput, "\n%v terminals, %v nonterminals\n", ntokens, nnonter+1)
		fmt.Fprintf(foutput, "%v grammar rules, %v/%v states\n", nprod, nstate, NSTATES)
		fmt.Fprintf(foutput, "%v shift/reduce, %v reduce/reduce conflicts reported\n", zzsrconf, zzrrconf)
		fmt.Fprintf(foutput, "%v working sets used\n", len(wsets))
		fmt.Fprintf(foutput, "memory: parser %v/%v\n", memp, ACTSIZE)
		fmt.Fprintf(foutput, "%v extra closures\n", zzclose-2*nstate)
		fmt.Fprintf(foutput, "%v shift entries, %v exceptions\n", zzacent, zzexcp)
		fmt.Fprintf(foutput, "%v goto entries\n", zzgoent)
		fmt.Fprintf(foutput, "%v entries saved by goto default\n", zzgobest)
	}
	if zzsrconf != 0 || zzrrconf != 0 {
		fmt.Printf("\nconflicts: ")
		if zzsrconf != 0 {
			fmt.Printf("%v shift/reduce", zzsrconf)
		}
		if zzsrconf != 0 && zzrrconf != 0 {
			fmt.Printf(", ")
		}
		if zzrrconf != 0 {
			fmt.Printf("%v reduce/reduce", zzrrconf)
		}
		fmt.Printf("\n")
	}
}

// write optimizer summary
func osummary() {
	if foutput == nil {
		return
	}
	i := 0
	for p := maxa; p >= 0; p-- {
		if amem[p] == 0 {
			i++
		}
	}

	fmt.Fprintf(foutput, "Optimizer space used: output %v/%v\n", maxa+1, ACTSIZE)
	fmt.Fprintf(foutput, "%v table entries, %v zero\n", maxa+1, i)
	fmt.Fprintf(foutput, "maximum spread: %v, maximum offset: %v\n", maxspr, maxoff)
}

// copies and protects "'s in q
func chcopy(q string) string {
	s := ""
	i := 0
	j := 0
	for i = 0; i < len(q); i++ {
		if q[i] == '"' {
			s += q[j:i] + "\\"
			j = i
		}
	}
	return s + q[j:i]
}

func usage() {
	fmt.Fprintf(stderr, "usage: yacc [-o output] [-v parsetable] input\n")
	exit(1)
}

func bitset(set Lkset, bit int) int { return set[bit>>5] & (1 << uint(bit&31)) }

func setbit(set Lkset, bit int) { set[bit>>5] |= (1 << uint(bit&31)) }

func mkset() Lkset { return make([]int, tbitset) }

// set a to the union of a and b
// return 1 if b is not a subset of a, 0 otherwise
func setunion(a, b []int) int {
	sub := 0
	for i := 0; i < tbitset; i++ {
		x := a[i]
		y := x | b[i]
		a[i] = y
		if y != x {
			sub = 1
		}
	}
	return sub
}

func prlook(p Lkset) {
	if p == nil {
		fmt.Fprintf(foutput, "\tNULL")
		return
	}
	fmt.Fprintf(foutput, " { ")
	for j := 0; j <= ntokens; j++ {
		if bitset(p, j) != 0 {
			fmt.Fprintf(foutput, "%v ", symnam(j))
		}
	}
	fmt.Fprintf(foutput, "}")
}

// utility routines
var peekrune rune

func isdigit(c rune) bool { return c >= '0' && c <= '9' }

func isword(c rune) bool {
	return c >= 0xa0 || c == '_' || (c >= 'a' && c <= 'z') || (c >= 'A' && c <= 'Z')
}

// return 1 if 2 arrays are equal
// return 0 if not equal
func aryeq(a []int, b []int) int {
	n := len(a)
	if len(b) != n {
		return 0
	}
	for ll := 0; ll < n; ll++ {
		if a[ll] != b[ll] {
			return 0
		}
	}
	return 1
}

func getrune(f *bufio.Reader) rune {
	var r rune

	if peekrune != 0 {
		if peekrune == EOF {
			return EOF
		}
		r = peekrune
		peekrune = 0
		return r
	}

	c, n, err := f.ReadRune()
	if n == 0 {
		return EOF
	}
	if err != nil {
		errorf("read error: %v", err)
	}
	//fmt.Printf("rune = %v n=%v\n", string(c), n);
	return c
}

func ungetrune(f *bufio.Reader, c rune) {
	if f != finput {
		panic("ungetc - not finput")
	}
	if peekrune != 0 {
		panic("ungetc - 2nd unget")
	}
	peekrune = c
}

func open(s string) *bufio.Reader {
	fi, err := os.Open(s)
	if err != nil {
		errorf("error opening %v: %v", s, err)
	}
	//fmt.Printf("open %v\n", s);
	return bufio.NewReader(fi)
}

func create(s string) *bufio.Writer {
	fo, err := os.Create(s)
	if err != nil {
		errorf("error creating %v: %v", s, err)
	}
	//fmt.Printf("create %v mode %v\n", s);
	return bufio.NewWriter(fo)
}

// write out error comment
func lerrorf(lineno int, s string, v ...interface{}) {
	nerrors++
	fmt.Fprintf(stderr, s, v...)
	fmt.Fprintf(stderr, ": %v:%v\n", infile, lineno)
	if fatfl != 0 {
		summary()
		exit(1)
	}
}

func errorf(s string, v ...interface{}) {
	lerrorf(lineno, s, v...)
}

func exit(status int) {
	if ftable != nil {
		ftable.Flush()
		ftable = nil
		gofmt()
	}
	if foutput != nil {
		foutput.Flush()
		foutput = nil
	}
	if stderr != nil {
		stderr.Flush()
		stderr = nil
	}
	os.Exit(status)
}

func gofmt() {
	src, err := os.ReadFile(oflag)
	if err != nil {
		return
	}
	src, err = format.Source(src)
	if err != nil {
		return
	}
	os.WriteFile(oflag, src, 0666)
}

var yaccpar string // will be processed version of yaccpartext: s/$$/prefix/g
var yaccpartext = `
/*	parser for yacc output	*/

var (
	$$Debug        = 0
	$$ErrorVerbose = false
)

type $$Lexer interface {
	Lex(lval *$$SymType) int
	Error(s string)
}

type $$Parser interface {
	Parse($$Lexer) int
	Lookahead() int
}

type $$ParserImpl struct {
	lval  $$SymType
	stack [$$InitialStackSize]$$SymType
	char  int
}

func (p *$$ParserImpl) Lookahead() int {
	return p.char
}

func $$NewParser() $$Parser {
	return &$$ParserImpl{}
}

const $$Flag = -1000

func $$Tokname(c int) string {
	if c >= 1 && c-1 < len($$Toknames) {
		if $$Toknames[c-1] != "" {
			return $$Toknames[c-1]
		}
	}
	return __yyfmt__.Sprintf("tok-%v", c)
}

func $$Statname(s int) string {
	if s >= 0 && s < len($$Statenames) {
		if $$Statenames[s] != "" {
			return $$Statenames[s]
		}
	}
	return __yyfmt__.Sprintf("state-%v", s)
}

func $$ErrorMessage(state, lookAhead int) string {
	const TOKSTART = 4

	if !$$ErrorVerbose {
		return "syntax error"
	}

	for _, e := range $$ErrorMessages {
		if e.state == state && e.token == lookAhead {
			return "syntax error: " + e.msg
		}
	}

	res := "syntax error: unexpected " + $$Tokname(lookAhead)

	// To match Bison, suggest at most four expected tokens.
	expected := make([]int, 0, 4)

	// Look for shiftable tokens.
	base := int($$Pact[state])
	for tok := TOKSTART; tok-1 < len($$Toknames); tok++ {
		if n := base + tok; n >= 0 && n < $$Last && int($$Chk[int($$Act[n])]) == tok {
			if len(expected) == cap(expected) {
				return res
			}
			expected = append(expected, tok)
		}
	}

	if $$Def[state] == -2 {
		i := 0
		for $$Exca[i] != -1 || int($$Exca[i+1]) != state {
			i += 2
		}

		// Look for tokens that we accept or reduce.
		for i += 2; $$Exca[i] >= 0; i += 2 {
			tok := int($$Exca[i])
			if tok < TOKSTART || $$Exca[i+1] == 0 {
				continue
			}
			if len(expected) == cap(expected) {
				return res
			}
			expected = append(expected, tok)
		}

		// If the default action is to accept or reduce, give up.
		if $$Exca[i+1] != 0 {
			return res
		}
	}

	for i, tok := range expected {
		if i == 0 {
			res += ", expecting "
		} else {
			res += " or "
		}
		res += $$Tokname(tok)
	}
	return res
}

func $$lex1(lex $$Lexer, lval *$$SymType) (char, token int) {
	token = 0
	char = lex.Lex(lval)
	if char <= 0 {
		token = int($$Tok1[0])
		goto out
	}
	if char < len($$Tok1) {
		token = int($$Tok1[char])
		goto out
	}
	if char >= $$Private {
		if char < $$Private+len($$Tok2) {
			token = int($$Tok2[char-$$Private])
			goto out
		}
	}
	for i := 0; i < len($$Tok3); i += 2 {
		token = int($$Tok3[i+0])
		if token == char {
			token = int($$Tok3[i+1])
			goto out
		}
	}

out:
	if token == 0 {
		token = int($$Tok2[1]) /* unknown char */
	}
	if $$Debug >= 3 {
		__yyfmt__.Printf("lex %s(%d)\n", $$Tokname(token), uint(char))
	}
	return char, token
}

func $$Parse($$lex $$Lexer) int {
	return $$NewParser().Parse($$lex)
}

func ($$rcvr *$$ParserImpl) Parse($$lex $$Lexer) int {
	var $$n int
	var $$VAL $$SymType
	var $$Dollar []$$SymType
	_ = $$Dollar // silence set and not used
	$$S := $$rcvr.stack[:]

	Nerrs := 0   /* number of errors */
	Errflag := 0 /* error recovery flag */
	$$state := 0
	$$rcvr.char = -1
	$$token := -1 // $$rcvr.char translated into internal numbering
	defer func() {
		// Make sure we report no lookahead when not parsing.
		$$state = -1
		$$rcvr.char = -1
		$$token = -1
	}()
	$$p := -1
	goto $$stack

ret0:
	return 0

ret1:
	return 1

$$stack:
	/* put a state and value onto the stack */
	if $$Debug >= 4 {
		__yyfmt__.Printf("char %v in %v\n", $$Tokname($$token), $$Statname($$state))
	}

	$$p++
	if $$p >= len($$S) {
		nyys := make([]$$SymType, len($$S)*2)
		copy(nyys, $$S)
		$$S = nyys
	}
	$$S[$$p] = $$VAL
	$$S[$$p].yys = $$state

$$newstate:
	$$n = int($$Pact[$$state])
	if $$n <= $$Flag {
		goto $$default /* simple state */
	}
	if $$rcvr.char < 0 {
		$$rcvr.char, $$token = $$lex1($$lex, &$$rcvr.lval)
	}
	$$n += $$token
	if $$n < 0 || $$n >= $$Last {
		goto $$default
	}
	$$n = int($$Act[$$n])
	if int($$Chk[$$n]) == $$token { /* valid shift */
		$$rcvr.char = -1
		$$token = -1
		$$VAL = $$rcvr.lval
		$$state = $$n
		if Errflag > 0 {
			Errflag--
		}
		goto $$stack
	}

$$default:
	/* default state action */
	$$n = int($$Def[$$state])
	if $$n == -2 {
		if $$rcvr.char < 0 {
			$$rcvr.char, $$token = $$lex1($$lex, &$$rcvr.lval)
		}

		/* look through exception table */
		xi := 0
		for {
			if $$Exca[xi+0] == -1 && int($$Exca[xi+1]) == $$state {
				break
			}
			xi += 2
		}
		for xi += 2; ; xi += 2 {
			$$n = int($$Exca[xi+0])
			if $$n < 0 || $$n == $$token {
				break
			}
		}
		$$n = int($$Exca[xi+1])
		if $$n < 0 {
			goto ret0
		}
	}
	if $$n == 0 {
		/* error ... attempt to resume parsing */
		switch Errflag {
		case 0: /* brand new error */
			$$lex.Error($$ErrorMessage($$state, $$token))
			Nerrs++
			if $$Debug >= 1 {
				__yyfmt__.Printf("%s", $$Statname($$state))
				__yyfmt__.Printf(" saw %s\n", $$Tokname($$token))
			}
			fallthrough

		case 1, 2: /* incompletely recovered error ... try again */
			Errflag = 3

			/* find a state where "error" is a legal shift action */
			for $$p >= 0 {
				$$n = int($$Pact[$$S[$$p].yys]) + $$ErrCode
				if $$n >= 0 && $$n < $$Last {
					$$state = int($$Act[$$n]) /* simulate a shift of "error" */
					if int($$Chk[$$state]) == $$ErrCode {
						goto $$stack
					}
				}

				/* the current p has no shift on "error", pop stack */
				if $$Debug >= 2 {
					__yyfmt__.Printf("error recovery pops state %d\n", $$S[$$p].yys)
				}
				$$p--
			}
			/* there is no state on the stack with an error shift ... abort */
			goto ret1

		case 3: /* no shift yet; clobber input char */
			if $$Debug >= 2 {
				__yyfmt__.Printf("error recovery discards %s\n", $$Tokname($$token))
			}
			if $$token == $$EofCode {
				goto ret1
			}
			$$rcvr.char = -1
			$$token = -1
			goto $$newstate /* try again in the same state */
		}
	}

	/* reduction by production $$n */
	if $$Debug >= 2 {
		__yyfmt__.Printf("reduce %v in:\n\t%v\n", $$n, $$Statname($$state))
	}

	$$nt := $$n
	$$pt := $$p
	_ = $$pt // guard against "declared and not used"

	$$p -= int($$R2[$$n])
	// $$p is now the index of $0. Perform the default action. Iff the
	// reduced production is ε, $1 is possibly out of range.
	if $$p+1 >= len($$S) {
		nyys := make([]$$SymType, len($$S)*2)
		copy(nyys, $$S)
		$$S = nyys
	}
	$$VAL = $$S[$$p+1]

	/* consult goto table to find next state */
	$$n = int($$R1[$$n])
	$$g := int($$Pgo[$$n])
	$$j := $$g + $$S[$$p].yys + 1

	if $$j >= $$Last {
		$$state = int($$Act[$$g])
	} else {
		$$state = int($$Act[$$j])
		if int($$Chk[$$state]) != -$$n {
			$$state = int($$Act[$$g])
		}
	}
	// dummy call; replaced with literal code
	$$run()
	goto $$stack /* stack new state and value */
}
`
