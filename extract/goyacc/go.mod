module verif/goyacc

go 1.22
