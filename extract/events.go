package main

import (
	"bytes"
	"go/ast"
	"go/printer"
	"path/filepath"
	"strings"
)

// funcEvents abstracts a function body into the sequence of its protocol-relevant events in source
// order: conditions, select cases, returns, loops and the calls that touch shared state. Comments,
// formatting and unrelated statements do not appear, so harmless edits mostly leave it unchanged,
// while a change of an atomic operation, a comparison, a select case or a return value does not.
func funcEvents(files []*ast.File, recv, name string, callMarks []string) []string {
	var fn *ast.FuncDecl
	for _, f := range files {
		for _, d := range f.Decls {
			fd, ok := d.(*ast.FuncDecl)
			if !ok || fd.Name.Name != name || fd.Body == nil {
				continue
			}
			r := ""
			if fd.Recv != nil && len(fd.Recv.List) == 1 {
				r = exprText(fd.Recv.List[0].Type)
			}
			if r == recv {
				fn = fd
			}
		}
	}
	if fn == nil {
		fatal("function %s.%s not found", recv, name)
	}
	var out []string
	marked := func(s string) bool {
		for _, m := range callMarks {
			if strings.Contains(s, m) {
				return true
			}
		}
		return false
	}
	ast.Inspect(fn.Body, func(n ast.Node) bool {
		switch x := n.(type) {
		case *ast.FuncLit:
			out = append(out, "func-literal")
		case *ast.IfStmt:
			out = append(out, "if "+exprText(x.Cond))
		case *ast.ForStmt:
			if x.Cond != nil {
				out = append(out, "for "+exprText(x.Cond))
			} else {
				out = append(out, "for")
			}
		case *ast.RangeStmt:
			out = append(out, "range "+exprText(x.X))
		case *ast.SwitchStmt:
			if x.Tag != nil {
				out = append(out, "switch "+exprText(x.Tag))
			} else {
				out = append(out, "switch")
			}
		case *ast.CaseClause:
			if x.List == nil {
				out = append(out, "default")
			} else {
				var parts []string
				for _, e := range x.List {
					parts = append(parts, exprText(e))
				}
				out = append(out, "case "+strings.Join(parts, ", "))
			}
		case *ast.CommClause:
			if x.Comm == nil {
				out = append(out, "select-default")
			} else {
				out = append(out, "select-case "+nodeText(x.Comm))
			}
		case *ast.ReturnStmt:
			var parts []string
			for _, e := range x.Results {
				parts = append(parts, exprText(e))
			}
			out = append(out, "return "+strings.Join(parts, ", "))
		case *ast.AssignStmt:
			if marked("@assign") {
				out = append(out, "assign "+nodeText(x))
			}
		case *ast.CallExpr:
			s := exprText(x)
			if marked(exprText(x.Fun)) || strings.HasPrefix(s, "panic(") {
				out = append(out, "call "+s)
			}
		}
		return true
	})
	return out
}

func exprText(e ast.Expr) string { return nodeText(e) }

func nodeText(n ast.Node) string {
	var buf bytes.Buffer
	printer.Fprint(&buf, fset, n)
	s := buf.String()
	// one line, single spaces
	return strings.Join(strings.Fields(s), " ")
}

type eventSpec struct {
	leanName string
	dir      string
	recv     string
	fn       string
	marks    []string
}

func extractEvents(repo string, o *leanOut) {
	chanMarks := []string{".refs.", ".state.", ".freed.", ".freec.", "releaseChannelState2", "tryAcquire", "acquire", "release", ".close", "closeUser"}
	specs := []eventSpec{
		{"ev_channel_acquire", "mpx", "*channel", "acquire", chanMarks},
		{"ev_channel_tryAcquire", "mpx", "*channel", "tryAcquire", chanMarks},
		{"ev_channel_release", "mpx", "*channel", "release", chanMarks},
		{"ev_channel_free", "mpx", "*channel", "free", chanMarks},
		{"ev_channel_Free", "mpx", "*channel", "Free", chanMarks},
		{"ev_channel_receive", "mpx", "*channel", "receive", chanMarks},
		{"ev_channel_closeUser", "mpx", "*channel", "closeUser", []string{"acquire", "release", ".close", "sendClose", "sender.", ".closed.", "sendMu", "panic"}},
		{"ev_channel_ReceiveAsync", "mpx", "*channel", "ReceiveAsync", []string{"recvBytes", "recvQueue", "sendWindow", ".closed."}},
		{"ev_channel_Receive", "mpx", "*channel", "Receive", []string{"ReceiveAsync", "ReceiveWait"}},
		{"ev_channel_ReceiveWait", "mpx", "*channel", "ReceiveWait", []string{"recvQueue", "acquire", "release"}},
		{"ev_conn_sendLoop", "mpx", "*conn", "sendLoop", []string{"writeq", "sendMessage", "flush"}},
		{"ev_rpc_client_Receive", "rpc", "*channel", "Receive", []string{"ReceiveAsync", "ReceiveWait"}},
		{"ev_rpc_server_Receive", "rpc", "*serverChannel", "Receive", []string{"ReceiveAsync", "ReceiveWait"}},
		{"ev_client_new", "mpx", "", "newClientDialer", []string{"connect", "mu."}},
		{"ev_channel_Send", "mpx", "*channel", "Send", []string{"sendWindow", "decrementSendWindow", ".sender.", ".closed.", ".opened.", ".open", "sendMu"}},
		{"ev_channel_SendAndClose", "mpx", "*channel", "SendAndClose", []string{"sendWindow", ".sender.", ".closed.", ".opened.", ".open", ".close", "sendMu"}},
		{"ev_state_decrementSendWindow", "mpx", "*channelState", "decrementSendWindow", []string{"sendWindow"}},
		{"ev_state_receiveWindow", "mpx", "*channelState", "receiveWindow", []string{"sendWindow"}},
		{"ev_state_close", "mpx", "*channelState", "close", []string{".closed.", "ctx.Cancel", "recvQueue"}},
		{"ev_conn_addClosed", "mpx", "*conn", "addClosed", []string{"closedListeners", ".closed.", "closedListenerSeq"}},
		{"ev_conn_notifyClosed", "mpx", "*conn", "notifyClosed", []string{"closedListeners", "fn"}},
		{"ev_conn_close", "mpx", "*conn", "close", []string{".closed.", "ctx.Cancel", "conn.Close", "writeq", "closeChannels", "notifyClosed", "onConnClosed"}},
		{"ev_conn_closeChannels", "mpx", "*conn", "closeChannels", []string{"channelsClosed", "channels.", ".free"}},
		{"ev_conn_createChannel", "mpx", "*conn", "createChannel", []string{"channelsClosed", "channels.", "handshaked", ".Free", ".free"}},
		{"ev_conn_send", "mpx", "*conn", "send", []string{"writeq"}},
		{"ev_conn_Channel", "mpx", "*conn", "Channel", []string{"createChannel"}},
		{"ev_conn_run", "mpx", "*conn", "run", []string{"handshake", "receiveLoop", "sendLoop", ".close", ".free", "StopWaitAll"}},
		{"ev_conn_receiveMessage", "mpx", "*conn", "receiveMessage", []string{"receive"}},
		{"ev_conn_receiveOpen", "mpx", "*conn", "receiveOpen", []string{"channels.", "openChannel", ".Free", ".free", "workerPool", "newChannelHandler"}},
		{"ev_conn_receiveClose", "mpx", "*conn", "receiveClose", []string{"channels.", ".free", ".receive"}},
		{"ev_conn_receiveData", "mpx", "*conn", "receiveData", []string{"channels.", ".receive"}},
		{"ev_conn_receiveWindow", "mpx", "*conn", "receiveWindow", []string{"channels.", ".receive"}},
		{"ev_conn_sendHandle", "mpx", "*conn", "sendHandle", []string{"channels.", ".free", "sendHandle"}},
		{"ev_conn_handshakeAsServer", "mpx", "*conn", "handshakeAsServer", []string{"handshaked", "writeLine", "readLine", "readRequest", "writeAndFlush", "initLZ4", "BuildConnect"}},
		{"ev_client_Close", "mpx", "*client", "Close", []string{"closed_", "connected_", "disconnected_", "conns.", "connecting", ".Close", "mu."}},
		{"ev_client_conn", "mpx", "*client", "conn", []string{"closed_", "connected_", "disconnected_", "conns.", "connect", "mu."}},
		{"ev_client_onConnClosed", "mpx", "*client", "onConnClosed", []string{"connected_", "disconnected_", "conns.", "connect", "mu."}},
		{"ev_client_onConnChannelsReached", "mpx", "*client", "onConnChannelsReached", []string{"conns.", "connect", "mu."}},
		{"ev_client_connect", "mpx", "*client", "connect", []string{"connecting", "async.Run"}},
		{"ev_client_connect1", "mpx", "*client", "connect1", []string{"connecting", "connectRecover", "closed_", "async.Run", "mu."}},
		{"ev_client_connectRecover", "mpx", "*client", "connectRecover", []string{"connectAttempt", "reconnectTimeout", "connector.connect", "closed_", "connected_", "disconnected_", "conns.", ".Close", "mu.", "handle"}},
		{"ev_reconnectTimeout", "mpx", "", "reconnectTimeout", []string{"min", "@assign"}},
		{"ev_pool_writerState_reset", "internal/writer", "*writerState", "reset", []string{"@assign", "reset"}},
		{"ev_pool_writerState_init", "internal/writer", "*writerState", "init", []string{"@assign", "reset"}},
		{"ev_pool_releaseWriterState", "internal/writer", "", "releaseWriterState", []string{"reset", "Put"}},
		{"ev_pool_writer_reset", "internal/writer", "*writer", "reset", []string{"@assign"}},
		{"ev_pool_stack_reset", "internal/writer", "*stack", "reset", []string{"@assign", "clear"}},
		{"ev_pool_listStack_reset", "internal/writer", "*listStack", "reset", []string{"@assign", "clear"}},
		{"ev_pool_messageStack_reset", "internal/writer", "*messageStack", "reset", []string{"@assign", "clear"}},
		{"ev_pool_mpx_channelState_reset", "mpx", "*channelState", "reset", []string{"@assign", "Reset", "Free"}},
		{"ev_pool_mpx_releaseChannelState2", "mpx", "", "releaseChannelState2", []string{"reset", "Put"}},
		{"ev_pool_mpx_releaseChannelHandler", "mpx", "", "releaseChannelHandler", []string{"@assign", "Put"}},
		{"ev_pool_rpc_channelState_reset", "rpc", "*channelState", "reset", []string{"@assign", "Reset", "Free"}},
		{"ev_pool_rpc_releaseState", "rpc", "", "releaseState", []string{"reset", "Put"}},
		{"ev_pool_rpc_requestState_reset", "rpc", "*requestState", "reset", []string{"@assign", "Reset", "Free"}},
		{"ev_pool_rpc_releaseRequestState", "rpc", "", "releaseRequestState", []string{"reset", "Put"}},
		{"ev_pool_rpc_serverChannelState_reset", "rpc", "*serverChannelState", "reset", []string{"@assign", "Reset", "Free"}},
		{"ev_pool_rpc_releaseServerState", "rpc", "", "releaseServerState", []string{"reset", "Put"}},
		{"ev_model_getPackage", "internal/lang/model", "*Context", "getPackage", []string{"Compiling", "compile", "Errorf"}},
		{"ev_model_compileFiles", "internal/lang/model", "*Context", "compileFiles", []string{"@assign", "parsePackage", "resolve", "compile", "validate", "Errorf"}},
		{"ev_model_parsePackage", "internal/lang/model", "", "parsePackage", []string{"Compiling", "parse"}},
		{"ev_model_parseDefinitions", "internal/lang/model", "*Package", "parseDefinitions", []string{"Errorf", "@assign"}},
		{"ev_model_file_resolve", "internal/lang/model", "*File", "resolve", []string{"Errorf", "resolve"}},
		{"ev_model_parseImport", "internal/lang/model", "*File", "parseImport", []string{"Errorf", "newImport"}},
		{"ev_model_newField", "internal/lang/model", "", "newField", []string{"Errorf", "newType"}},
		{"ev_model_newFields", "internal/lang/model", "", "newFields", []string{"Errorf", "newField"}},
		{"ev_model_field_resolved", "internal/lang/model", "*Field", "resolved", []string{"Errorf"}},
		{"ev_model_parseEnum", "internal/lang/model", "", "parseEnum", []string{"Errorf", "parseValues"}},
		{"ev_model_enum_parseValue", "internal/lang/model", "*Enum", "parseValue", []string{"Errorf"}},
		{"ev_model_struct_validate", "internal/lang/model", "*Struct", "validate", []string{"Errorf", "validate", "contains"}},
		{"ev_model_structField_validate", "internal/lang/model", "*StructField", "validate", []string{"Errorf", "builtin"}},
		{"ev_model_structField_contains", "internal/lang/model", "*StructField", "contains", []string{"contains", "@assign"}},
		{"ev_model_structField_compile", "internal/lang/model", "*StructField", "compile", []string{"Errorf"}},
		{"ev_model_method_compile", "internal/lang/model", "*Method", "compile", []string{"compile"}},
		{"ev_model_method_compileInput", "internal/lang/model", "*Method", "compileInput", []string{"Errorf", "generateMethodRequest", "compile"}},
		{"ev_model_method_compileOutput", "internal/lang/model", "*Method", "compileOutput", []string{"Errorf", "generateMethodResponse", "compile"}},
		{"ev_model_method_compileType", "internal/lang/model", "*Method", "compileType", []string{"Errorf"}},
		{"ev_model_channel_compile", "internal/lang/model", "*MethodChannel", "compile", []string{"Errorf"}},
		{"ev_model_type_resolve", "internal/lang/model", "*Type", "resolve", []string{"Errorf", "lookup", "_resolve", "@assign"}},
		{"ev_model_generateMessageDef", "internal/lang/model", "", "generateMessageDef", []string{"Errorf", "add", "@assign"}},
		{"ev_model_service_parseMethod", "internal/lang/model", "*Service", "parseMethod", []string{"Errorf", "parseMethod"}},
		{"ev_gen_file", "internal/lang/generator", "*fileWriter", "file", []string{"linef", "importPackage"}},
		{"ev_gen_importPackage", "internal/lang/generator", "", "importPackage", []string{"OptionNames"}},
		{"ev_gen_typeWriteFunc", "internal/lang/generator", "", "typeWriteFunc", []string{"Sprintf"}},
		{"ev_gen_typeDecodeFunc", "internal/lang/generator", "", "typeDecodeFunc", []string{"Sprintf"}},
		{"ev_gen_typeName", "internal/lang/generator", "", "typeName", []string{"Sprintf"}},
		{"ev_gen_message_field", "internal/lang/generator", "*messageWriter", "field", []string{"linef", "typeName", "typeDecodeFunc", "typeParseFunc", "typeNewFunc"}},
		{"ev_gen_message_writer_field", "internal/lang/generator", "*messageWriter", "writer_field", []string{"linef", "typeWriteFunc", "typeWriter"}},
		{"ev_gen_struct_decode", "internal/lang/generator", "*structWriter", "decode_method", []string{"linef", "typeDecodeFunc"}},
		{"ev_gen_struct_encode", "internal/lang/generator", "*structWriter", "encode_method", []string{"linef", "typeWriteFunc"}},
		{"ev_gen_enum_encode", "internal/lang/generator", "*enumWriter", "encode_method", []string{"linef"}},
		{"ev_gen_enum_decode", "internal/lang/generator", "*enumWriter", "decode_method", []string{"linef"}},
		{"ev_lexer_Lex", "internal/lang/parser", "*lexer", "Lex", []string{"Scan", "keywords", "ParseInt", "yyLexErrorf"}},
		{"ev_lexer_new", "internal/lang/parser", "", "newLexer", []string{"@assign", "Init"}},
		{"ev_lexer_Error", "internal/lang/parser", "*lexer", "Error", []string{"@assign"}},
		{"ev_lexer_scanError", "internal/lang/parser", "*lexer", "scanError", []string{"@assign"}},
		{"ev_parser_parse", "internal/lang/parser", "*parser", "parse", []string{"Parse", "newLexer", "@assign"}},
		{"ev_reader_readLine", "mpx", "*connReader", "readLine", []string{"ReadByte", "ReadString", "@assign"}},
		{"ev_reader_read", "mpx", "*connReader", "read", []string{"io.ReadFull", "binary.BigEndian", "buf.Grow", "buf.Reset"}},
	}
	cache := map[string][]*ast.File{}
	for _, sp := range specs {
		files, ok := cache[sp.dir]
		if !ok {
			files = parseDir(filepath.Join(repo, sp.dir))
			cache[sp.dir] = files
		}
		o.strList(sp.leanName, funcEvents(files, sp.recv, sp.fn, sp.marks))
	}
}
