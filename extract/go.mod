module verif/extract

go 1.24
